// Package gen holds the corpus loader, DER edit operators, builders and
// metamorphic transformers shared by all properties.
package gen

import (
	"encoding/base64"
	"encoding/pem"
	"os"
	"path/filepath"
	"sort"
	"strings"
	"sync"

	"github.com/zmap/zcrypto/x509"
	"golang.org/x/crypto/ocsp"
)

// RepoV3 is the zlint module under test.
func RepoV3() string {
	if p := os.Getenv("VERIF_REPO_V3"); p != "" {
		return p
	}
	return "/repo/v3"
}

// VerifRoot is /verif (where regress/, replays/, KNOWN_FINDINGS.txt live).
func VerifRoot() string {
	if p := os.Getenv("VERIF_ROOT"); p != "" {
		return p
	}
	return "/verif"
}

type Kind string

const (
	Cert Kind = "cert"
	CRL  Kind = "crl"
	OCSP Kind = "ocsp"
)

// Obj is one corpus object.
type Obj struct {
	Name string // file name relative to testdata
	Kind Kind
	DER  []byte
}

// ParseCert parses a certificate; a parser error or a parser panic (zcrypto
// has at least one) both mean "not parseable".
func ParseCert(der []byte) (c *x509.Certificate, ok bool) {
	defer func() {
		if r := recover(); r != nil {
			c, ok = nil, false
		}
	}()
	c, err := x509.ParseCertificate(der)
	if err != nil || c == nil {
		return nil, false
	}
	return c, true
}

func ParseCRL(der []byte) (c *x509.RevocationList, ok bool) {
	defer func() {
		if r := recover(); r != nil {
			c, ok = nil, false
		}
	}()
	c, err := x509.ParseRevocationList(der)
	if err != nil || c == nil {
		return nil, false
	}
	return c, true
}

func ParseOCSP(der []byte) (o *ocsp.Response, ok bool) {
	defer func() {
		if r := recover(); r != nil {
			o, ok = nil, false
		}
	}()
	o, err := ocsp.ParseResponse(der, nil)
	if err != nil || o == nil {
		return nil, false
	}
	return o, true
}

type Corpus struct {
	Certs []Obj
	CRLs  []Obj
	OCSPs []Obj
	// Skipped counts files that did not yield a parseable object.
	Skipped int
}

var (
	corpusOnce sync.Once
	corpus     *Corpus
)

// LoadCorpus reads every file under <repo>/v3/testdata (working tree, at run
// time), sorted by name. Only parseable objects are kept.
func LoadCorpus() *Corpus {
	corpusOnce.Do(func() {
		c := &Corpus{}
		root := filepath.Join(RepoV3(), "testdata")
		var files []string
		_ = filepath.Walk(root, func(p string, info os.FileInfo, err error) error {
			if err == nil && !info.IsDir() {
				files = append(files, p)
			}
			return nil
		})
		sort.Strings(files)
		for _, f := range files {
			b, err := os.ReadFile(f)
			if err != nil {
				continue
			}
			rel, _ := filepath.Rel(root, f)
			got := false
			rest := b
			for {
				var blk *pem.Block
				blk, rest = pem.Decode(rest)
				if blk == nil {
					break
				}
				switch blk.Type {
				case "CERTIFICATE":
					if _, ok := ParseCert(blk.Bytes); ok {
						c.Certs = append(c.Certs, Obj{rel, Cert, blk.Bytes})
						got = true
					}
				case "X509 CRL":
					if _, ok := ParseCRL(blk.Bytes); ok {
						c.CRLs = append(c.CRLs, Obj{rel, CRL, blk.Bytes})
						got = true
					}
				}
				break // first block only, as zlint's own test helpers do
			}
			if !got && !strings.HasSuffix(f, ".pem") {
				// OCSP test files are bare base64.
				if der, err := base64.StdEncoding.DecodeString(strings.TrimSpace(string(b))); err == nil {
					if _, ok := ParseOCSP(der); ok {
						c.OCSPs = append(c.OCSPs, Obj{rel, OCSP, der})
						got = true
					}
				}
			}
			if !got {
				c.Skipped++
			}
		}
		corpus = c
	})
	return corpus
}
