package gen

import (
	"bytes"
	"fmt"
	"go/ast"
	"go/parser"
	"go/token"
	"path/filepath"
	"sort"
	"strconv"
	"strings"
	"sync"
	"time"

	"pgregory.net/rapid"

	dt "verifharness/dertree"
)

// Dictionary of hostile leaf contents.
var Dict = func() [][]byte {
	d := [][]byte{
		{}, {0xC2}, {0xE0}, {0xF0}, {0x80}, {0x00}, {0x7F}, {0x85}, {0x9F}, {0xC2, 0x80}, {0xC2, 0x9F}, {0xE2, 0x80, 0xA8},
		[]byte("*"), []byte("*."), []byte("."), []byte(".."), []byte("*.com"), []byte("*.co.uk"), []byte("a.*.com"), []byte("*.*.example.com"),
		[]byte(strings.Repeat("a", 64)), []byte(strings.Repeat("a", 63) + ".com"), []byte(strings.Repeat("a.", 127) + "com"),
		[]byte("xn--"), []byte("xn--a.com"), []byte("xn--zz--.com"), []byte("_"), []byte("_a.example.com"), []byte("a_b.com"), []byte("-a.com"), []byte("a-.com"), []byte("ab--c.com"),
		[]byte("@"), []byte("a@"), []byte("@b"), []byte("a@b.com"), []byte("<a@b.com>"), []byte("a@b.com (c)"), []byte("A <a@b.com>"),
		[]byte("http://"), []byte("http://["), []byte("http://[::1]:443/"), []byte("http://[2001:db8::1]/x"), []byte("urn:x"), []byte("urn:x:y"), []byte(":"), []byte("%zz"), []byte("http://a b/"),
		[]byte("mailto:a@b.com"), []byte("ldap://example.com/cn=x"), []byte("https://example.com/"), []byte("http://localhost/"), []byte("http://10.0.0.1/"), []byte("http://example/"), []byte("//example.com"),
		[]byte("127.0.0.1"), []byte("10.0.0.1"), []byte("192.168.1.1"), []byte("8.8.8.8"), []byte("1.2.3.4.in-addr.arpa"), []byte("1.0.0.127.in-addr.arpa"), []byte("b.a.9.8.ip6.arpa"),
		[]byte("&amp;"), []byte("&#x41;"), []byte("&lt;"), {0x00, 0x41, 0x00}, {0xD8, 0x00}, {0xD8, 0x00, 0x00, 0x41}, {0x00, 0x41}, {0x00, 0x00, 0x00, 0x41},
		[]byte("US"), []byte("us"), []byte("XX"), []byte("ZZ"), []byte("USA"), []byte("U"), []byte("DE"), []byte("example.com"), []byte("EXAMPLE.COM"), []byte("example.com."), []byte(".example.com"),
		[]byte("localhost"), []byte("example"), []byte("example.onion"), []byte("aaaaaaaaaaaaaaaa.onion"), []byte("a.b.invalidtld"), []byte("test.local"), []byte("www.example.test"),
		[]byte(" a"), []byte("a "), []byte(" "), []byte("a  b"), []byte("\t"), []byte("a\nb"), []byte("a\x00b"), []byte("-"), []byte("N/A"), []byte("n/a"), []byte("."), []byte("*"), []byte("?"),
		{0xff}, {0xff, 0xff, 0xff, 0xff}, {0x01}, {0x00, 0x00}, {0x80, 0x00}, {0x7f, 0xff, 0xff, 0xff, 0xff}, {0x05, 0x00}, {0x30, 0x00}, {0x30, 0x03, 0x02, 0x01, 0x00}, {0x0c, 0x00},
		{10, 0, 0, 1}, {127, 0, 0, 1}, {8, 8, 8, 8}, {0, 0, 0, 0}, {255, 255, 255, 255}, bytes.Repeat([]byte{0}, 16), append(bytes.Repeat([]byte{0}, 15), 1), {10, 0, 0, 0, 255, 0, 0, 0}, {1, 2, 3},
		[]byte("VATDE-123456789"), []byte("NTRUS-12345"), []byte("PSDDE-BAFIN-123"), []byte("VATDE"), []byte("LEIXG-5299001234567890ABCD"), []byte("GOVUS+CA-1"),
		[]byte("https://:443"), []byte("https://:443/x"), []byte("https://@/"), []byte("https://u:p@:80/"), []byte("https://[::1]"), []byte("https://example.com:/"), []byte("https://example.com:99999/"),
		[]byte("https://%41.com/"), []byte("https:///path"), []byte("https:"), []byte("HTTPS://EXAMPLE.COM"), []byte("http://example.com./"), []byte("https://xn--/"), []byte("https://*.example.com/"),
		[]byte("https://abcdefghijklmnop.onion"), []byte("http://abcdefghijklmnop.onion:80/"), []byte("ldaps://[fe80::1%25eth0]/"), []byte("file:///etc/passwd"), []byte("data:,x"), []byte("?"), []byte("#"),
		[]byte("a@xn--.com"), []byte("a@[127.0.0.1]"), []byte("\"a b\"@example.com"), []byte("a@b@c.com"), []byte("a@.com"), []byte("@example.com"), []byte(".example.com@"),
		append([]byte{0xff, 0xfe}, bytes.Repeat([]byte{0x65, 0x00}, 100)...), append([]byte{0xfe, 0xff}, bytes.Repeat([]byte{0x00, 0x65}, 100)...), append([]byte{0xff, 0xfe}, []byte{0x65, 0x00, 0x81, 0xcc}...),
		append([]byte{0xef, 0xbb, 0xbf}, []byte("with a UTF-8 byte order mark")...), {0x00, 0x00, 0xfe, 0xff, 0x00, 0x00, 0x00, 0x41}, {0xff, 0xfe}, {0xfe, 0xff},
		[]byte("100%25 real.example.com"), []byte("%s%d%v%!"), []byte("a%b.example.com"),
		[]byte("Private Organization"), []byte("Government Entity"), []byte("private organization"), []byte("V1.0, Clause 5.(b)"), []byte("V1.0, Clause 5.(x)"),
		bytes.Repeat([]byte("a"), 65), bytes.Repeat([]byte("a"), 129), bytes.Repeat([]byte("b"), 300), bytes.Repeat([]byte{0xC3, 0xA9}, 40), bytes.Repeat([]byte("x"), 32769),
	}
	return d
}()

var edgeBytes = []byte{0x00, 0x01, 0x1f, 0x20, 0x2a, 0x2d, 0x2e, 0x40, 0x5f, 0x7f, 0x80, 0x85, 0xa0, 0xc2, 0xe0, 0xf0, 0xff}

// string-ish universal tags: UTF8, Numeric, Printable, T61, IA5, Visible, Universal, BMP
var stringTags = []uint32{12, 18, 19, 20, 22, 26, 28, 30}

var (
	oidOnce sync.Once
	oidDict [][]byte
)

// OIDDict returns the content bytes of every OID literal in util/oid.go (and
// a few scope OIDs), harvested with go/parser at run time.
func OIDDict() [][]byte {
	oidOnce.Do(func() {
		seen := map[string]bool{}
		add := func(arcs []int) {
			if len(arcs) >= 2 && arcs[0] <= 2 && (arcs[0] == 2 || arcs[1] < 40) {
				for _, a := range arcs {
					if a < 0 {
						return
					}
				}
				c := dt.OID(arcs...).Content
				if !seen[string(c)] && len(c) <= 32 {
					seen[string(c)] = true
					oidDict = append(oidDict, c)
				}
			}
		}
		fset := token.NewFileSet()
		files, _ := filepath.Glob(filepath.Join(RepoV3(), "util", "*.go"))
		more, _ := filepath.Glob(filepath.Join(RepoV3(), "lints", "*", "*.go"))
		files = append(files, more...)
		sort.Strings(files)
		for _, fn := range files {
			if strings.HasSuffix(fn, "_test.go") || strings.HasSuffix(fn, "gtld_map.go") {
				continue
			}
			af, err := parser.ParseFile(fset, fn, nil, 0)
			if err != nil {
				continue
			}
			ast.Inspect(af, func(n ast.Node) bool {
				cl, ok := n.(*ast.CompositeLit)
				if !ok {
					return true
				}
				// only literals typed as an object identifier (asn1.ObjectIdentifier{...} or []int{...})
				typ := ""
				switch tt := cl.Type.(type) {
				case *ast.SelectorExpr:
					typ = tt.Sel.Name
				case *ast.ArrayType:
					if id, ok := tt.Elt.(*ast.Ident); ok {
						typ = "[]" + id.Name
					}
				}
				if typ != "ObjectIdentifier" && typ != "[]int" {
					return true
				}
				var arcs []int
				for _, e := range cl.Elts {
					bl, ok := e.(*ast.BasicLit)
					if !ok || bl.Kind != token.INT {
						return true
					}
					v, err := strconv.Atoi(bl.Value)
					if err != nil {
						return true
					}
					arcs = append(arcs, v)
				}
				if len(arcs) >= 3 {
					add(arcs)
				}
				return true
			})
		}
		for _, o := range [][]int{EKUAny, EKUServerAuth, EKUClientAuth, EKUCodeSign, EKUEmail, EKUOCSP, EKUTimeStamp, EKUUnknown,
			{2, 23, 140, 1, 3}, {2, 23, 140, 1, 4, 1}, {2, 5, 29, 32, 0}, {1, 2, 3, 4}} {
			add(o)
		}
		for _, o := range WellKnownOIDs {
			add(o)
		}
	})
	return oidDict
}

// OIDFamilyMode narrows the per-leaf OID choices of the deterministic edit table to
// the family of the OID that is there now (algorithms, curves, hashes, attribute
// types, extensions, key purposes, access methods, QC statements, policies/other)
// plus two members of every other family. The quick tier's sweeps use it; the
// thorough tier enumerates the whole dictionary on every OID leaf.
var OIDFamilyMode = false

func hasPrefix(a []int, p ...int) bool {
	if len(a) < len(p) {
		return false
	}
	for i := range p {
		if a[i] != p[i] {
			return false
		}
	}
	return true
}

func oidFamily(content []byte) int {
	a := dt.DecodeOID(content)
	switch {
	case hasPrefix(a, 1, 2, 840, 10045, 3), hasPrefix(a, 1, 3, 132, 0), hasPrefix(a, 1, 3, 36, 3, 3, 2, 8):
		return 1 // curves
	case hasPrefix(a, 1, 2, 840, 113549, 1, 1), hasPrefix(a, 1, 2, 840, 10040, 4), hasPrefix(a, 1, 2, 840, 10045), hasPrefix(a, 2, 16, 840, 1, 101, 3, 4, 3),
		hasPrefix(a, 1, 3, 101), hasPrefix(a, 1, 3, 14, 3, 2, 29), hasPrefix(a, 1, 3, 14, 3, 2, 27), hasPrefix(a, 1, 2, 840, 10046), hasPrefix(a, 1, 3, 132, 1):
		return 0 // algorithms
	case hasPrefix(a, 2, 16, 840, 1, 101, 3, 4, 2), hasPrefix(a, 1, 3, 14, 3, 2, 26), hasPrefix(a, 1, 2, 840, 113549, 2):
		return 2 // hashes
	case hasPrefix(a, 2, 5, 4), hasPrefix(a, 1, 2, 840, 113549, 1, 9), hasPrefix(a, 0, 9, 2342), hasPrefix(a, 1, 3, 6, 1, 4, 1, 311, 60, 2, 1):
		return 3 // attribute types
	case hasPrefix(a, 2, 5, 29, 37, 0), hasPrefix(a, 1, 3, 6, 1, 5, 5, 7, 3):
		return 5 // key purposes
	case hasPrefix(a, 2, 5, 29, 32, 0):
		return 8
	case hasPrefix(a, 2, 5, 29), hasPrefix(a, 1, 3, 6, 1, 5, 5, 7, 1), hasPrefix(a, 1, 3, 6, 1, 4, 1, 11129, 2, 4), hasPrefix(a, 2, 23, 140, 1, 31), hasPrefix(a, 2, 23, 140, 3):
		return 4 // extensions
	case hasPrefix(a, 1, 3, 6, 1, 5, 5, 7, 48), hasPrefix(a, 1, 3, 6, 1, 5, 5, 7, 2):
		return 6 // access methods, qualifiers
	case hasPrefix(a, 0, 4, 0), hasPrefix(a, 1, 3, 6, 1, 5, 5, 7, 11):
		return 7 // QC statements
	}
	return 8 // policies and everything else
}

var (
	famOnce sync.Once
	famList [9][][]byte
	famPick [9][][]byte
)

func oidChoices(cur []byte) [][]byte {
	d := OIDDict()
	if !OIDFamilyMode {
		return d
	}
	famOnce.Do(func() {
		for _, c := range d {
			f := oidFamily(c)
			famList[f] = append(famList[f], c)
		}
		for f := range famPick {
			famPick[f] = append([][]byte{}, famList[f]...)
			for g := range famList {
				if g != f {
					famPick[f] = append(famPick[f], famList[g][:min(2, len(famList[g]))]...)
				}
			}
		}
	})
	return famPick[oidFamily(cur)]
}

// WellKnownOIDs: algorithm, key, curve, hash, attribute-type and extension
// identifiers that the parsers (zcrypto, x/crypto) distinguish - so that an OID
// leaf can be turned into every value that changes what a lint is handed.
var WellKnownOIDs = [][]int{
	// signature algorithms
	{1, 2, 840, 113549, 1, 1, 2}, {1, 2, 840, 113549, 1, 1, 4}, {1, 2, 840, 113549, 1, 1, 5}, {1, 2, 840, 113549, 1, 1, 11}, {1, 2, 840, 113549, 1, 1, 12}, {1, 2, 840, 113549, 1, 1, 13},
	{1, 2, 840, 113549, 1, 1, 14}, {1, 2, 840, 113549, 1, 1, 10}, {1, 2, 840, 113549, 1, 1, 7}, {1, 2, 840, 113549, 1, 1, 8}, {1, 2, 840, 113549, 1, 1, 9},
	{1, 2, 840, 10040, 4, 3}, {2, 16, 840, 1, 101, 3, 4, 3, 2}, {2, 16, 840, 1, 101, 3, 4, 3, 1},
	{1, 2, 840, 10045, 4, 1}, {1, 2, 840, 10045, 4, 3, 1}, {1, 2, 840, 10045, 4, 3, 2}, {1, 2, 840, 10045, 4, 3, 3}, {1, 2, 840, 10045, 4, 3, 4},
	{1, 3, 101, 112}, {1, 3, 101, 113}, {1, 3, 101, 110}, {1, 3, 101, 111}, {1, 3, 14, 3, 2, 29}, {1, 3, 14, 3, 2, 27}, {1, 2, 643, 2, 2, 3}, {1, 2, 156, 10197, 1, 501},
	// public key algorithms and curves
	{1, 2, 840, 113549, 1, 1, 1}, {1, 2, 840, 10040, 4, 1}, {1, 2, 840, 10045, 2, 1}, {1, 2, 840, 10046, 2, 1}, {1, 3, 132, 1, 12},
	{1, 2, 840, 10045, 3, 1, 7}, {1, 3, 132, 0, 33}, {1, 3, 132, 0, 34}, {1, 3, 132, 0, 35}, {1, 3, 132, 0, 10}, {1, 2, 840, 10045, 3, 1, 1}, {1, 3, 36, 3, 3, 2, 8, 1, 1, 7},
	// hashes, MGF1
	{1, 3, 14, 3, 2, 26}, {2, 16, 840, 1, 101, 3, 4, 2, 1}, {2, 16, 840, 1, 101, 3, 4, 2, 2}, {2, 16, 840, 1, 101, 3, 4, 2, 3}, {2, 16, 840, 1, 101, 3, 4, 2, 4}, {1, 2, 840, 113549, 2, 5},
	// attribute types
	{2, 5, 4, 3}, {2, 5, 4, 4}, {2, 5, 4, 5}, {2, 5, 4, 6}, {2, 5, 4, 7}, {2, 5, 4, 8}, {2, 5, 4, 9}, {2, 5, 4, 10}, {2, 5, 4, 11}, {2, 5, 4, 12}, {2, 5, 4, 13}, {2, 5, 4, 15}, {2, 5, 4, 16}, {2, 5, 4, 17},
	{2, 5, 4, 41}, {2, 5, 4, 42}, {2, 5, 4, 43}, {2, 5, 4, 44}, {2, 5, 4, 45}, {2, 5, 4, 46}, {2, 5, 4, 65}, {2, 5, 4, 97}, {2, 5, 4, 20}, {2, 5, 4, 18},
	{1, 2, 840, 113549, 1, 9, 1}, {0, 9, 2342, 19200300, 100, 1, 25}, {0, 9, 2342, 19200300, 100, 1, 1}, {1, 3, 6, 1, 4, 1, 311, 60, 2, 1, 1}, {1, 3, 6, 1, 4, 1, 311, 60, 2, 1, 2}, {1, 3, 6, 1, 4, 1, 311, 60, 2, 1, 3},
	// extensions
	{2, 5, 29, 9}, {2, 5, 29, 14}, {2, 5, 29, 15}, {2, 5, 29, 16}, {2, 5, 29, 17}, {2, 5, 29, 18}, {2, 5, 29, 19}, {2, 5, 29, 20}, {2, 5, 29, 21}, {2, 5, 29, 23}, {2, 5, 29, 24}, {2, 5, 29, 27}, {2, 5, 29, 28},
	{2, 5, 29, 29}, {2, 5, 29, 30}, {2, 5, 29, 31}, {2, 5, 29, 32}, {2, 5, 29, 33}, {2, 5, 29, 35}, {2, 5, 29, 36}, {2, 5, 29, 37}, {2, 5, 29, 46}, {2, 5, 29, 54}, {2, 5, 29, 56},
	{1, 3, 6, 1, 5, 5, 7, 1, 1}, {1, 3, 6, 1, 5, 5, 7, 1, 3}, {1, 3, 6, 1, 5, 5, 7, 1, 11}, {1, 3, 6, 1, 5, 5, 7, 1, 24}, {1, 3, 6, 1, 5, 5, 7, 48, 1}, {1, 3, 6, 1, 5, 5, 7, 48, 2}, {1, 3, 6, 1, 5, 5, 7, 48, 3}, {1, 3, 6, 1, 5, 5, 7, 48, 5},
	{1, 3, 6, 1, 5, 5, 7, 48, 1, 1}, {1, 3, 6, 1, 5, 5, 7, 48, 1, 2}, {1, 3, 6, 1, 5, 5, 7, 48, 1, 5}, {1, 3, 6, 1, 4, 1, 11129, 2, 4, 2}, {1, 3, 6, 1, 4, 1, 11129, 2, 4, 3}, {1, 3, 6, 1, 4, 1, 11129, 2, 4, 5},
	{2, 23, 140, 1, 31}, {2, 23, 140, 3, 1}, {2, 16, 840, 1, 113730, 1, 1}, {1, 2, 840, 113533, 7, 65, 0}, {1, 3, 6, 1, 5, 5, 7, 2, 1}, {1, 3, 6, 1, 5, 5, 7, 2, 2},
	{1, 3, 6, 1, 5, 5, 7, 8, 9}, {1, 3, 6, 1, 5, 5, 7, 8, 7}, {1, 3, 6, 1, 5, 5, 7, 8, 5}, {1, 3, 6, 1, 4, 1, 311, 20, 2, 3}, {1, 3, 6, 1, 5, 2, 2},
	// key purposes
	{1, 3, 6, 1, 5, 5, 7, 3, 5}, {1, 3, 6, 1, 5, 5, 7, 3, 6}, {1, 3, 6, 1, 5, 5, 7, 3, 7}, {1, 3, 6, 1, 5, 5, 7, 3, 17}, {1, 3, 6, 1, 4, 1, 311, 10, 3, 3}, {2, 16, 840, 1, 113730, 4, 1}, {1, 3, 6, 1, 4, 1, 311, 20, 2, 2},
	{1, 3, 6, 1, 4, 1, 11129, 2, 4, 4}, {1, 3, 6, 1, 5, 5, 7, 3, 36}, {1, 3, 6, 1, 5, 5, 7, 3, 31},
	// policies
	{2, 23, 140, 1, 1}, {2, 23, 140, 1, 2, 1}, {2, 23, 140, 1, 2, 2}, {2, 23, 140, 1, 2, 3}, {2, 23, 140, 1, 5, 1, 1}, {2, 23, 140, 1, 5, 2, 2}, {2, 23, 140, 1, 5, 3, 3}, {2, 23, 140, 1, 5, 4, 1},
	{0, 4, 0, 1862, 1, 1}, {0, 4, 0, 1862, 1, 2}, {0, 4, 0, 1862, 1, 3}, {0, 4, 0, 1862, 1, 4}, {0, 4, 0, 1862, 1, 5}, {0, 4, 0, 1862, 1, 6}, {0, 4, 0, 1862, 1, 6, 1}, {0, 4, 0, 1862, 1, 6, 2}, {0, 4, 0, 1862, 1, 6, 3},
	{0, 4, 0, 19495, 2}, {1, 3, 6, 1, 5, 5, 7, 11, 2}, {0, 4, 0, 194121, 1, 1}, {0, 4, 0, 194121, 1, 2}, {0, 4, 0, 2042, 1, 1},
}

// Donors are extension / RDN nodes lifted from the corpus for crossover.
type Donors struct {
	Exts []*dt.Node
	RDNs []*dt.Node
	GNs  []*dt.Node
}

var (
	donorOnce sync.Once
	donors    *Donors
)

func LoadDonors() *Donors {
	donorOnce.Do(func() {
		d := &Donors{}
		seenE, seenR, seenG := map[string]bool{}, map[string]bool{}, map[string]bool{}
		for _, o := range LoadCorpus().Certs {
			v, err := ViewCert(o.DER)
			if err != nil {
				continue
			}
			if e := v.Extensions(); e != nil {
				for _, x := range e.Children {
					k := string(x.Encode())
					if !seenE[k] && len(k) < 3000 {
						seenE[k] = true
						d.Exts = append(d.Exts, x)
					}
				}
			}
			for _, rdn := range v.Subject().Children {
				k := string(rdn.Encode())
				if !seenR[k] {
					seenR[k] = true
					d.RDNs = append(d.RDNs, rdn)
				}
			}
			if san := ExtInner(v.Ext(OIDExtSAN...)); san != nil {
				for _, g := range san.Children {
					k := string(g.Encode())
					if !seenG[k] {
						seenG[k] = true
						d.GNs = append(d.GNs, g)
					}
				}
			}
		}
		donors = d
	})
	return donors
}

// EditStats lets callers tally operator usage.
type EditStats func(op string)

// regions of a certificate tree, for weighting.
func regionNodes(root *dt.Node) (extLeaves, nameLeaves, otherLeaves, inner []*dt.Node) {
	v, err := ViewCertTree(root)
	if err != nil {
		for _, l := range root.Leaves() {
			otherLeaves = append(otherLeaves, l)
		}
		return nil, nil, otherLeaves, root.Inner()
	}
	in := map[*dt.Node]int{}
	mark := func(n *dt.Node, r int) {
		if n != nil {
			n.Walk(func(x, _ *dt.Node, _ int) { in[x] = r })
		}
	}
	mark(v.Extensions(), 1)
	mark(v.Issuer(), 2)
	mark(v.Subject(), 2)
	root.Walk(func(x, _ *dt.Node, _ int) {
		if x.IsLeaf() {
			switch in[x] {
			case 1:
				extLeaves = append(extLeaves, x)
			case 2:
				nameLeaves = append(nameLeaves, x)
			default:
				otherLeaves = append(otherLeaves, x)
			}
		} else {
			inner = append(inner, x)
		}
	})
	return
}

func pickNode(t *rapid.T, lists ...[]*dt.Node) *dt.Node {
	weights := []int{60, 25, 15}
	var avail []int
	total := 0
	for i, l := range lists {
		if len(l) > 0 {
			w := 10
			if i < len(weights) {
				w = weights[i]
			}
			avail = append(avail, i)
			total += w
		}
	}
	if total == 0 {
		return nil
	}
	r := rapid.IntRange(0, total-1).Draw(t, "region")
	for _, i := range avail {
		w := 10
		if i < len(weights) {
			w = weights[i]
		}
		if r < w {
			l := lists[i]
			return l[rapid.IntRange(0, len(l)-1).Draw(t, "node")]
		}
		r -= w
	}
	return nil
}

// otherTags are non-string universal tags a leaf can be re-tagged to (content
// kept): BOOLEAN, INTEGER, BIT STRING, OCTET STRING, NULL, OID, ENUMERATED,
// UTCTime, GeneralizedTime, GraphicString, GeneralString.
// (the last five: universal tag numbers that need more than one identifier octet - 1f 1f, 1f 20, 1f 7f, 1f 81 00, 1f 81 80 80 00)
var otherTags = []uint32{1, 2, 3, 4, 5, 6, 10, 23, 24, 25, 27, 31, 32, 127, 128, 1 << 21}

// typedValues replace the whole leaf (tag and content) by a well-formed value of
// another type - what a decoder hands to a lint as int64 / []byte / bool / nil.
var typedValues = []struct {
	tag     uint32
	content []byte
	cons    bool
}{
	{1, []byte{0xff}, false}, {2, []byte{0x05}, false}, {4, []byte("abc"), false}, {5, nil, false}, {3, []byte{0x00, 0x41}, false},
	{16, nil, true}, {17, nil, true}, {6, []byte{0x55, 0x04, 0x03}, false}, {10, []byte{0x01}, false}, {23, []byte("200101000000Z"), false},
}

var intValues = [][]byte{{0}, {1}, {2}, {0xff}, {0x80}, {0x7f}, {0x00, 0x80}, {0x00, 0x00, 0x01}, {0xff, 0xff}, {},
	{0x7f, 0xff, 0xff, 0xff, 0xff, 0xff, 0xff, 0xff}, {0x00, 0xff, 0xff, 0xff, 0xff, 0xff, 0xff, 0xff, 0xff}, bytes.Repeat([]byte{0x11}, 20),
	bytes.Repeat([]byte{0x11}, 21), append([]byte{0x00}, bytes.Repeat([]byte{0x91}, 20)...), append([]byte{0x00}, bytes.Repeat([]byte{0x91}, 21)...),
	bytes.Repeat([]byte{0x81}, 21), bytes.Repeat([]byte{0x22}, 33), bytes.Repeat([]byte{0x33}, 300), {0x0a}, {0x0b}, {0x06}, {0x07}, {0x08}, {0x09}, {0x03}, {0x04}, {0x05}}

var timeValues = []struct {
	tag uint32
	s   string
}{
	{23, "500101000000Z"}, {23, "491231235959Z"}, {23, "700101000000Z"}, {23, "000101000000Z"}, {23, "3001010000Z"}, {23, "300101000000+0100"}, {23, "300101000000-0500"},
	{24, "20500101000000Z"}, {24, "20491231235959Z"}, {24, "99991231235959Z"}, {24, "00010101000000Z"}, {24, "20300101000000.5Z"}, {24, "203001010000Z"}, {24, "20300101000000+0100"},
	{23, ""}, {23, "000000000000Z"}, {24, "19500101000000Z"}, {23, "200229000000Z"}, {23, "210229000000Z"}, {24, "20200101000000"},
}

var bitValues = [][]byte{{}, {0x00}, {0x07, 0x80}, {0x06, 0x40}, {0x05, 0x20}, {0x04, 0x10}, {0x03, 0x08}, {0x02, 0x04}, {0x01, 0x02}, {0x00, 0x01}, {0x07, 0x00, 0x80}, {0x00, 0x00},
	{0x00, 0xff}, {0x07, 0xff, 0x80}, {0x00, 0xff, 0xff}, {0x01, 0x06}, {0x05, 0xa0}, {0x00, 0x80, 0x00}, {0x08, 0x80}, {0x07, 0xff}, {0x00, 0x03}, {0x02, 0x84}, {0x01, 0xfe}}

const (
	lkOther = iota
	lkOID
	lkBool
	lkInt
	lkTime
	lkBits
	lkNull
)

func leafKind(n *dt.Node) int {
	if n.Class != 0 {
		return lkOther
	}
	switch n.Tag {
	case 6:
		return lkOID
	case 1:
		return lkBool
	case 2, 10:
		return lkInt
	case 23, 24:
		return lkTime
	case 3:
		return lkBits
	case 5:
		return lkNull
	}
	return lkOther
}

// numGeneric is the size of the generic (string-ish) part of the edit table.
var numGeneric = len(Dict) + 3*len(edgeBytes) + 9 + len(stringTags) + len(otherTags) + len(typedValues)

// NumLeafEdits is the largest per-leaf edit count (random editors draw below it; an
// index beyond a leaf's own count wraps around).
var NumLeafEdits = numGeneric

// LeafEditCount is the size of the deterministic single-edit space of this leaf:
// the table depends on what the leaf is (OID leaves get the OID dictionary,
// integers the integer list, ...), every kind also gets the typed replacements.
func LeafEditCount(n *dt.Node) int {
	switch leafKind(n) {
	case lkOID:
		return len(oidChoices(n.Content)) + 4 + len(typedValues)
	case lkBool:
		return 5 + len(typedValues)
	case lkInt:
		return len(intValues) + len(typedValues) + 2
	case lkTime:
		return len(timeValues) + len(typedValues)
	case lkBits:
		return len(bitValues) + len(typedValues) + 2
	case lkNull:
		return 2 + len(typedValues)
	}
	return numGeneric
}

func applyTyped(n *dt.Node, k int) string {
	tv := typedValues[k]
	n.Class, n.Tag, n.Constructed, n.Wrapped = 0, tv.tag, tv.cons, false
	if tv.cons {
		n.Content, n.Children = nil, []*dt.Node{}
	} else {
		n.Content, n.Children = append([]byte{}, tv.content...), nil
	}
	return "typed"
}

// ApplyLeafEdit applies deterministic edit number k (0 <= k < LeafEditCount(n);
// larger k wrap) to a leaf; used by the enumerated single-edit sweeps and by the
// random editor.
func ApplyLeafEdit(n *dt.Node, k int) string {
	cnt := LeafEditCount(n)
	if cnt <= 0 {
		return "none"
	}
	k %= cnt
	switch leafKind(n) {
	case lkOID:
		d := oidChoices(n.Content)
		if k < len(d) {
			n.Content = append([]byte{}, d[k]...)
			return "oid"
		}
		k -= len(d)
		switch k {
		case 0:
			n.Content = []byte{}
			return "oid-empty"
		case 1:
			n.Content = []byte{0x80}
			return "oid-bad"
		case 2:
			// capped: zcrypto's ObjectIdentifier.String() is quadratic in the number of
			// arcs (a 32 k-arc OID costs ~30 s per certificate) - finite, not a hang,
			// but it would eat the whole budget.
			n.Content = bytes.Repeat([]byte{0x2a}, 64)
			return "oid-long"
		case 3:
			if len(n.Content) > 1 {
				n.Content = append([]byte{}, n.Content[:len(n.Content)-1]...)
			}
			return "oid-truncate"
		}
		return applyTyped(n, k-4)
	case lkBool:
		if k < 5 {
			n.Content = [][]byte{{0x00}, {0xff}, {0x01}, {}, {0xff, 0xff}}[k]
			return "bool"
		}
		return applyTyped(n, k-5)
	case lkInt:
		if k < len(intValues) {
			n.Content = append([]byte{}, intValues[k]...)
			return "int"
		}
		k -= len(intValues)
		if k == 0 {
			n.Tag = 12 - n.Tag // INTEGER <-> ENUMERATED
			return "int-retag"
		}
		if k == 1 { // sign flip of the present value
			c := append([]byte{}, n.Content...)
			if len(c) > 0 {
				c[0] ^= 0x80
			}
			n.Content = c
			return "int-sign"
		}
		return applyTyped(n, k-2)
	case lkTime:
		if k < len(timeValues) {
			n.Tag, n.Content = timeValues[k].tag, []byte(timeValues[k].s)
			return "time"
		}
		return applyTyped(n, k-len(timeValues))
	case lkBits:
		if k < len(bitValues) {
			n.Content = append([]byte{}, bitValues[k]...)
			return "bits"
		}
		k -= len(bitValues)
		if k < 2 {
			c := append([]byte{}, n.Content...)
			if k == 0 && len(c) > 1 {
				c = c[:len(c)-1]
			} else {
				c = append(c, 0x00)
			}
			n.Content = c
			return "bits-len"
		}
		return applyTyped(n, k-2)
	case lkNull:
		if k < 2 {
			n.Content = [][]byte{{0x00}, {0x05, 0x00}}[k]
			return "null"
		}
		return applyTyped(n, k-2)
	}
	if k < len(Dict) {
		n.Content = append([]byte{}, Dict[k]...)
		return "dict"
	}
	k -= len(Dict)
	if k < 3*len(edgeBytes) {
		if len(n.Content) == 0 {
			n.Content = []byte{edgeBytes[k%len(edgeBytes)]}
			return "edge"
		}
		c := append([]byte{}, n.Content...)
		pos := []int{0, len(c) - 1, len(c) / 2}[k/len(edgeBytes)]
		c[pos] = edgeBytes[k%len(edgeBytes)]
		n.Content = c
		return "edge"
	}
	k -= 3 * len(edgeBytes)
	c := append([]byte{}, n.Content...)
	switch {
	case k == 0:
		n.Content = append(c, 0xC2)
		return "append"
	case k == 1:
		n.Content = append([]byte{0x20}, c...)
		return "prepend"
	case k == 2:
		if len(c) > 0 {
			n.Content = c[:len(c)-1]
		}
		return "truncate"
	case k == 3:
		if len(c) > 1 {
			n.Content = c[:len(c)/2]
		}
		return "truncate"
	case k == 4:
		n.Content = append(c, c...)
		return "double"
	case k == 5:
		n.Content = append(c, 0x00)
		return "append"
	case k == 6:
		n.Content = bytes.ToLower(c)
		return "lower-case"
	case k == 7:
		n.Content = bytes.ToUpper(c)
		return "upper-case"
	case k == 8:
		// padded with blanks on both sides
		n.Content = append(append([]byte{0x20}, c...), 0x20)
		return "blank-padded"
	}
	k -= 9
	if k < len(stringTags) {
		if n.Class == 0 {
			n.Tag = stringTags[k]
		}
		return "retag"
	}
	k -= len(stringTags)
	if k < len(otherTags) {
		n.Class, n.Tag = 0, otherTags[k]
		return "retag-other"
	}
	return applyTyped(n, k-len(otherTags))
}

// NumInnerEdits is the size of the deterministic structural edit table of an inner
// (constructed or wrapped) node.
const NumInnerEdits = 19

// ApplyInnerEdit applies structural edit k (0 <= k < NumInnerEdits) to an inner
// node: its encoded body cut to 1 or 2 octets or shortened by one (a truncated TLV
// inside an intact wrapper - the lengths outside stay consistent), a stray octet
// appended, emptied, first / last child deleted, first child duplicated, children
// reversed, SEQUENCE <-> SET, children wrapped in one more SEQUENCE, replaced by
// NULL, constructed bit dropped, first child hoisted in place of the node.
func ApplyInnerEdit(n *dt.Node, k int) string {
	raw := func(b []byte) {
		n.Children, n.Wrapped = nil, false
		n.Content = append([]byte{}, b...)
	}
	body := n.Body()
	switch k {
	case 0:
		if len(body) > 0 {
			raw(body[:1])
		} else {
			raw([]byte{0x0c})
		}
		return "body-1-octet"
	case 1:
		if len(body) > 2 {
			raw(body[:2])
		} else {
			raw([]byte{0x0c, 0x05})
		}
		return "body-2-octets"
	case 2:
		if len(body) > 0 {
			raw(body[:len(body)-1])
		}
		return "body-minus-1"
	case 3:
		raw(append(append([]byte{}, body...), 0x00))
		return "body-plus-octet"
	case 4:
		n.Children, n.Content = []*dt.Node{}, nil
		return "emptied"
	case 5:
		if len(n.Children) > 0 {
			n.Children = append([]*dt.Node{}, n.Children[1:]...)
		}
		return "drop-first-child"
	case 6:
		if len(n.Children) > 0 {
			n.Children = append([]*dt.Node{}, n.Children[:len(n.Children)-1]...)
		}
		return "drop-last-child"
	case 7:
		if len(n.Children) > 0 {
			n.Children = append([]*dt.Node{n.Children[0].Clone()}, n.Children...)
		}
		return "dup-first-child"
	case 8:
		ch := append([]*dt.Node{}, n.Children...)
		for i, j := 0, len(ch)-1; i < j; i, j = i+1, j-1 {
			ch[i], ch[j] = ch[j], ch[i]
		}
		n.Children = ch
		return "reverse-children"
	case 9:
		if n.Class == 0 && (n.Tag == 16 || n.Tag == 17) && !n.Wrapped {
			n.Tag = 33 - n.Tag
		}
		return "seq-set"
	case 10:
		if !n.Wrapped {
			n.Children = []*dt.Node{dt.Seq(n.Children...)}
		} else {
			n.Children = []*dt.Node{dt.Seq(n.Children...)}
		}
		return "nest-in-sequence"
	case 11:
		n.Class, n.Tag, n.Constructed, n.Wrapped, n.Children, n.Content = 0, 5, false, false, nil, []byte{}
		return "to-null"
	case 12:
		if n.Constructed {
			raw(body)
			n.Constructed = false
		}
		return "primitive-bit"
	case 13:
		if len(n.Children) > 0 && !n.Wrapped {
			c := n.Children[0]
			*n = *c.Clone()
		}
		return "hoist-first-child"
	default:
		// a trailing element nobody expects: a private-class element with a high tag number, a context [1]
		// element, a NULL, an element whose length overruns the enclosing value, a long-form length of zero
		junk := [][]byte{{0xdf, 0x21, 0x01, 0x00}, {0x81, 0x00}, {0x05, 0x00}, {0x04, 0x05, 0x00}, {0x04, 0x81, 0x00}}[k-14]
		raw(append(append([]byte{}, body...), junk...))
		return fmt.Sprintf("trailing-junk-%x", junk)
	}
}

// RandomEdit performs one rapid-drawn edit on the tree (in place) and returns
// the operator name.
func RandomEdit(t *rapid.T, root *dt.Node) string {
	extL, nameL, otherL, inner := regionNodes(root)
	op := rapid.IntRange(0, 99).Draw(t, "op")
	switch {
	case op < 45: // leaf edit from the deterministic table
		n := pickNode(t, extL, nameL, otherL)
		if n == nil {
			return "none"
		}
		return "leaf-" + ApplyLeafEdit(n, rapid.IntRange(0, LeafEditCount(n)-1).Draw(t, "k"))
	case op < 52: // random bytes
		n := pickNode(t, extL, nameL, otherL)
		if n == nil {
			return "none"
		}
		n.Content = rapid.SliceOfN(rapid.Byte(), 0, 40).Draw(t, "bytes")
		return "leaf-random"
	case op < 58: // OID replace
		var oids []*dt.Node
		for _, l := range append(append(append([]*dt.Node{}, extL...), nameL...), otherL...) {
			if l.Class == 0 && l.Tag == 6 {
				oids = append(oids, l)
			}
		}
		if len(oids) == 0 {
			return "none"
		}
		n := oids[rapid.IntRange(0, len(oids)-1).Draw(t, "oidnode")]
		d := OIDDict()
		n.Content = append([]byte{}, d[rapid.IntRange(0, len(d)-1).Draw(t, "oid")]...)
		return "oid"
	case op < 78: // structural
		if len(inner) == 0 {
			return "none"
		}
		// prefer nodes inside extensions
		var cand []*dt.Node
		if v, err := ViewCertTree(root); err == nil && v.Extensions() != nil && rapid.IntRange(0, 9).Draw(t, "inext") < 7 {
			cand = v.Extensions().Inner()
		}
		if len(cand) == 0 {
			cand = inner
		}
		n := cand[rapid.IntRange(0, len(cand)-1).Draw(t, "inner")]
		k := len(n.Children)
		switch rapid.IntRange(0, 5).Draw(t, "sop") {
		case 0:
			if k > 0 {
				i := rapid.IntRange(0, k-1).Draw(t, "i")
				n.Children = append(append([]*dt.Node{}, n.Children[:i]...), n.Children[i+1:]...)
			}
			return "delete-child"
		case 1:
			if k > 0 {
				i := rapid.IntRange(0, k-1).Draw(t, "i")
				ch := append([]*dt.Node{}, n.Children[:i+1]...)
				ch = append(ch, n.Children[i].Clone())
				n.Children = append(ch, n.Children[i+1:]...)
			}
			return "dup-child"
		case 2:
			if k > 1 {
				i := rapid.IntRange(0, k-1).Draw(t, "i")
				j := rapid.IntRange(0, k-1).Draw(t, "j")
				n.Children[i], n.Children[j] = n.Children[j], n.Children[i]
			}
			return "swap-children"
		case 3:
			for i, j := 0, k-1; i < j; i, j = i+1, j-1 {
				n.Children[i], n.Children[j] = n.Children[j], n.Children[i]
			}
			return "reverse-children"
		case 4:
			n.Children = []*dt.Node{}
			return "empty"
		default:
			if n.Class == 0 && (n.Tag == 16 || n.Tag == 17) && !n.Wrapped {
				n.Tag = 33 - n.Tag // SEQUENCE <-> SET
			}
			return "seq-set"
		}
	case op < 90: // crossover
		v, err := ViewCertTree(root)
		if err != nil {
			return "none"
		}
		d := LoadDonors()
		switch rapid.IntRange(0, 3).Draw(t, "xop") {
		case 0, 1:
			if len(d.Exts) == 0 {
				return "none"
			}
			x := d.Exts[rapid.IntRange(0, len(d.Exts)-1).Draw(t, "donor")].Clone()
			seq := v.EnsureExtensions()
			replaced := false
			if rapid.Bool().Draw(t, "replace") {
				for i, e := range seq.Children {
					if len(e.Children) > 0 && len(x.Children) > 0 && bytes.Equal(e.Children[0].Content, x.Children[0].Content) {
						seq.Children[i] = x
						replaced = true
						break
					}
				}
			}
			if !replaced {
				seq.Children = append(seq.Children, x)
			}
			return "graft-ext"
		case 2:
			if len(d.RDNs) == 0 {
				return "none"
			}
			r := d.RDNs[rapid.IntRange(0, len(d.RDNs)-1).Draw(t, "donor")].Clone()
			tgt := v.Subject()
			if rapid.IntRange(0, 3).Draw(t, "iss") == 0 {
				tgt = v.Issuer()
			}
			tgt.Children = append(tgt.Children, r)
			return "graft-rdn"
		default:
			if len(d.GNs) == 0 {
				return "none"
			}
			g := d.GNs[rapid.IntRange(0, len(d.GNs)-1).Draw(t, "donor")].Clone()
			if san := ExtInner(v.Ext(OIDExtSAN...)); san != nil {
				san.Children = append(san.Children, g)
			} else {
				v.SetSAN(false, g)
			}
			return "graft-gn"
		}
	case op < 95: // integers / booleans
		var cand []*dt.Node
		for _, l := range append(append([]*dt.Node{}, extL...), otherL...) {
			if l.Class == 0 && (l.Tag == 2 || l.Tag == 1 || l.Tag == 10) {
				cand = append(cand, l)
			}
		}
		if len(cand) == 0 {
			return "none"
		}
		n := cand[rapid.IntRange(0, len(cand)-1).Draw(t, "n")]
		if n.Tag == 1 {
			if len(n.Content) == 1 && n.Content[0] != 0 {
				n.Content = []byte{0}
			} else {
				n.Content = []byte{0xff}
			}
			return "bool-flip"
		}
		n.Content = [][]byte{{0}, {0xff}, {0x7f, 0xff, 0xff, 0xff, 0xff, 0xff, 0xff, 0xff, 0xff}, {1}, {2}, {0x80}, bytes.Repeat([]byte{0x11}, 21)}[rapid.IntRange(0, 6).Draw(t, "iv")]
		return "int"
	default: // time
		var cand []*dt.Node
		for _, l := range append(append([]*dt.Node{}, extL...), otherL...) {
			if isTime(l) {
				cand = append(cand, l)
			}
		}
		if len(cand) == 0 {
			return "none"
		}
		n := cand[rapid.IntRange(0, len(cand)-1).Draw(t, "n")]
		ts := time.Unix(rapid.Int64Range(-631152000, 2840140800).Draw(t, "unix"), 0)
		nn := EncodeTime(ts, TimeForm(rapid.IntRange(0, 3).Draw(t, "form")))
		n.Tag, n.Content = nn.Tag, nn.Content
		return "time"
	}
}
