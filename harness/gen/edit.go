package gen

import (
	"bytes"
	"go/ast"
	"go/parser"
	"go/token"
	"path/filepath"
	"strconv"
	"strings"
	"sync"
	"time"

	"pgregory.net/rapid"

	dt "verifharness/dertree"
)

// Dictionary of hostile leaf contents.
var Dict = func() [][]byte {
	d := [][]byte{
		{}, {0xC2}, {0xE0}, {0xF0}, {0x80}, {0x00}, {0x7F}, {0x85}, {0x9F}, {0xC2, 0x80}, {0xC2, 0x9F}, {0xE2, 0x80, 0xA8},
		[]byte("*"), []byte("*."), []byte("."), []byte(".."), []byte("*.com"), []byte("*.co.uk"), []byte("a.*.com"), []byte("*.*.example.com"),
		[]byte(strings.Repeat("a", 64)), []byte(strings.Repeat("a", 63) + ".com"), []byte(strings.Repeat("a.", 127) + "com"),
		[]byte("xn--"), []byte("xn--a.com"), []byte("xn--zz--.com"), []byte("_"), []byte("_a.example.com"), []byte("a_b.com"), []byte("-a.com"), []byte("a-.com"), []byte("ab--c.com"),
		[]byte("@"), []byte("a@"), []byte("@b"), []byte("a@b.com"), []byte("<a@b.com>"), []byte("a@b.com (c)"), []byte("A <a@b.com>"),
		[]byte("http://"), []byte("http://["), []byte("http://[::1]:443/"), []byte("http://[2001:db8::1]/x"), []byte("urn:x"), []byte("urn:x:y"), []byte(":"), []byte("%zz"), []byte("http://a b/"),
		[]byte("mailto:a@b.com"), []byte("ldap://example.com/cn=x"), []byte("https://example.com/"), []byte("http://localhost/"), []byte("http://10.0.0.1/"), []byte("http://example/"), []byte("//example.com"),
		[]byte("127.0.0.1"), []byte("10.0.0.1"), []byte("192.168.1.1"), []byte("8.8.8.8"), []byte("1.2.3.4.in-addr.arpa"), []byte("1.0.0.127.in-addr.arpa"), []byte("b.a.9.8.ip6.arpa"),
		[]byte("&amp;"), []byte("&#x41;"), []byte("&lt;"), {0x00, 0x41, 0x00}, {0xD8, 0x00}, {0xD8, 0x00, 0x00, 0x41}, {0x00, 0x41}, {0x00, 0x00, 0x00, 0x41},
		[]byte("US"), []byte("us"), []byte("XX"), []byte("ZZ"), []byte("USA"), []byte("U"), []byte("DE"), []byte("example.com"), []byte("EXAMPLE.COM"), []byte("example.com."), []byte(".example.com"),
		[]byte("localhost"), []byte("example"), []byte("example.onion"), []byte("aaaaaaaaaaaaaaaa.onion"), []byte("a.b.invalidtld"), []byte("test.local"), []byte("www.example.test"),
		[]byte(" a"), []byte("a "), []byte(" "), []byte("a  b"), []byte("\t"), []byte("a\nb"), []byte("a\x00b"), []byte("-"), []byte("N/A"), []byte("n/a"), []byte("."), []byte("*"), []byte("?"),
		{0xff}, {0xff, 0xff, 0xff, 0xff}, {0x01}, {0x00, 0x00}, {0x80, 0x00}, {0x7f, 0xff, 0xff, 0xff, 0xff}, {0x05, 0x00}, {0x30, 0x00}, {0x30, 0x03, 0x02, 0x01, 0x00}, {0x0c, 0x00},
		{10, 0, 0, 1}, {127, 0, 0, 1}, {8, 8, 8, 8}, {0, 0, 0, 0}, {255, 255, 255, 255}, bytes.Repeat([]byte{0}, 16), append(bytes.Repeat([]byte{0}, 15), 1), {10, 0, 0, 0, 255, 0, 0, 0}, {1, 2, 3},
		[]byte("VATDE-123456789"), []byte("NTRUS-12345"), []byte("PSDDE-BAFIN-123"), []byte("VATDE"), []byte("LEIXG-5299001234567890ABCD"), []byte("GOVUS+CA-1"),
		bytes.Repeat([]byte("a"), 65), bytes.Repeat([]byte("a"), 129), bytes.Repeat([]byte("b"), 300), bytes.Repeat([]byte{0xC3, 0xA9}, 40), bytes.Repeat([]byte("x"), 32769),
	}
	return d
}()

var edgeBytes = []byte{0x00, 0x01, 0x1f, 0x20, 0x2a, 0x2d, 0x2e, 0x40, 0x5f, 0x7f, 0x80, 0x85, 0xa0, 0xc2, 0xe0, 0xf0, 0xff}

// string-ish universal tags: UTF8, Numeric, Printable, T61, IA5, Visible, Universal, BMP
var stringTags = []uint32{12, 18, 19, 20, 22, 26, 28, 30}

var (
	oidOnce sync.Once
	oidDict [][]byte
)

// OIDDict returns the content bytes of every OID literal in util/oid.go (and
// a few scope OIDs), harvested with go/parser at run time.
func OIDDict() [][]byte {
	oidOnce.Do(func() {
		add := func(arcs []int) {
			if len(arcs) >= 2 {
				oidDict = append(oidDict, dt.OID(arcs...).Content)
			}
		}
		fset := token.NewFileSet()
		for _, fn := range []string{"oid.go", "qc_stmt.go", "ev.go"} {
			af, err := parser.ParseFile(fset, filepath.Join(RepoV3(), "util", fn), nil, 0)
			if err != nil {
				continue
			}
			ast.Inspect(af, func(n ast.Node) bool {
				cl, ok := n.(*ast.CompositeLit)
				if !ok {
					return true
				}
				var arcs []int
				for _, e := range cl.Elts {
					bl, ok := e.(*ast.BasicLit)
					if !ok || bl.Kind != token.INT {
						return true
					}
					v, err := strconv.Atoi(bl.Value)
					if err != nil {
						return true
					}
					arcs = append(arcs, v)
				}
				if len(arcs) >= 3 {
					add(arcs)
				}
				return true
			})
		}
		for _, o := range [][]int{EKUAny, EKUServerAuth, EKUClientAuth, EKUCodeSign, EKUEmail, EKUOCSP, EKUTimeStamp, EKUUnknown,
			{2, 23, 140, 1, 3}, {2, 23, 140, 1, 4, 1}, {2, 5, 29, 32, 0}, {1, 2, 3, 4}} {
			add(o)
		}
	})
	return oidDict
}

// Donors are extension / RDN nodes lifted from the corpus for crossover.
type Donors struct {
	Exts []*dt.Node
	RDNs []*dt.Node
	GNs  []*dt.Node
}

var (
	donorOnce sync.Once
	donors    *Donors
)

func LoadDonors() *Donors {
	donorOnce.Do(func() {
		d := &Donors{}
		seenE, seenR, seenG := map[string]bool{}, map[string]bool{}, map[string]bool{}
		for _, o := range LoadCorpus().Certs {
			v, err := ViewCert(o.DER)
			if err != nil {
				continue
			}
			if e := v.Extensions(); e != nil {
				for _, x := range e.Children {
					k := string(x.Encode())
					if !seenE[k] && len(k) < 3000 {
						seenE[k] = true
						d.Exts = append(d.Exts, x)
					}
				}
			}
			for _, rdn := range v.Subject().Children {
				k := string(rdn.Encode())
				if !seenR[k] {
					seenR[k] = true
					d.RDNs = append(d.RDNs, rdn)
				}
			}
			if san := ExtInner(v.Ext(OIDExtSAN...)); san != nil {
				for _, g := range san.Children {
					k := string(g.Encode())
					if !seenG[k] {
						seenG[k] = true
						d.GNs = append(d.GNs, g)
					}
				}
			}
		}
		donors = d
	})
	return donors
}

// EditStats lets callers tally operator usage.
type EditStats func(op string)

// regions of a certificate tree, for weighting.
func regionNodes(root *dt.Node) (extLeaves, nameLeaves, otherLeaves, inner []*dt.Node) {
	v, err := ViewCertTree(root)
	if err != nil {
		for _, l := range root.Leaves() {
			otherLeaves = append(otherLeaves, l)
		}
		return nil, nil, otherLeaves, root.Inner()
	}
	in := map[*dt.Node]int{}
	mark := func(n *dt.Node, r int) {
		if n != nil {
			n.Walk(func(x, _ *dt.Node, _ int) { in[x] = r })
		}
	}
	mark(v.Extensions(), 1)
	mark(v.Issuer(), 2)
	mark(v.Subject(), 2)
	root.Walk(func(x, _ *dt.Node, _ int) {
		if x.IsLeaf() {
			switch in[x] {
			case 1:
				extLeaves = append(extLeaves, x)
			case 2:
				nameLeaves = append(nameLeaves, x)
			default:
				otherLeaves = append(otherLeaves, x)
			}
		} else {
			inner = append(inner, x)
		}
	})
	return
}

func pickNode(t *rapid.T, lists ...[]*dt.Node) *dt.Node {
	weights := []int{60, 25, 15}
	var avail []int
	total := 0
	for i, l := range lists {
		if len(l) > 0 {
			w := 10
			if i < len(weights) {
				w = weights[i]
			}
			avail = append(avail, i)
			total += w
		}
	}
	if total == 0 {
		return nil
	}
	r := rapid.IntRange(0, total-1).Draw(t, "region")
	for _, i := range avail {
		w := 10
		if i < len(weights) {
			w = weights[i]
		}
		if r < w {
			l := lists[i]
			return l[rapid.IntRange(0, len(l)-1).Draw(t, "node")]
		}
		r -= w
	}
	return nil
}

// NumLeafEdits is the size of the deterministic single-edit space per leaf.
var NumLeafEdits = len(Dict) + 3*len(edgeBytes) + 6 + len(stringTags)

// ApplyLeafEdit applies deterministic edit number k (0 <= k < NumLeafEdits) to
// a leaf; used by the enumerated single-edit sweep and by the random editor.
func ApplyLeafEdit(n *dt.Node, k int) string {
	if k < len(Dict) {
		n.Content = append([]byte{}, Dict[k]...)
		// OBJECT IDENTIFIER leaves are capped: zcrypto's ObjectIdentifier.String()
		// is quadratic in the number of arcs (a 32 k-arc OID costs ~30 s per
		// certificate through every IsEV / IsCodeSigning call) - finite, so not a
		// hang, but it would eat the whole budget.
		if n.Class == 0 && n.Tag == 6 && len(n.Content) > 64 {
			n.Content = n.Content[:64]
		}
		return "dict"
	}
	k -= len(Dict)
	if k < 3*len(edgeBytes) {
		if len(n.Content) == 0 {
			n.Content = []byte{edgeBytes[k%len(edgeBytes)]}
			return "edge"
		}
		c := append([]byte{}, n.Content...)
		pos := []int{0, len(c) - 1, len(c) / 2}[k/len(edgeBytes)]
		c[pos] = edgeBytes[k%len(edgeBytes)]
		n.Content = c
		return "edge"
	}
	k -= 3 * len(edgeBytes)
	c := append([]byte{}, n.Content...)
	switch {
	case k == 0:
		n.Content = append(c, 0xC2)
		return "append"
	case k == 1:
		n.Content = append([]byte{0x20}, c...)
		return "prepend"
	case k == 2:
		if len(c) > 0 {
			n.Content = c[:len(c)-1]
		}
		return "truncate"
	case k == 3:
		if len(c) > 1 {
			n.Content = c[:len(c)/2]
		}
		return "truncate"
	case k == 4:
		n.Content = append(c, c...)
		return "double"
	case k == 5:
		n.Content = append(c, 0x00)
		return "append"
	}
	k -= 6
	if n.Class == 0 {
		n.Tag = stringTags[k%len(stringTags)]
	}
	return "retag"
}

// RandomEdit performs one rapid-drawn edit on the tree (in place) and returns
// the operator name.
func RandomEdit(t *rapid.T, root *dt.Node) string {
	extL, nameL, otherL, inner := regionNodes(root)
	op := rapid.IntRange(0, 99).Draw(t, "op")
	switch {
	case op < 45: // leaf edit from the deterministic table
		n := pickNode(t, extL, nameL, otherL)
		if n == nil {
			return "none"
		}
		return "leaf-" + ApplyLeafEdit(n, rapid.IntRange(0, NumLeafEdits-1).Draw(t, "k"))
	case op < 52: // random bytes
		n := pickNode(t, extL, nameL, otherL)
		if n == nil {
			return "none"
		}
		n.Content = rapid.SliceOfN(rapid.Byte(), 0, 40).Draw(t, "bytes")
		return "leaf-random"
	case op < 58: // OID replace
		var oids []*dt.Node
		for _, l := range append(append(append([]*dt.Node{}, extL...), nameL...), otherL...) {
			if l.Class == 0 && l.Tag == 6 {
				oids = append(oids, l)
			}
		}
		if len(oids) == 0 {
			return "none"
		}
		n := oids[rapid.IntRange(0, len(oids)-1).Draw(t, "oidnode")]
		d := OIDDict()
		n.Content = append([]byte{}, d[rapid.IntRange(0, len(d)-1).Draw(t, "oid")]...)
		return "oid"
	case op < 78: // structural
		if len(inner) == 0 {
			return "none"
		}
		// prefer nodes inside extensions
		var cand []*dt.Node
		if v, err := ViewCertTree(root); err == nil && v.Extensions() != nil && rapid.IntRange(0, 9).Draw(t, "inext") < 7 {
			cand = v.Extensions().Inner()
		}
		if len(cand) == 0 {
			cand = inner
		}
		n := cand[rapid.IntRange(0, len(cand)-1).Draw(t, "inner")]
		k := len(n.Children)
		switch rapid.IntRange(0, 5).Draw(t, "sop") {
		case 0:
			if k > 0 {
				i := rapid.IntRange(0, k-1).Draw(t, "i")
				n.Children = append(append([]*dt.Node{}, n.Children[:i]...), n.Children[i+1:]...)
			}
			return "delete-child"
		case 1:
			if k > 0 {
				i := rapid.IntRange(0, k-1).Draw(t, "i")
				ch := append([]*dt.Node{}, n.Children[:i+1]...)
				ch = append(ch, n.Children[i].Clone())
				n.Children = append(ch, n.Children[i+1:]...)
			}
			return "dup-child"
		case 2:
			if k > 1 {
				i := rapid.IntRange(0, k-1).Draw(t, "i")
				j := rapid.IntRange(0, k-1).Draw(t, "j")
				n.Children[i], n.Children[j] = n.Children[j], n.Children[i]
			}
			return "swap-children"
		case 3:
			for i, j := 0, k-1; i < j; i, j = i+1, j-1 {
				n.Children[i], n.Children[j] = n.Children[j], n.Children[i]
			}
			return "reverse-children"
		case 4:
			n.Children = []*dt.Node{}
			return "empty"
		default:
			if n.Class == 0 && (n.Tag == 16 || n.Tag == 17) && !n.Wrapped {
				n.Tag = 33 - n.Tag // SEQUENCE <-> SET
			}
			return "seq-set"
		}
	case op < 90: // crossover
		v, err := ViewCertTree(root)
		if err != nil {
			return "none"
		}
		d := LoadDonors()
		switch rapid.IntRange(0, 3).Draw(t, "xop") {
		case 0, 1:
			if len(d.Exts) == 0 {
				return "none"
			}
			x := d.Exts[rapid.IntRange(0, len(d.Exts)-1).Draw(t, "donor")].Clone()
			seq := v.EnsureExtensions()
			replaced := false
			if rapid.Bool().Draw(t, "replace") {
				for i, e := range seq.Children {
					if len(e.Children) > 0 && len(x.Children) > 0 && bytes.Equal(e.Children[0].Content, x.Children[0].Content) {
						seq.Children[i] = x
						replaced = true
						break
					}
				}
			}
			if !replaced {
				seq.Children = append(seq.Children, x)
			}
			return "graft-ext"
		case 2:
			if len(d.RDNs) == 0 {
				return "none"
			}
			r := d.RDNs[rapid.IntRange(0, len(d.RDNs)-1).Draw(t, "donor")].Clone()
			tgt := v.Subject()
			if rapid.IntRange(0, 3).Draw(t, "iss") == 0 {
				tgt = v.Issuer()
			}
			tgt.Children = append(tgt.Children, r)
			return "graft-rdn"
		default:
			if len(d.GNs) == 0 {
				return "none"
			}
			g := d.GNs[rapid.IntRange(0, len(d.GNs)-1).Draw(t, "donor")].Clone()
			if san := ExtInner(v.Ext(OIDExtSAN...)); san != nil {
				san.Children = append(san.Children, g)
			} else {
				v.SetSAN(false, g)
			}
			return "graft-gn"
		}
	case op < 95: // integers / booleans
		var cand []*dt.Node
		for _, l := range append(append([]*dt.Node{}, extL...), otherL...) {
			if l.Class == 0 && (l.Tag == 2 || l.Tag == 1 || l.Tag == 10) {
				cand = append(cand, l)
			}
		}
		if len(cand) == 0 {
			return "none"
		}
		n := cand[rapid.IntRange(0, len(cand)-1).Draw(t, "n")]
		if n.Tag == 1 {
			if len(n.Content) == 1 && n.Content[0] != 0 {
				n.Content = []byte{0}
			} else {
				n.Content = []byte{0xff}
			}
			return "bool-flip"
		}
		n.Content = [][]byte{{0}, {0xff}, {0x7f, 0xff, 0xff, 0xff, 0xff, 0xff, 0xff, 0xff, 0xff}, {1}, {2}, {0x80}, bytes.Repeat([]byte{0x11}, 21)}[rapid.IntRange(0, 6).Draw(t, "iv")]
		return "int"
	default: // time
		var cand []*dt.Node
		for _, l := range append(append([]*dt.Node{}, extL...), otherL...) {
			if isTime(l) {
				cand = append(cand, l)
			}
		}
		if len(cand) == 0 {
			return "none"
		}
		n := cand[rapid.IntRange(0, len(cand)-1).Draw(t, "n")]
		ts := time.Unix(rapid.Int64Range(-631152000, 2840140800).Draw(t, "unix"), 0)
		nn := EncodeTime(ts, TimeForm(rapid.IntRange(0, 3).Draw(t, "form")))
		n.Tag, n.Content = nn.Tag, nn.Content
		return "time"
	}
}
