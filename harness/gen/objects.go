package gen

import (
	"sort"
	"sync"
	"time"

	_ "github.com/zmap/zlint/v3" // registers every lint
	"github.com/zmap/zlint/v3/lint"
	"pgregory.net/rapid"

	dt "verifharness/dertree"
)

var (
	datesOnce sync.Once
	regDates  []time.Time
)

// RegistryDates returns every distinct effective / ineffective date of the
// global registry that a certificate can be dated at (zlint's "ZeroDate" is
// year 0, which no encoder reaches), sorted.
func RegistryDates() []time.Time {
	datesOnce.Do(func() {
		seen := map[int64]time.Time{}
		add := func(m lint.LintMetadata) {
			for _, d := range []time.Time{m.EffectiveDate, m.IneffectiveDate} {
				if !d.IsZero() && d.Year() >= 1950 {
					seen[d.Unix()] = d
				}
			}
		}
		g := lint.GlobalRegistry()
		for _, l := range g.CertificateLints().Lints() {
			add(l.LintMetadata)
		}
		for _, l := range g.RevocationListLints().Lints() {
			add(l.LintMetadata)
		}
		for _, l := range g.OcspResponseLints().Lints() {
			add(l.LintMetadata)
		}
		for _, d := range seen {
			regDates = append(regDates, d)
		}
		sort.Slice(regDates, func(i, j int) bool { return regDates[i].Before(regDates[j]) })
	})
	return regDates
}

// DrawInstant draws a date for the openers: a registry boundary +/- {0,1s,1d},
// a fixed early/late date, or a uniform instant 1950..2049.
func DrawInstant(t *rapid.T) time.Time {
	ds := RegistryDates()
	switch rapid.IntRange(0, 11).Draw(t, "datekind") {
	case 10, 11:
		// calendar edges (after every effective date of today's registry): leap day and its neighbours, month and
		// year ends, at the first and last second of the day and at noon - where month / year arithmetic rolls over
		y := rapid.SampledFrom([]int{2024, 2025, 2027, 2028}).Draw(t, "edgeyear")
		md := rapid.SampledFrom([][2]int{{2, 28}, {2, 29}, {3, 1}, {12, 29}, {12, 30}, {12, 31}, {1, 1}, {1, 31}, {3, 31}, {4, 30}, {8, 31}, {10, 31}, {11, 30}}).Draw(t, "edgeday")
		hms := rapid.SampledFrom([][3]int{{0, 0, 0}, {23, 59, 59}, {12, 0, 0}}).Draw(t, "edgetime")
		return time.Date(y, time.Month(md[0]), md[1], hms[0], hms[1], hms[2], 0, time.UTC)
	case 0:
		return time.Date(1990, 1, 1, 0, 0, 0, 0, time.UTC)
	case 1:
		return time.Date(2030, 6, 1, 12, 0, 0, 0, time.UTC)
	case 2:
		return time.Unix(rapid.Int64Range(-631152000, 2524607999).Draw(t, "unix"), 0).UTC()
	default:
		d := ds[rapid.IntRange(0, len(ds)-1).Draw(t, "regdate")]
		off := []time.Duration{0, -time.Second, time.Second, -24 * time.Hour, 24 * time.Hour}[rapid.IntRange(0, 4).Draw(t, "off")]
		return d.Add(off)
	}
}

// ScopePolicyOIDs are the policy OIDs the three CABF scope predicates look at.
var ScopePolicyOIDs = func() [][]int {
	o := [][]int{{2, 23, 140, 1, 1}, {2, 23, 140, 1, 2, 1}, {2, 23, 140, 1, 2, 2}, {2, 23, 140, 1, 2, 3}, {2, 23, 140, 1, 3}, {2, 23, 140, 1, 4, 1}}
	for a := 1; a <= 4; a++ {
		for b := 1; b <= 3; b++ {
			o = append(o, []int{2, 23, 140, 1, 5, a, b})
		}
	}
	return o
}()

// ArithRelatives: identifiers that differ from o but coincide with it under the usual ways of packing arcs into
// machine words - a carry between neighbouring arcs (a, b) -> (a-k, b+256k), (0, 256a+b), and single arcs moved by
// 2^8, 2^16, 2^24. (Arcs of 2^31 and more are rejected by the parser.)
func ArithRelatives(o []int) [][]int {
	var out [][]int
	cp := func() []int { return append([]int{}, o...) }
	for i := 2; i < len(o); i++ {
		for _, d := range []int{1 << 8, 1 << 16, 1 << 24} {
			v := cp()
			v[i] += d
			out = append(out, v)
		}
		if i+1 < len(o) {
			for k := 1; k <= 2 && k <= o[i]; k++ {
				v := cp()
				v[i], v[i+1] = o[i]-k, o[i+1]+256*k
				out = append(out, v)
			}
			if o[i] > 2 {
				v := cp()
				v[i], v[i+1] = 0, o[i]*256+o[i+1]
				out = append(out, v)
			}
		}
	}
	return out
}

var OtherPolicyOIDs = [][]int{{2, 5, 29, 32, 0}, {1, 3, 6, 1, 4, 1, 99999, 2}, {2, 23, 140, 1, 5, 5, 1}, {2, 23, 140, 1, 2}, {2, 23, 140, 1, 4, 2}}

var AllEKUs = [][]int{EKUAny, EKUServerAuth, EKUClientAuth, EKUEmail, EKUCodeSign, EKUOCSP, EKUTimeStamp, EKUUnknown}

// DrawScope rewrites EKU / policies / e-mail SAN according to drawn choices.
func DrawScope(t *rapid.T, v *CertView) string {
	desc := ""
	switch rapid.IntRange(0, 3).Draw(t, "ekumode") {
	case 0: // leave
	case 1:
		v.SetEKU()
		desc += "eku=none "
	default:
		n := rapid.IntRange(1, 3).Draw(t, "neku")
		var o [][]int
		for i := 0; i < n; i++ {
			o = append(o, AllEKUs[rapid.IntRange(0, len(AllEKUs)-1).Draw(t, "eku")])
		}
		v.SetEKU(o...)
		desc += "eku=set "
	}
	switch rapid.IntRange(0, 3).Draw(t, "polmode") {
	case 0:
	case 1:
		v.SetPolicies()
		desc += "pol=none "
	default:
		n := rapid.IntRange(1, 2).Draw(t, "npol")
		var o [][]int
		for i := 0; i < n; i++ {
			if rapid.IntRange(0, 4).Draw(t, "polother") == 0 {
				o = append(o, OtherPolicyOIDs[rapid.IntRange(0, len(OtherPolicyOIDs)-1).Draw(t, "pol")])
			} else {
				o = append(o, ScopePolicyOIDs[rapid.IntRange(0, len(ScopePolicyOIDs)-1).Draw(t, "pol")])
			}
		}
		v.SetPolicies(o...)
		desc += "pol=set "
	}
	if rapid.IntRange(0, 5).Draw(t, "mailsan") == 0 {
		g := GNEmail([]byte("user@example.com"))
		if san := ExtInner(v.Ext(OIDExtSAN...)); san != nil {
			san.Children = append(san.Children, g)
		} else {
			v.SetSAN(false, g)
		}
		desc += "mailsan "
	}
	return desc
}

// CertCase is a generated certificate with a description of how it was made.
type CertCase struct {
	DER    []byte
	Base   string
	Ops    []string
	Edited bool
}

// DrawCert generates a certificate: corpus base, 0..maxEdits random edits,
// optional openers (re-date, re-scope), re-signed when the base is
// self-signed. The result may be unparseable; callers test and count that.
func DrawCert(t *rapid.T, maxEdits int, openers bool) CertCase {
	co := LoadCorpus()
	bi := rapid.IntRange(0, len(co.Certs)-1).Draw(t, "base")
	base := co.Certs[bi]
	cc := CertCase{Base: base.Name}
	nEd := 0
	if maxEdits > 0 {
		nEd = rapid.IntRange(0, maxEdits).Draw(t, "nedits")
	}
	doOpen := openers && rapid.IntRange(0, 2).Draw(t, "open") > 0
	if nEd == 0 && !doOpen {
		cc.DER = base.DER
		return cc
	}
	v, err := ViewCert(base.DER)
	if err != nil {
		cc.DER = base.DER
		return cc
	}
	pc, _ := ParseCert(base.DER)
	for i := 0; i < nEd; i++ {
		cc.Ops = append(cc.Ops, RandomEdit(t, v.Root))
	}
	if doOpen {
		if v2, err := ViewCertTree(v.Root); err == nil {
			if rapid.Bool().Draw(t, "redate") && pc != nil {
				d := DrawInstant(t)
				Redate(v2, pc, d, TimeForm(rapid.IntRange(0, 3).Draw(t, "form")))
				cc.Ops = append(cc.Ops, "redate:"+d.Format(time.RFC3339))
			}
			if rapid.Bool().Draw(t, "rescope") {
				cc.Ops = append(cc.Ops, "scope:"+DrawScope(t, v2))
			}
		}
	}
	if pc != nil && pc.SelfSigned {
		if v2, err := ViewCertTree(v.Root); err == nil {
			v2.SelfSign()
			cc.Ops = append(cc.Ops, "selfsign")
		}
	}
	cc.DER = v.Root.Encode()
	cc.Edited = true
	return cc
}

// DrawEdited generates a CRL / OCSP response from the corpus with edits.
func DrawEdited(t *rapid.T, objs []Obj, maxEdits int) (der []byte, base string, ops []string) {
	bi := rapid.IntRange(0, len(objs)-1).Draw(t, "base")
	o := objs[bi]
	nEd := rapid.IntRange(0, maxEdits).Draw(t, "nedits")
	if nEd == 0 {
		return o.DER, o.Name, nil
	}
	root, err := dt.Parse(o.DER)
	if err != nil {
		return o.DER, o.Name, nil
	}
	for i := 0; i < nEd; i++ {
		ops = append(ops, RandomEdit(t, root))
	}
	return root.Encode(), o.Name, ops
}
