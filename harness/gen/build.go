package gen

import (
	"fmt"
	"math/big"
	"time"

	"pgregory.net/rapid"

	dt "verifharness/dertree"
)

var (
	OIDCRLNumber      = []int{2, 5, 29, 20}
	OIDCRLReason      = []int{2, 5, 29, 21}
	OIDInvalidityDate = []int{2, 5, 29, 24}
	OIDDeltaCRL       = []int{2, 5, 29, 27}
	OIDIDP            = []int{2, 5, 29, 28}
	OIDCertIssuer     = []int{2, 5, 29, 29}
	OIDOCSPBasic      = []int{1, 3, 6, 1, 5, 5, 7, 48, 1, 1}
	OIDOCSPNonce      = []int{1, 3, 6, 1, 5, 5, 7, 48, 1, 2}
	OIDECDSASHA256    = []int{1, 2, 840, 10045, 4, 3, 2}
	OIDSHA1           = []int{1, 3, 14, 3, 2, 26}
)

func simpleName(cn string) *dt.Node {
	return RDNSeq([]*dt.Node{ATV(OIDC, 19, []byte("US"))}, []*dt.Node{ATV(OIDO, 12, []byte("Verif Org"))}, []*dt.Node{ATV(OIDCN, 12, []byte(cn))})
}

// CRLSpec describes a CRL to build.
type CRLSpec struct {
	V2         bool
	ThisUpdate time.Time
	NextUpdate *time.Time
	Form       TimeForm
	Entries    []CRLEntry
	NoRevoked  bool // omit the revokedCertificates field (vs. empty SEQUENCE when len(Entries)==0)
	CRLNumber  *int64
	AKI        bool
	IDP        bool
	Delta      bool
	ExtraExts  []*dt.Node
}

type CRLEntry struct {
	Serial         int64
	Date           time.Time
	Reason         *int // nil = no reasonCode extension
	ReasonCritical bool
	Invalidity     *time.Time
	RawExts        []*dt.Node
}

// BuildCRL renders the spec (signature bytes are arbitrary: the parser does
// not verify).
func BuildCRL(s CRLSpec) []byte {
	var tbs []*dt.Node
	if s.V2 {
		tbs = append(tbs, dt.Prim(0, 2, []byte{1}))
	}
	tbs = append(tbs, AlgID(OIDSHA256WithRSA, true), simpleName("Verif CRL Issuer"), EncodeTime(s.ThisUpdate, s.Form))
	if s.NextUpdate != nil {
		tbs = append(tbs, EncodeTime(*s.NextUpdate, s.Form))
	}
	if !s.NoRevoked {
		var es []*dt.Node
		for _, e := range s.Entries {
			ch := []*dt.Node{Integer(big.NewInt(e.Serial)), EncodeTime(e.Date, s.Form)}
			var exts []*dt.Node
			if e.Reason != nil {
				en := Integer(big.NewInt(int64(*e.Reason))) // two's complement, minimal
				en.Tag = 10
				exts = append(exts, MakeExt(OIDCRLReason, e.ReasonCritical, en))
			}
			if e.Invalidity != nil {
				exts = append(exts, MakeExt(OIDInvalidityDate, false, dt.Prim(0, 24, []byte(e.Invalidity.UTC().Format("20060102150405Z")))))
			}
			exts = append(exts, e.RawExts...)
			if len(exts) > 0 {
				ch = append(ch, dt.Seq(exts...))
			}
			es = append(es, dt.Seq(ch...))
		}
		tbs = append(tbs, dt.Seq(es...))
	}
	var exts []*dt.Node
	if s.CRLNumber != nil {
		exts = append(exts, MakeExt(OIDCRLNumber, false, Integer(big.NewInt(*s.CRLNumber))))
	}
	if s.AKI {
		exts = append(exts, MakeExt(OIDExtAKI, false, dt.Seq(dt.Prim(2, 0, []byte{1, 2, 3, 4, 5, 6, 7, 8, 9, 10, 11, 12, 13, 14, 15, 16, 17, 18, 19, 20}))))
	}
	if s.IDP {
		exts = append(exts, MakeExt(OIDIDP, true, dt.Seq(dt.Cons(2, 0, dt.Cons(2, 0, GNURI([]byte("http://crl.example.com/x.crl")))))))
	}
	if s.Delta {
		exts = append(exts, MakeExt(OIDDeltaCRL, true, dt.Prim(0, 2, []byte{1})))
	}
	exts = append(exts, s.ExtraExts...)
	if len(exts) > 0 {
		tbs = append(tbs, dt.Cons(2, 0, dt.Seq(exts...)))
	}
	sig := make([]byte, 257)
	for i := 1; i < len(sig); i++ {
		sig[i] = byte(i * 7)
	}
	return dt.Seq(dt.Seq(tbs...), AlgID(OIDSHA256WithRSA, true), dt.Prim(0, 3, sig)).Encode()
}

// RichCRLs are synthetic revocation lists that carry what the test corpus lacks: an
// issuingDistributionPoint with every field, delta / freshest-CRL indicators, entry extensions (reason,
// invalidity date, certificate issuer), dated inside the window of every CRL lint of today. Bases for the
// enumerated sweeps.
func RichCRLs() []Obj {
	this := time.Date(2024, 3, 1, 12, 0, 0, 0, time.UTC)
	next := this.Add(7 * 24 * time.Hour)
	nextLong := this.AddDate(0, 11, 0)
	num := int64(42)
	r1, r5 := 1, 5
	inv := this.Add(-48 * time.Hour)
	idpFull := MakeExt(OIDIDP, true, dt.Seq(
		dt.Cons(2, 0, dt.Cons(2, 0, GNURI([]byte("http://crl.example.com/x.crl")))),
		dt.Prim(2, 1, []byte{0xff}), dt.Prim(2, 2, []byte{0x00}), dt.Prim(2, 3, []byte{0x01, 0x7e}), dt.Prim(2, 4, []byte{0x00}), dt.Prim(2, 5, []byte{0x00})))
	idpCA := MakeExt(OIDIDP, true, dt.Seq(dt.Prim(2, 2, []byte{0xff})))
	freshest := MakeExt([]int{2, 5, 29, 46}, false, dt.Seq(dt.Seq(dt.Cons(2, 0, dt.Cons(2, 0, GNURI([]byte("http://crl.example.com/delta.crl")))))))
	aia := MakeExt([]int{1, 3, 6, 1, 5, 5, 7, 1, 1}, false, dt.Seq(dt.Seq(dt.OID(1, 3, 6, 1, 5, 5, 7, 48, 2), GNURI([]byte("http://ca.example.com/ca.crt")))))
	certIssuer := MakeExt(OIDCertIssuer, true, dt.Seq(GNDirName(simpleName("Indirect Issuer"))))
	entries := []CRLEntry{{Serial: 0x1001, Date: this.Add(-72 * time.Hour), Reason: &r1, Invalidity: &inv},
		{Serial: 0x1002, Date: this.Add(-24 * time.Hour), Reason: &r5, RawExts: []*dt.Node{certIssuer}}, {Serial: 0x1003, Date: this.Add(-time.Hour)}}
	return []Obj{
		{Name: "built:rich-crl-subscriber", Kind: CRL, DER: BuildCRL(CRLSpec{V2: true, ThisUpdate: this, NextUpdate: &next, Entries: entries, CRLNumber: &num, AKI: true, ExtraExts: []*dt.Node{idpFull, freshest, aia}})},
		{Name: "built:rich-crl-ca", Kind: CRL, DER: BuildCRL(CRLSpec{V2: true, ThisUpdate: this, NextUpdate: &nextLong, Form: GenZ, Entries: entries[:1], CRLNumber: &num, AKI: true, ExtraExts: []*dt.Node{idpCA}})},
		{Name: "built:bare-crl", Kind: CRL, DER: BuildCRL(CRLSpec{V2: true, ThisUpdate: this, NextUpdate: &next, NoRevoked: true})},
		{Name: "built:bare-crl-no-next", Kind: CRL, DER: BuildCRL(CRLSpec{V2: true, ThisUpdate: this, Form: GenZ, Entries: entries[2:]})},
		{Name: "built:rich-crl-delta", Kind: CRL, DER: BuildCRL(CRLSpec{V2: true, ThisUpdate: this, NextUpdate: &next, NoRevoked: true, CRLNumber: &num, AKI: true, IDP: true, Delta: true})},
	}
}

// RichOCSPs are synthetic OCSP responses (good / revoked, by key / by name, with and without nextUpdate and nonce).
func RichOCSPs() []Obj {
	this := time.Date(2024, 3, 1, 12, 0, 0, 0, time.UTC)
	next := this.Add(4 * 24 * time.Hour)
	return []Obj{
		{Name: "built:rich-ocsp-good", Kind: OCSP, DER: BuildOCSP(OCSPSpec{ProducedAt: this, ThisUpdate: this.Add(-time.Hour), NextUpdate: &next, CertStatus: 0, ByKey: true, Nonce: true})},
		{Name: "built:rich-ocsp-revoked", Kind: OCSP, DER: BuildOCSP(OCSPSpec{ProducedAt: this, ThisUpdate: this, NextUpdate: &next, CertStatus: 1})},
	}
}

// DrawBuiltCRL draws a CRL spec and renders it.
func DrawBuiltCRL(t *rapid.T) ([]byte, []string) {
	s := CRLSpec{V2: rapid.IntRange(0, 19).Draw(t, "v2") > 0, Form: TimeForm(rapid.IntRange(0, 3).Draw(t, "form"))}
	s.ThisUpdate = DrawInstant(t)
	ops := []string{"this=" + s.ThisUpdate.Format(time.RFC3339)}
	if rapid.IntRange(0, 5).Draw(t, "hasnext") > 0 {
		var d time.Duration
		switch rapid.IntRange(0, 9).Draw(t, "nextd") {
		case 7, 8, 9:
			// calendar arithmetic: twelve months / one year / ten days later, give or take a second or a day
			cal := [][3]int{{0, 12, 0}, {1, 0, 0}, {0, 0, 10}, {0, 11, 0}, {0, 13, 0}, {0, 12, 1}, {0, 12, -1}}[rapid.IntRange(0, 6).Draw(t, "calspan")]
			nu := s.ThisUpdate.AddDate(cal[0], cal[1], cal[2]).Add([]time.Duration{0, -time.Second, time.Second, -24 * time.Hour, 24 * time.Hour, 12 * time.Hour}[rapid.IntRange(0, 5).Draw(t, "caloff")])
			d = nu.Sub(s.ThisUpdate)
		case 0:
			d = 10 * 24 * time.Hour
		case 1:
			d = 10*24*time.Hour + time.Second
		case 2:
			d = 10*24*time.Hour - time.Second
		case 3:
			d = 366 * 24 * time.Hour
		case 4:
			d = -time.Hour
		case 5:
			d = 0
		default:
			d = time.Duration(rapid.Int64Range(1, 400*86400).Draw(t, "nextsec")) * time.Second
		}
		nu := s.ThisUpdate.Add(d)
		s.NextUpdate = &nu
		ops = append(ops, fmt.Sprintf("next=+%s", d))
	}
	ne := rapid.IntRange(0, 4).Draw(t, "nentries")
	s.NoRevoked = ne == 0 && rapid.Bool().Draw(t, "norevoked")
	for i := 0; i < ne; i++ {
		e := CRLEntry{Serial: int64(rapid.IntRange(1, 6).Draw(t, "serial")), Date: s.ThisUpdate.Add(-time.Duration(rapid.IntRange(0, 1000).Draw(t, "ago")) * time.Hour)}
		if rapid.IntRange(0, 3).Draw(t, "hasreason") > 0 {
			r := rapid.IntRange(0, 12).Draw(t, "reason")
			if rapid.IntRange(0, 9).Draw(t, "oddreason") == 0 {
				r = rapid.SampledFrom([]int{-1, -129, 127, 128, 255, 256, 300, 65536, -32769}).Draw(t, "reasonval")
			}
			e.Reason = &r
			e.ReasonCritical = rapid.IntRange(0, 4).Draw(t, "rcrit") == 0
			ops = append(ops, fmt.Sprintf("reason=%d", r))
		}
		if rapid.IntRange(0, 5).Draw(t, "hasinv") == 0 {
			d := e.Date.Add(-time.Hour)
			e.Invalidity = &d
		}
		if rapid.IntRange(0, 15).Draw(t, "rawext") == 0 {
			e.RawExts = append(e.RawExts, MakeExt(OIDCRLReason, false, dt.Prim(0, rapid.SampledFrom([]uint32{10, 2, 4, 12}).Draw(t, "rtag"), rapid.SliceOfN(rapid.Byte(), 0, 3).Draw(t, "rbytes"))))
			ops = append(ops, "raw-reason")
		}
		s.Entries = append(s.Entries, e)
	}
	if rapid.IntRange(0, 4).Draw(t, "hasnum") > 0 {
		n := int64(rapid.IntRange(0, 1000).Draw(t, "crlnum"))
		s.CRLNumber = &n
	}
	s.AKI = rapid.IntRange(0, 4).Draw(t, "aki") > 0
	s.IDP = rapid.IntRange(0, 5).Draw(t, "idp") == 0
	s.Delta = rapid.IntRange(0, 8).Draw(t, "delta") == 0
	return BuildCRL(s), ops
}

// OCSPSpec describes a certificate-less BasicOCSPResponse.
type OCSPSpec struct {
	Status     int // responseStatus
	ProducedAt time.Time
	ThisUpdate time.Time
	NextUpdate *time.Time
	CertStatus int // 0 good, 1 revoked, 2 unknown
	ByKey      bool
	Nonce      bool
	NSingles   int
}

func BuildOCSP(s OCSPSpec) []byte {
	gt := func(t time.Time) *dt.Node { return dt.Prim(0, 24, []byte(t.UTC().Format("20060102150405Z"))) }
	var rid *dt.Node
	if s.ByKey {
		rid = dt.Cons(2, 2, dt.Prim(0, 4, make([]byte, 20)))
	} else {
		rid = dt.Cons(2, 1, simpleName("Verif OCSP Responder"))
	}
	var singles []*dt.Node
	n := s.NSingles
	if n < 1 {
		n = 1
	}
	for i := 0; i < n; i++ {
		certID := dt.Seq(AlgID(OIDSHA1, true), dt.Prim(0, 4, make([]byte, 20)), dt.Prim(0, 4, make([]byte, 20)), Integer(big.NewInt(int64(1000+i))))
		var st *dt.Node
		switch s.CertStatus {
		case 1:
			st = dt.Cons(2, 1, gt(s.ThisUpdate.Add(-time.Hour)))
		case 2:
			st = dt.Prim(2, 2, nil)
		default:
			st = dt.Prim(2, 0, nil)
		}
		ch := []*dt.Node{certID, st, gt(s.ThisUpdate)}
		if s.NextUpdate != nil {
			ch = append(ch, dt.Cons(2, 0, gt(*s.NextUpdate)))
		}
		singles = append(singles, dt.Seq(ch...))
	}
	rd := []*dt.Node{rid, gt(s.ProducedAt), dt.Seq(singles...)}
	if s.Nonce {
		rd = append(rd, dt.Cons(2, 1, dt.Seq(MakeExt(OIDOCSPNonce, false, dt.Prim(0, 4, []byte{1, 2, 3, 4})))))
	}
	sig := make([]byte, 257)
	basic := dt.Seq(dt.Seq(rd...), AlgID(OIDSHA256WithRSA, true), dt.Prim(0, 3, sig))
	return dt.Seq(dt.Prim(0, 10, []byte{byte(s.Status)}), dt.Cons(2, 0, dt.Seq(dt.OID(OIDOCSPBasic...), dt.OctetWrap(basic)))).Encode()
}

func DrawBuiltOCSP(t *rapid.T) ([]byte, []string) {
	s := OCSPSpec{CertStatus: rapid.IntRange(0, 2).Draw(t, "certstatus"), ByKey: rapid.Bool().Draw(t, "bykey"),
		Nonce: rapid.Bool().Draw(t, "nonce"), NSingles: 1}
	s.ProducedAt = DrawInstant(t)
	off := []time.Duration{0, time.Second, -time.Second, time.Hour, -time.Hour, 24 * time.Hour}[rapid.IntRange(0, 5).Draw(t, "thisoff")]
	s.ThisUpdate = s.ProducedAt.Add(off)
	ops := []string{"produced=" + s.ProducedAt.Format(time.RFC3339), fmt.Sprintf("this=%+v", off)}
	if rapid.IntRange(0, 3).Draw(t, "hasnext") > 0 {
		var nu time.Time
		if rapid.Bool().Draw(t, "nextabs") {
			nu = DrawInstant(t)
		} else {
			nu = s.ThisUpdate.Add(time.Duration(rapid.IntRange(-2, 10*86400).Draw(t, "nextsec")) * time.Second)
		}
		s.NextUpdate = &nu
		ops = append(ops, "next="+nu.Format(time.RFC3339))
	}
	return BuildOCSP(s), ops
}

// ReasonCodeCRLs: revocation lists whose entries carry *different* offending reason codes (unspecified 0, the
// unassigned 7, the out-of-range 11 and 12, next to good ones) in ascending, descending and mixed serial-number
// order, with duplicates of serials among them - whoever re-orders the entry list for itself, or stops at the
// first offender, changes what the next reader finds first.
func ReasonCodeCRLs() []Obj {
	this := time.Date(2024, 3, 1, 12, 0, 0, 0, time.UTC)
	next := this.Add(7 * 24 * time.Hour)
	num := int64(7)
	codes := []int{0, 7, 11, 1, 12, 5, 9, 10}
	var out []Obj
	for oi, order := range [][]int{{0, 1, 2, 3, 4, 5, 6, 7}, {7, 6, 5, 4, 3, 2, 1, 0}, {3, 0, 5, 1, 7, 2, 6, 4}, {1, 0}, {0, 1}, {2, 1, 0}, {4, 2}, {5, 5, 0, 7}} {
		var es []CRLEntry
		for k, i := range order {
			r := codes[i]
			es = append(es, CRLEntry{Serial: int64(0x2000 + 16*i), Date: this.Add(-time.Duration(k+1) * time.Hour), Reason: &r})
		}
		for form := 0; form < 2; form++ {
			sp := CRLSpec{V2: true, ThisUpdate: this, NextUpdate: &next, Entries: es, CRLNumber: &num, AKI: true}
			if form == 1 {
				sp.Form = GenZ
			}
			out = append(out, Obj{Name: fmt.Sprintf("built:reason-codes-%d-%d", oi, form), Kind: CRL, DER: BuildCRL(sp)})
		}
	}
	return out
}

// LargeCRLs: revocation lists of 17 ... 10000 entries (one more than the sizes somebody may pick as the point
// where "large" begins), serial numbers descending or scattered, a reason code on every third entry, one
// duplicated serial in the scattered ones.
func LargeCRLs() []Obj {
	this := time.Date(2024, 3, 1, 12, 0, 0, 0, time.UTC)
	next := this.Add(7 * 24 * time.Hour)
	num := int64(9)
	var out []Obj
	for _, n := range []int{17, 65, 257, 1025, 4097, 10000} {
		for variant := 0; variant < 2; variant++ {
			es := make([]CRLEntry, 0, n)
			x := uint64(n*31 + variant)
			for i := 0; i < n; i++ {
				serial := int64(0x100000 + (n - i)) // descending
				if variant == 1 {
					x = x*6364136223846793005 + 1442695040888963407
					serial = int64(0x100000 + (x>>33)%uint64(4*n))
					if i == n-1 {
						serial = es[0].Serial // a duplicate, far apart
					}
				}
				e := CRLEntry{Serial: serial, Date: this.Add(-time.Duration(i%5000+1) * time.Minute)}
				if i%3 == 0 {
					r := []int{1, 3, 4, 5, 9}[i/3%5]
					e.Reason = &r
				}
				es = append(es, e)
			}
			out = append(out, Obj{Name: fmt.Sprintf("built:large-crl-%d-%d", n, variant), Kind: CRL, DER: BuildCRL(CRLSpec{V2: true, ThisUpdate: this, NextUpdate: &next, Entries: es, CRLNumber: &num, AKI: true})})
		}
	}
	return out
}
