package gen

import (
	"bytes"
	"testing"
	"time"

	"pgregory.net/rapid"

	dt "verifharness/dertree"
)

func TestRoundTripCorpus(t *testing.T) {
	co := LoadCorpus()
	t.Logf("certs=%d crls=%d ocsp=%d skipped=%d", len(co.Certs), len(co.CRLs), len(co.OCSPs), co.Skipped)
	bad, noview := 0, 0
	for _, o := range append(append(append([]Obj{}, co.Certs...), co.CRLs...), co.OCSPs...) {
		n, err := dt.Parse(o.DER)
		if err != nil {
			bad++
			continue
		}
		if !bytes.Equal(n.Encode(), o.DER) {
			t.Errorf("%s: round trip differs", o.Name)
		}
		if o.Kind == Cert {
			if _, err := ViewCert(o.DER); err != nil {
				noview++
			}
		}
	}
	t.Logf("dertree-unparseable=%d noview=%d", bad, noview)
}

func TestBuilders(t *testing.T) {
	okc, oko, n := 0, 0, 0
	rapid.Check(t, func(rt *rapid.T) {
		n++
		der, _ := DrawBuiltCRL(rt)
		if _, ok := ParseCRL(der); ok {
			okc++
		}
		der, _ = DrawBuiltOCSP(rt)
		if _, ok := ParseOCSP(der); ok {
			oko++
		}
	})
	t.Logf("built CRL parse %d/%d, OCSP %d/%d", okc, n, oko, n)
	if okc < n*6/10 || oko < n*8/10 {
		t.Errorf("builders mostly unparseable")
	}
}

func TestSelfSign(t *testing.T) {
	co := LoadCorpus()
	cnt, ok := 0, 0
	for _, o := range co.Certs {
		c, _ := ParseCert(o.DER)
		if c == nil || !c.SelfSigned {
			continue
		}
		v, err := ViewCert(o.DER)
		if err != nil {
			continue
		}
		cnt++
		Redate(v, c, time.Date(2020, 1, 1, 0, 0, 0, 0, time.UTC), UTCZ)
		v.SelfSign()
		c2, p := ParseCert(v.DER())
		if p && c2.SelfSigned {
			ok++
		}
	}
	t.Logf("self-signed bases %d, still self-signed after redate+selfsign %d", cnt, ok)
	if ok != cnt {
		t.Errorf("selfsign lost")
	}
}

func TestMutationParseRate(t *testing.T) {
	n, ok := 0, 0
	rapid.Check(t, func(rt *rapid.T) {
		cc := DrawCert(rt, 3, true)
		n++
		if _, p := ParseCert(cc.DER); p {
			ok++
		}
	})
	t.Logf("parse rate %d/%d", ok, n)
}
