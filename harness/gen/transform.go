package gen

import (
	"crypto"
	"crypto/rsa"
	"crypto/sha256"
	"crypto/x509"
	"encoding/pem"
	"fmt"
	"math/big"
	"sync"
	"time"

	zx509 "github.com/zmap/zcrypto/x509"

	dt "verifharness/dertree"
)

var (
	hkOnce sync.Once
	hk     *rsa.PrivateKey
)

func HarnessKey() *rsa.PrivateKey {
	hkOnce.Do(func() {
		blk, _ := pem.Decode([]byte(HarnessKeyPEM))
		k, err := x509.ParsePKCS1PrivateKey(blk.Bytes)
		if err != nil {
			panic(err)
		}
		hk = k
	})
	return hk
}

// OIDs used by builders.
var (
	OIDSHA256WithRSA = []int{1, 2, 840, 113549, 1, 1, 11}
	OIDRSAEncryption = []int{1, 2, 840, 113549, 1, 1, 1}
	OIDExtSAN        = []int{2, 5, 29, 17}
	OIDExtIAN        = []int{2, 5, 29, 18}
	OIDExtEKU        = []int{2, 5, 29, 37}
	OIDExtPolicies   = []int{2, 5, 29, 32}
	OIDExtKU         = []int{2, 5, 29, 15}
	OIDExtBC         = []int{2, 5, 29, 19}
	OIDExtNC         = []int{2, 5, 29, 30}
	OIDExtAIA        = []int{1, 3, 6, 1, 5, 5, 7, 1, 1}
	OIDExtSIA        = []int{1, 3, 6, 1, 5, 5, 7, 1, 11}
	OIDExtCRLDP      = []int{2, 5, 29, 31}
	OIDExtSKI        = []int{2, 5, 29, 14}
	OIDExtAKI        = []int{2, 5, 29, 35}
)

func AlgID(oid []int, withNull bool) *dt.Node {
	if withNull {
		return dt.Seq(dt.OID(oid...), dt.Prim(0, 5, nil))
	}
	return dt.Seq(dt.OID(oid...))
}

// RSASPKI builds a SubjectPublicKeyInfo for (N, e).
func RSASPKI(n, e *big.Int) *dt.Node {
	return dt.Seq(AlgID(OIDRSAEncryption, true), dt.BitWrap(dt.Seq(Integer(n), Integer(e))))
}

// Integer encodes a (non-negative or negative) big integer in DER.
func Integer(v *big.Int) *dt.Node {
	if v.Sign() == 0 {
		return dt.Prim(0, 2, []byte{0})
	}
	if v.Sign() > 0 {
		b := v.Bytes()
		if b[0]&0x80 != 0 {
			b = append([]byte{0}, b...)
		}
		return dt.Prim(0, 2, b)
	}
	// two's complement
	n := new(big.Int).Neg(v)
	l := uint(len(n.Bytes()) * 8)
	m := new(big.Int).Lsh(big.NewInt(1), l)
	b := new(big.Int).Sub(m, n).Bytes()
	for uint(len(b))*8 < l {
		b = append([]byte{0}, b...)
	}
	if b[0]&0x80 == 0 {
		b = append([]byte{0xff}, b...)
	}
	return dt.Prim(0, 2, b)
}

// SelfSign replaces the key by the harness key, both algorithm identifiers by
// sha256WithRSAEncryption, and signs the TBS: the result is genuinely
// self-signed whenever issuer == subject.
func (v *CertView) SelfSign() {
	k := HarnessKey()
	v.SetSPKI(RSASPKI(k.N, big.NewInt(int64(k.E))))
	v.SetInnerAlg(AlgID(OIDSHA256WithRSA, true))
	v.SetOuterAlg(AlgID(OIDSHA256WithRSA, true))
	v.SignWithHarnessKey()
}

// SignWithHarnessKey signs the current TBS (sha256WithRSA must already be the
// declared algorithm for the signature to verify).
func (v *CertView) SignWithHarnessKey() {
	h := sha256.Sum256(v.TBS.Encode())
	sig, err := rsa.SignPKCS1v15(nil, HarnessKey(), crypto.SHA256, h[:])
	if err != nil {
		panic(err)
	}
	v.SetSignatureBytes(sig)
}

// SetSignatureBytes replaces the signature BIT STRING contents (0 unused bits).
func (v *CertView) SetSignatureBytes(sig []byte) {
	v.Root.Children[2] = dt.Prim(0, 3, append([]byte{0}, sig...))
}

// SignatureBytes returns the signature value (without the unused-bits octet).
func (v *CertView) SignatureBytes() []byte {
	n := v.Signature()
	if n.Wrapped {
		return n.Children[0].Encode()
	}
	if len(n.Content) == 0 {
		return nil
	}
	return n.Content[1:]
}

// Normalize makes a metamorphic pair comparable: when the parsed base is
// self-signed, every variant (including the untouched reference) is re-signed
// with the harness key so SelfSigned stays true after TBS edits.
func Normalize(v *CertView, baseSelfSigned bool) {
	if baseSelfSigned {
		v.SelfSign()
	}
}

// Redate moves notBefore to nb and keeps the validity length.
func Redate(v *CertView, c *zx509.Certificate, nb time.Time, f TimeForm) {
	d := c.NotAfter.Sub(c.NotBefore)
	v.SetValidity(nb, nb.Add(d), f)
}

// --- names / general names ------------------------------------------------------

// GN builders (GeneralName CHOICE arms).
func GNOther(typeOID []int, value *dt.Node) *dt.Node {
	return dt.Cons(2, 0, dt.OID(typeOID...), dt.Cons(2, 0, value))
}
func GNEmail(b []byte) *dt.Node { return dt.Prim(2, 1, b) }
func GNDNS(b []byte) *dt.Node   { return dt.Prim(2, 2, b) }
func GNDirName(name *dt.Node) *dt.Node {
	return dt.Cons(2, 4, name)
}
func GNEDIParty(b []byte) *dt.Node { return dt.Cons(2, 5, dt.Prim(2, 1, b)) }
func GNURI(b []byte) *dt.Node      { return dt.Prim(2, 6, b) }
func GNIP(b []byte) *dt.Node       { return dt.Prim(2, 7, b) }
func GNRegID(oid []int) *dt.Node {
	n := dt.OID(oid...)
	n.Class, n.Tag = 2, 8
	return n
}

// ATV builds an AttributeTypeAndValue with a string of the given universal tag.
func ATV(oid []int, tag uint32, val []byte) *dt.Node {
	return dt.Seq(dt.OID(oid...), dt.Prim(0, tag, val))
}

// RDNSeq builds a Name from RDNs, each a list of ATVs.
func RDNSeq(rdns ...[]*dt.Node) *dt.Node {
	var ch []*dt.Node
	for _, r := range rdns {
		ch = append(ch, dt.Set(r...))
	}
	return dt.Seq(ch...)
}

var (
	OIDCN      = []int{2, 5, 4, 3}
	OIDSurname = []int{2, 5, 4, 4}
	OIDSerial  = []int{2, 5, 4, 5}
	OIDC       = []int{2, 5, 4, 6}
	OIDL       = []int{2, 5, 4, 7}
	OIDST      = []int{2, 5, 4, 8}
	OIDStreet  = []int{2, 5, 4, 9}
	OIDO       = []int{2, 5, 4, 10}
	OIDOU      = []int{2, 5, 4, 11}
	OIDGiven   = []int{2, 5, 4, 42}
	OIDEmailAt = []int{1, 2, 840, 113549, 1, 9, 1}
	OIDOrgID   = []int{2, 5, 4, 97}
	OIDPostal  = []int{2, 5, 4, 17}
	OIDDC      = []int{0, 9, 2342, 19200300, 100, 1, 25}
)

// SetCN replaces every commonName value in the subject, or appends one RDN.
func (v *CertView) SetCN(val []byte, tag uint32) {
	subj := v.Subject()
	found := false
	for _, rdn := range subj.Children {
		for _, atv := range rdn.Children {
			if len(atv.Children) == 2 && atv.Children[0].OIDEquals(OIDCN...) {
				atv.Children[1] = dt.Prim(0, tag, val)
				found = true
			}
		}
	}
	if !found {
		subj.Children = append(subj.Children, dt.Set(ATV(OIDCN, tag, val)))
	}
}

// RemoveCN drops every commonName ATV from the subject.
func (v *CertView) RemoveCN() {
	subj := v.Subject()
	var rdns []*dt.Node
	for _, rdn := range subj.Children {
		var keep []*dt.Node
		for _, atv := range rdn.Children {
			if len(atv.Children) == 2 && atv.Children[0].OIDEquals(OIDCN...) {
				continue
			}
			keep = append(keep, atv)
		}
		if len(keep) > 0 {
			rdn.Children = keep
			rdns = append(rdns, rdn)
		}
	}
	if rdns == nil {
		rdns = []*dt.Node{}
	}
	subj.Children = rdns
}

// SetSAN installs a subjectAltName with the given GeneralNames.
func (v *CertView) SetSAN(critical bool, gns ...*dt.Node) {
	v.SetExt(OIDExtSAN, critical, dt.Seq(gns...))
}

func (v *CertView) SetIAN(gns ...*dt.Node) {
	v.SetExt(OIDExtIAN, false, dt.Seq(gns...))
}

// EKU OIDs.
var (
	EKUAny        = []int{2, 5, 29, 37, 0}
	EKUServerAuth = []int{1, 3, 6, 1, 5, 5, 7, 3, 1}
	EKUClientAuth = []int{1, 3, 6, 1, 5, 5, 7, 3, 2}
	EKUCodeSign   = []int{1, 3, 6, 1, 5, 5, 7, 3, 3}
	EKUEmail      = []int{1, 3, 6, 1, 5, 5, 7, 3, 4}
	EKUTimeStamp  = []int{1, 3, 6, 1, 5, 5, 7, 3, 8}
	EKUOCSP       = []int{1, 3, 6, 1, 5, 5, 7, 3, 9}
	EKUUnknown    = []int{1, 3, 6, 1, 4, 1, 99999, 1, 1}
)

// SetEKU installs (or, with no OIDs, removes) the extended key usage.
func (v *CertView) SetEKU(oids ...[]int) {
	if len(oids) == 0 {
		v.RemoveExt(OIDExtEKU...)
		return
	}
	var ch []*dt.Node
	for _, o := range oids {
		ch = append(ch, dt.OID(o...))
	}
	v.SetExt(OIDExtEKU, false, dt.Seq(ch...))
}

// SetPolicies installs (or removes) certificatePolicies with bare policy OIDs.
func (v *CertView) SetPolicies(oids ...[]int) {
	if len(oids) == 0 {
		v.RemoveExt(OIDExtPolicies...)
		return
	}
	var ch []*dt.Node
	for _, o := range oids {
		ch = append(ch, dt.Seq(dt.OID(o...)))
	}
	v.SetExt(OIDExtPolicies, false, dt.Seq(ch...))
}

// Permute returns children re-ordered by perm (perm[i] = old index).
func Permute(ch []*dt.Node, perm []int) []*dt.Node {
	out := make([]*dt.Node, len(ch))
	for i, p := range perm {
		out[i] = ch[p]
	}
	return out
}

// KeyUsageBits encodes a keyUsage BIT STRING from a 16-bit mask whose most significant bit is named bit 0
// (digitalSignature) - DER: trailing zero bits removed, unused-bits count set.
func KeyUsageBits(mask uint16) *dt.Node {
	b := []byte{byte(mask >> 8), byte(mask)}
	for len(b) > 0 && b[len(b)-1] == 0 {
		b = b[:len(b)-1]
	}
	if len(b) == 0 {
		return dt.Prim(0, 3, []byte{0})
	}
	unused := 0
	for last := b[len(b)-1]; last&1 == 0; last >>= 1 {
		unused++
	}
	return dt.Prim(0, 3, append([]byte{byte(unused)}, b...))
}

// ScopeMailKinds is the number of mail-SAN shapes of ScopeVariant.
const ScopeMailKinds = 9

// ScopeVariant rewrites the three scope features of a certificate: the EKU (index into AllEKUs, -1 = no
// extension), the policy set (nil = no extension) and the mailbox in the SAN: 0 absent, 1 rfc822Name,
// 2 SmtpUTF8Mailbox otherName, 3 empty rfc822Name, 4 SmtpUTF8Mailbox with Latin-1 bytes under the UTF8String
// tag, 5 with an OCTET STRING value, 6 with a second element inside the [0] wrapper, 7 with an empty [0]
// wrapper, 8 with an empty UTF8String.
func ScopeVariant(der []byte, eku int, policies [][]int, mail int) ([]byte, bool) {
	v, err := ViewCert(der)
	if err != nil {
		return nil, false
	}
	if eku < 0 {
		v.SetEKU()
	} else {
		v.SetEKU(AllEKUs[eku])
	}
	v.SetPolicies(policies...)
	smtp := []int{1, 3, 6, 1, 5, 5, 7, 8, 9}
	gns := []*dt.Node{GNDNS([]byte("scope.example.com"))}
	switch mail {
	case 1:
		gns = append(gns, GNEmail([]byte("user@example.com")))
	case 2:
		gns = append(gns, GNOther(smtp, dt.Prim(0, 12, []byte("user@example.com"))))
	case 3:
		gns = append(gns, GNEmail([]byte{}))
	case 4:
		gns = append(gns, GNOther(smtp, dt.Prim(0, 12, []byte("us\xe9r@example.com"))))
	case 5:
		gns = append(gns, GNOther(smtp, dt.Prim(0, 4, []byte("user@example.com"))))
	case 6:
		g := GNOther(smtp, dt.Prim(0, 12, []byte("user@example.com")))
		g.Children[1].Children = append(g.Children[1].Children, dt.Prim(0, 5, nil))
		gns = append(gns, g)
	case 7:
		g := GNOther(smtp, dt.Prim(0, 12, nil))
		g.Children[1].Children = nil
		gns = append(gns, g)
	case 8:
		gns = append(gns, GNOther(smtp, dt.Prim(0, 12, nil)))
	}
	v.SetSAN(false, gns...)
	if pc, ok := ParseCert(der); ok && pc.SelfSigned {
		v.SelfSign()
	}
	return v.DER(), true
}

// LyingNest builds an opaque value of total bytes in which lengths lie a little at every level: depth nested
// constructed elements, each with a long-form length of lenOctets octets that claims slack bytes more than its
// parent really has left, and an innermost primitive whose claimed length ends past bytes beyond the true end of
// the value. A reader that validates each length against its parent with a tolerance of a few bytes - or against
// the capacity of a slice that aliases the whole certificate - walks out of the value, and with enough levels out
// of the extension, into whatever follows it.
func LyingNest(total, depth, lenOctets, slack, past int) []byte {
	if lenOctets < 1 {
		lenOctets = 1
	}
	hdr := 2 + lenOctets
	out := make([]byte, 0, total)
	put := func(tag byte, claimed int) {
		out = append(out, tag, 0x80|byte(lenOctets))
		for i := lenOctets - 1; i >= 0; i-- {
			out = append(out, byte(claimed>>(8*uint(i))))
		}
	}
	claimed := total // what the enclosing window claims to hold
	for d := 0; d < depth && len(out)+2*hdr < total; d++ {
		claimed = claimed - hdr + slack
		put(0x30, claimed)
	}
	put(0x04, total-len(out)-hdr+past)
	for len(out) < total {
		out = append(out, 0x41)
	}
	return out
}

// PadLists lengthens the list-valued parts of a certificate so that the slices a parser builds for them by
// repeated append end up with spare capacity (3, 5, 6, 7 ... entries: len < cap): code that appends to such a
// slice, or edits "its copy" in place, then writes into the certificate itself. Added entries are harmless,
// well-formed and carry capital letters (so that normalising code has something to rewrite). variant 0 / 1 give
// two different lengths. Reports whether anything could be padded.
func (v *CertView) PadLists(variant int) bool {
	notPow2 := func(n int) bool { return n >= 3 && n&(n-1) != 0 }
	target := func(have int) int {
		t := have + 1
		for !notPow2(t) {
			t++
		}
		if variant == 1 {
			t++
			for !notPow2(t) {
				t++
			}
		}
		return t
	}
	count := func(seq *dt.Node, class uint8, tag uint32) int {
		n := 0
		for _, c := range seq.Children {
			if uint8(c.Class) == class && uint32(c.Tag) == tag {
				n++
			}
		}
		return n
	}
	// subjectAltName: dNSNames (and one more of each other arm that is already there)
	san := ExtInner(v.Ext(OIDExtSAN...))
	if san == nil {
		v.SetExt(OIDExtSAN, false, dt.Seq())
		san = ExtInner(v.Ext(OIDExtSAN...))
	}
	if san == nil {
		return false
	}
	have := count(san, 2, 2)
	for i := have; i < target(have); i++ {
		san.Children = append(san.Children, GNDNS([]byte(fmt.Sprintf("Pad%d.Example.COM", i))))
	}
	for _, arm := range []struct {
		tag uint32
		mk  func(i int) *dt.Node
	}{
		{1, func(i int) *dt.Node { return GNEmail([]byte(fmt.Sprintf("Pad%d@Example.COM", i))) }},
		{6, func(i int) *dt.Node { return GNURI([]byte(fmt.Sprintf("https://Pad%d.Example.COM/", i))) }},
		{7, func(i int) *dt.Node { return GNIP([]byte{8, 8, 4, byte(i)}) }},
	} {
		if h := count(san, 2, arm.tag); h > 0 {
			for i := h; i < target(h); i++ {
				san.Children = append(san.Children, arm.mk(i))
			}
		}
	}
	// certificatePolicies and extKeyUsage, when present: unknown identifiers appended
	if pol := ExtInner(v.Ext(OIDExtPolicies...)); pol != nil {
		h := len(pol.Children)
		for i := h; i < target(h); i++ {
			pol.Children = append(pol.Children, dt.Seq(dt.OID(1, 3, 6, 1, 4, 1, 99999, 7, i)))
		}
	}
	if eku := ExtInner(v.Ext(OIDExtEKU...)); eku != nil {
		h := len(eku.Children)
		for i := h; i < target(h); i++ {
			eku.Children = append(eku.Children, dt.OID(1, 3, 6, 1, 4, 1, 99999, 8, i))
		}
	}
	// subject: organizational units
	subj := v.Subject()
	h := 0
	for _, rdn := range subj.Children {
		for _, atv := range rdn.Children {
			if len(atv.Children) == 2 && atv.Children[0].OIDEquals(OIDOU...) {
				h++
			}
		}
	}
	for i := h; i < target(h); i++ {
		subj.Children = append(subj.Children, dt.Set(ATV(OIDOU, 12, []byte(fmt.Sprintf("Pad Unit %d", i)))))
	}
	return true
}
