package gen

import (
	"errors"
	"fmt"
	"time"

	dt "verifharness/dertree"
)

// CertView gives named access to the parts of a Certificate tree.
type CertView struct {
	Root *dt.Node
	TBS  *dt.Node
}

var errShape = errors.New("gen: unexpected certificate shape")

func ViewCert(der []byte) (*CertView, error) {
	root, err := dt.Parse(der)
	if err != nil {
		return nil, err
	}
	return ViewCertTree(root)
}

func ViewCertTree(root *dt.Node) (*CertView, error) {
	if !root.Constructed || len(root.Children) != 3 || !root.Children[0].Constructed {
		return nil, errShape
	}
	v := &CertView{Root: root, TBS: root.Children[0]}
	if v.base() < 0 || len(v.TBS.Children) < v.base()+6 {
		return nil, errShape
	}
	if val := v.Validity(); !val.Constructed || len(val.Children) != 2 || !isTime(val.Children[0]) || !isTime(val.Children[1]) {
		return nil, errShape
	}
	for _, i := range []int{1, 2, 4, 5} {
		if !v.TBS.Children[v.base()+i].Constructed {
			return nil, errShape
		}
	}
	return v, nil
}

func (v *CertView) DER() []byte { return v.Root.Encode() }

// base is the index of the serial number within the TBS.
func (v *CertView) base() int {
	ch := v.TBS.Children
	if len(ch) == 0 {
		return -1
	}
	if ch[0].Class == 2 && ch[0].Tag == 0 {
		return 1
	}
	return 0
}

func (v *CertView) Serial() *dt.Node    { return v.TBS.Children[v.base()] }
func (v *CertView) InnerAlg() *dt.Node  { return v.TBS.Children[v.base()+1] }
func (v *CertView) Issuer() *dt.Node    { return v.TBS.Children[v.base()+2] }
func (v *CertView) Validity() *dt.Node  { return v.TBS.Children[v.base()+3] }
func (v *CertView) Subject() *dt.Node   { return v.TBS.Children[v.base()+4] }
func (v *CertView) SPKI() *dt.Node      { return v.TBS.Children[v.base()+5] }
func (v *CertView) OuterAlg() *dt.Node  { return v.Root.Children[1] }
func (v *CertView) Signature() *dt.Node { return v.Root.Children[2] }

func (v *CertView) SetIssuer(n *dt.Node)   { v.TBS.Children[v.base()+2] = n }
func (v *CertView) SetSubject(n *dt.Node)  { v.TBS.Children[v.base()+4] = n }
func (v *CertView) SetSPKI(n *dt.Node)     { v.TBS.Children[v.base()+5] = n }
func (v *CertView) SetInnerAlg(n *dt.Node) { v.TBS.Children[v.base()+1] = n }
func (v *CertView) SetOuterAlg(n *dt.Node) { v.Root.Children[1] = n }

// extWrapper returns the [3] node, or nil.
func (v *CertView) extWrapper() *dt.Node {
	for _, c := range v.TBS.Children[v.base()+6:] {
		if c.Class == 2 && c.Tag == 3 && c.Constructed && len(c.Children) == 1 && c.Children[0].Constructed {
			return c
		}
	}
	return nil
}

// Extensions returns the SEQUENCE OF Extension, or nil when absent.
func (v *CertView) Extensions() *dt.Node {
	if w := v.extWrapper(); w != nil {
		return w.Children[0]
	}
	return nil
}

// EnsureExtensions creates an empty extensions block when absent (and makes
// the certificate v3).
func (v *CertView) EnsureExtensions() *dt.Node {
	if e := v.Extensions(); e != nil {
		return e
	}
	seq := dt.Seq()
	v.TBS.Children = append(v.TBS.Children, dt.Cons(2, 3, seq))
	if v.base() == 0 {
		v.TBS.Children = append([]*dt.Node{dt.Cons(2, 0, dt.Prim(0, 2, []byte{2}))}, v.TBS.Children...)
	} else if ver := v.TBS.Children[0]; len(ver.Children) == 1 && ver.Children[0].IsLeaf() {
		ver.Children[0].Content = []byte{2}
	}
	return seq
}

// Ext finds the Extension SEQUENCE with the given OID.
func (v *CertView) Ext(oid ...int) *dt.Node {
	e := v.Extensions()
	if e == nil {
		return nil
	}
	for _, x := range e.Children {
		if len(x.Children) >= 2 && x.Children[0].OIDEquals(oid...) {
			return x
		}
	}
	return nil
}

// ExtValue returns the extnValue OCTET STRING node of an Extension.
func ExtValue(ext *dt.Node) *dt.Node {
	if ext == nil || len(ext.Children) < 2 {
		return nil
	}
	return ext.Children[len(ext.Children)-1]
}

// ExtInner returns the DER value inside extnValue when it parsed as DER.
func ExtInner(ext *dt.Node) *dt.Node {
	ov := ExtValue(ext)
	if ov == nil || !ov.Wrapped || len(ov.Children) != 1 {
		return nil
	}
	return ov.Children[0]
}

// MakeExt builds an Extension.
func MakeExt(oid []int, critical bool, inner *dt.Node) *dt.Node {
	ch := []*dt.Node{dt.OID(oid...)}
	if critical {
		ch = append(ch, dt.Prim(0, 1, []byte{0xff}))
	}
	ch = append(ch, dt.OctetWrap(inner))
	return dt.Seq(ch...)
}

// SetExt replaces (or appends) the extension with the OID.
func (v *CertView) SetExt(oid []int, critical bool, inner *dt.Node) {
	seq := v.EnsureExtensions()
	ne := MakeExt(oid, critical, inner)
	for i, x := range seq.Children {
		if len(x.Children) >= 2 && x.Children[0].OIDEquals(oid...) {
			seq.Children[i] = ne
			return
		}
	}
	seq.Children = append(seq.Children, ne)
}

// RemoveExt deletes all extensions with the OID; an emptied block is removed.
func (v *CertView) RemoveExt(oid ...int) {
	seq := v.Extensions()
	if seq == nil {
		return
	}
	var keep []*dt.Node
	for _, x := range seq.Children {
		if len(x.Children) >= 2 && x.Children[0].OIDEquals(oid...) {
			continue
		}
		keep = append(keep, x)
	}
	if keep == nil {
		keep = []*dt.Node{}
	}
	seq.Children = keep
	if len(keep) == 0 {
		w := v.extWrapper()
		var ch []*dt.Node
		for _, c := range v.TBS.Children {
			if c != w {
				ch = append(ch, c)
			}
		}
		v.TBS.Children = ch
	}
}

// --- time ----------------------------------------------------------------------

// TimeForm selects the encoding of an instant.
type TimeForm int

const (
	UTCZ     TimeForm = iota // UTCTime, Z
	GenZ                     // GeneralizedTime, Z
	UTCPlus                  // UTCTime +0100
	UTCMinus                 // UTCTime -0500
	Auto                     // UTCTime for 1950..2049 else GeneralizedTime
)

func (f TimeForm) String() string {
	return [...]string{"UTCTime-Z", "GeneralizedTime-Z", "UTCTime+0100", "UTCTime-0500", "auto"}[f]
}

// EncodeTime encodes the instant t in the given form. Forms with an offset
// print the local wall clock of that zone so the instant is unchanged.
func EncodeTime(t time.Time, f TimeForm) *dt.Node {
	t = t.UTC()
	if f == Auto {
		if t.Year() >= 1950 && t.Year() < 2050 {
			f = UTCZ
		} else {
			f = GenZ
		}
	}
	if (f == UTCZ || f == UTCPlus || f == UTCMinus) && (t.Year() < 1950 || t.Year() >= 2050) {
		f = GenZ
	}
	switch f {
	case GenZ:
		// GeneralizedTime carries fractions of a second when the instant has them
		return dt.Prim(0, 24, []byte(t.Format("20060102150405.999999999Z")))
	case UTCPlus:
		l := t.Add(time.Hour)
		if l.Year() < 1950 || l.Year() >= 2050 {
			return dt.Prim(0, 24, []byte(t.Format("20060102150405Z")))
		}
		return dt.Prim(0, 23, []byte(l.Format("060102150405")+"+0100"))
	case UTCMinus:
		l := t.Add(-5 * time.Hour)
		if l.Year() < 1950 || l.Year() >= 2050 {
			return dt.Prim(0, 24, []byte(t.Format("20060102150405Z")))
		}
		return dt.Prim(0, 23, []byte(l.Format("060102150405")+"-0500"))
	default:
		return dt.Prim(0, 23, []byte(t.Format("060102150405Z")))
	}
}

// SetValidity rewrites notBefore / notAfter.
func (v *CertView) SetValidity(nb, na time.Time, f TimeForm) {
	v.Validity().Children = []*dt.Node{EncodeTime(nb, f), EncodeTime(na, f)}
}

// --- CRL -------------------------------------------------------------------------

type CRLView struct {
	Root *dt.Node
	TBS  *dt.Node
}

func ViewCRL(der []byte) (*CRLView, error) {
	root, err := dt.Parse(der)
	if err != nil {
		return nil, err
	}
	if !root.Constructed || len(root.Children) != 3 || !root.Children[0].Constructed {
		return nil, errShape
	}
	v := &CRLView{Root: root, TBS: root.Children[0]}
	if len(v.TBS.Children) < v.base()+3 {
		return nil, errShape
	}
	return v, nil
}

func (v *CRLView) DER() []byte { return v.Root.Encode() }

func (v *CRLView) base() int {
	if len(v.TBS.Children) > 0 && v.TBS.Children[0].Class == 0 && v.TBS.Children[0].Tag == 2 {
		return 1
	}
	return 0
}

func isTime(n *dt.Node) bool { return n.Class == 0 && (n.Tag == 23 || n.Tag == 24) && n.IsLeaf() }

func (v *CRLView) ThisUpdateIdx() int { return v.base() + 2 }

// NextUpdateIdx returns the index of nextUpdate or -1.
func (v *CRLView) NextUpdateIdx() int {
	i := v.base() + 3
	if i < len(v.TBS.Children) && isTime(v.TBS.Children[i]) {
		return i
	}
	return -1
}

func (v *CRLView) SetThisUpdate(t time.Time, f TimeForm) {
	v.TBS.Children[v.ThisUpdateIdx()] = EncodeTime(t, f)
}

func (v *CRLView) SetNextUpdate(t time.Time, f TimeForm) {
	if i := v.NextUpdateIdx(); i >= 0 {
		v.TBS.Children[i] = EncodeTime(t, f)
		return
	}
	i := v.base() + 3
	ch := append([]*dt.Node{}, v.TBS.Children[:i]...)
	ch = append(ch, EncodeTime(t, f))
	ch = append(ch, v.TBS.Children[i:]...)
	v.TBS.Children = ch
}

func (v *CRLView) Extensions() *dt.Node {
	for _, c := range v.TBS.Children {
		if c.Class == 2 && c.Tag == 0 && c.Constructed && len(c.Children) == 1 && c.Children[0].Constructed {
			return c.Children[0]
		}
	}
	return nil
}

// Revoked returns the revokedCertificates SEQUENCE or nil.
func (v *CRLView) Revoked() *dt.Node {
	i := v.base() + 3
	if v.NextUpdateIdx() >= 0 {
		i++
	}
	if i < len(v.TBS.Children) && v.TBS.Children[i].Class == 0 && v.TBS.Children[i].Tag == 16 {
		return v.TBS.Children[i]
	}
	return nil
}

// --- OCSP ------------------------------------------------------------------------

// OCSPView addresses the BasicOCSPResponse inside an OCSPResponse.
type OCSPView struct {
	Root  *dt.Node
	Basic *dt.Node // BasicOCSPResponse SEQUENCE
	TBS   *dt.Node // ResponseData
}

func ViewOCSP(der []byte) (*OCSPView, error) {
	root, err := dt.Parse(der)
	if err != nil {
		return nil, err
	}
	if len(root.Children) != 2 || len(root.Children[1].Children) != 1 {
		return nil, errShape
	}
	rb := root.Children[1].Children[0]
	if len(rb.Children) != 2 || !rb.Children[1].Wrapped {
		return nil, errShape
	}
	basic := rb.Children[1].Children[0]
	if len(basic.Children) < 3 || !basic.Children[0].Constructed {
		return nil, errShape
	}
	return &OCSPView{Root: root, Basic: basic, TBS: basic.Children[0]}, nil
}

func (v *OCSPView) DER() []byte { return v.Root.Encode() }

// Singles returns the SingleResponse nodes.
func (v *OCSPView) Singles() []*dt.Node {
	for _, c := range v.TBS.Children {
		if c.Class == 0 && c.Tag == 16 && c.Constructed {
			return c.Children
		}
	}
	return nil
}

// ProducedAtIdx returns the index of producedAt in ResponseData.
func (v *OCSPView) ProducedAtIdx() int {
	for i, c := range v.TBS.Children {
		if isTime(c) {
			return i
		}
	}
	return -1
}

// SetSingleTimes rewrites thisUpdate and nextUpdate (nil = absent) of the
// first SingleResponse.
func (v *OCSPView) SetSingleTimes(this time.Time, next *time.Time) error {
	ss := v.Singles()
	if len(ss) == 0 {
		return errShape
	}
	s := ss[0]
	var out []*dt.Node
	done := false
	for _, c := range s.Children {
		switch {
		case isTime(c) && !done:
			out = append(out, dt.Prim(0, 24, []byte(this.UTC().Format("20060102150405Z"))))
			if next != nil {
				out = append(out, dt.Cons(2, 0, dt.Prim(0, 24, []byte(next.UTC().Format("20060102150405.999999999Z")))))
			}
			done = true
		case c.Class == 2 && c.Tag == 0 && c.Constructed && done:
			// old nextUpdate: dropped
		default:
			out = append(out, c)
		}
	}
	if !done {
		return fmt.Errorf("gen: no thisUpdate in SingleResponse")
	}
	s.Children = out
	return nil
}
