package gen

import (
	"fmt"
	"net"
	"strings"

	"pgregory.net/rapid"

	dt "verifharness/dertree"
)

// GN dictionaries: compliant, non-compliant and unparseable entries of every arm.
var (
	DNSDict = []string{"example.com", "www.example.com", "a_b.com", "_x.example.com", "x_y.z.example.com", "localhost", "-a.com", "a-.com", "ab--cd.com", "xn--a-0ga.com",
		"*.com", "*.example.com", "x.*.example.com", "*.*.example.com", "EXAMPLE.com", "", " ", "example.invalidtld", "xn--zz--.com", "1.2.3.4", "a..b.com", "a.b.c.d.example.org",
		"foo.onion", strings.Repeat("a", 64) + ".com", "example.com.", "*.co.uk", "\xc3\xa9xample.com", "a b.com", "mail.example.net", "test.local", "www.example.test", "*.a_b.com",
		"a.-b.example.com", "1.0.0.127.in-addr.arpa", "example.arpa", "xn--80ak6aa92e.com", "*", ".", "com", "a.b-.com", "_.example.com", "x--y.example.com", "example.co.uk", "www.example.co.uk", "bad_tld._x"}
	// MoreDNS: names whose judgement interacts with other entries or with the common name -
	// letter-case variants, reverse-DNS names of both families (reserved, public, malformed),
	// onion names, IDN forms, TLD edge cases.
	MoreDNS = []string{"Example.com", "example.COM", "WWW.example.com", "www.Example.com", "Mail.Example.Net",
		"1.0.0.10.in-addr.arpa", "1.1.168.192.in-addr.arpa", "8.8.8.8.in-addr.arpa", "4.3.2.1.in-addr.arpa", "1.2.3.in-addr.arpa", "x.y.z.w.in-addr.arpa", "256.1.1.1.in-addr.arpa", "1.0.0.224.in-addr.arpa",
		"1.0.0.0.0.0.0.0.0.0.0.0.0.0.0.0.0.0.0.0.0.0.0.0.0.0.0.0.0.0.0.0.ip6.arpa", "8.8.8.8.0.0.0.0.0.0.0.0.0.0.0.0.0.0.0.0.0.6.8.4.0.6.8.4.1.0.0.2.ip6.arpa",
		"1.0.0.0.0.0.0.0.0.0.0.0.0.0.0.0.0.0.0.0.0.0.0.0.8.b.d.0.1.0.0.2.ip6.arpa", "1.0.0.0.0.0.0.0.0.0.0.0.0.0.0.0.0.0.0.0.0.0.0.0.0.0.0.0.0.8.e.f.ip6.arpa", "b.a.9.8.ip6.arpa", "g.0.0.0.0.0.0.0.0.0.0.0.0.0.0.0.0.0.0.0.0.0.0.0.0.0.0.0.0.0.0.0.ip6.arpa",
		"facebookcorewwwi.onion", "pg6mmjiyjmcrsslvykfwnntlaru7p5svn6y2ymmju6nubxndf4pscryd.onion", "www.pg6mmjiyjmcrsslvykfwnntlaru7p5svn6y2ymmju6nubxndf4pscryd.onion", "*.facebookcorewwwi.onion", "short.onion",
		"xn--mnchen-3ya.de", "xn--bcher-kva.example", "xn--example-tge.com", "www.xn--cafe-yvc.example.com", "xn--j-kcb.example.com", "xn--J-kcb.example.com",
		strings.Repeat("a.", 130) + "example.com", strings.Repeat("a.", 130) + ".example.com", strings.Repeat("a.", 140) + "com.", strings.Repeat("a.", 126) + "b..com", strings.Repeat("a.", 127) + "b..com", "xn--.com", "XN--MNCHEN-3YA.de", "a.xn--zz.com", "example.de", "example.zuerich", "example.co", "example.cm", "*.example.de", "www.example.org", "org",
		"example.com..", "..", "a.com.", "a_b.example.de", "-x.example.de", "x-.example.de", "9.example.com", "1.2.3.4.5", "a.1", "example.c0m", "*.xn--mnchen-3ya.de", "*a.example.com", "a*.example.com", "*.*", "www.*.com"}
	EmailDict = []string{"a@b.com", "user@example.com", "bad", "a@b@c", "", "A <a@b.com>", "a@localhost", "a@[1.2.3.4]", " a@b.com", "a@b.com ", "\xc3\xa9@b.com", "a@a_b.com"}
	URIDict   = []string{"http://example.com/", "https://example.com/x?y", "urn:x:y", "http://[::1]/", "http://[2001:db8::1]:80/x", "ldap://ldap.example.com/cn=x", "//x", "", "http://", "mailto:a@b.com",
		"http://localhost/", "http://10.0.0.1/", "http://example/", "http://a b/", "example.com", "http://example.com:8080/", "http://user@example.com/", "http://localhost:80/", "https://intranet:8443/ca.crt", "http://example.com:/", "http://[::1]:443/", "http://1.2.3.4:80/", "http://a_b:1/x", "http://user:pw@host:99/", "HTTP://EXAMPLE.COM/", "http://a_b.com/", "ftp://ftp.example.com/f", ":", "http://%zz/"}
	IPDict = [][]byte{{8, 8, 8, 8}, {10, 0, 0, 1}, {127, 0, 0, 1}, {192, 168, 1, 1}, {1, 2, 3, 4}, {0, 0, 0, 0}, {255, 255, 255, 255},
		{0x20, 0x01, 0x48, 0x60, 0x48, 0x60, 0, 0, 0, 0, 0, 0, 0, 0, 0x88, 0x88}, {0, 0, 0, 0, 0, 0, 0, 0, 0, 0, 0, 0, 0, 0, 0, 1}, {1, 2, 3}, {1, 2, 3, 4, 5}, {},
		{0, 0, 0, 0, 0, 0, 0, 0, 0, 0, 0xff, 0xff, 10, 0, 0, 1}, {0xfe, 0x80, 0, 0, 0, 0, 0, 0, 0, 0, 0, 0, 0, 0, 0, 1}}
)

// DrawGN draws one GeneralName of any arm.
func DrawGN(t *rapid.T) (*dt.Node, string) {
	switch rapid.IntRange(0, 19).Draw(t, "gnarm") {
	case 0, 1, 2, 3, 4, 5, 6, 7, 8:
		pool := DNSPool()
		s := pool[rapid.IntRange(0, len(pool)-1).Draw(t, "dns")]
		return GNDNS([]byte(s)), "dns:" + s
	case 9, 10:
		s := EmailDict[rapid.IntRange(0, len(EmailDict)-1).Draw(t, "email")]
		return GNEmail([]byte(s)), "email:" + s
	case 11, 12, 13:
		s, _ := DrawURI(t)
		return GNURI([]byte(s)), "uri:" + s
	case 14, 15:
		b := IPDict[rapid.IntRange(0, len(IPDict)-1).Draw(t, "ip")]
		return GNIP(b), "ip"
	case 16:
		return GNDirName(simpleName("dir")), "dirName"
	case 17:
		if rapid.Bool().Draw(t, "smtputf8") {
			return GNOther([]int{1, 3, 6, 1, 5, 5, 7, 8, 9}, dt.Prim(0, 12, []byte("u\xc3\xa9@example.com"))), "other:smtpUTF8"
		}
		return GNOther([]int{1, 3, 6, 1, 4, 1, 311, 20, 2, 3}, dt.Prim(0, 12, []byte("upn@example.com"))), "other:upn"
	case 18:
		return GNRegID([]int{1, 2, 3, 4}), "regID"
	default:
		d := LoadDonors()
		if len(d.GNs) == 0 {
			return GNDNS([]byte("example.org")), "dns:example.org"
		}
		return d.GNs[rapid.IntRange(0, len(d.GNs)-1).Draw(t, "donor")].Clone(), "donor"
	}
}

// DrawPerm draws a non-identity-biased permutation of n elements.
func DrawPerm(t *rapid.T, n int) []int {
	p := make([]int, n)
	for i := range p {
		p[i] = i
	}
	switch rapid.IntRange(0, 3).Draw(t, "permkind") {
	case 0: // adjacent transposition
		if n > 1 {
			i := rapid.IntRange(0, n-2).Draw(t, "i")
			p[i], p[i+1] = p[i+1], p[i]
		}
	case 1: // reverse
		for i, j := 0, n-1; i < j; i, j = i+1, j-1 {
			p[i], p[j] = p[j], p[i]
		}
	case 2: // rotation
		if n > 1 {
			k := rapid.IntRange(1, n-1).Draw(t, "rot")
			q := append(append([]int{}, p[k:]...), p[:k]...)
			copy(p, q)
		}
	default: // Fisher-Yates
		for i := n - 1; i > 0; i-- {
			j := rapid.IntRange(0, i).Draw(t, "j")
			p[i], p[j] = p[j], p[i]
		}
	}
	return p
}

// DrawURI draws a URI: half from the dictionary, half from a small grammar
// scheme "://" [userinfo "@"] host [":" port] path, with hosts of every kind.
func DrawURI(t *rapid.T) (string, string) {
	if rapid.Bool().Draw(t, "uridict") {
		s := URIDict[rapid.IntRange(0, len(URIDict)-1).Draw(t, "uri")]
		return s, "dict"
	}
	scheme := rapid.SampledFrom([]string{"http", "https", "ldap", "ftp", "HTTP", "x-y.z"}).Draw(t, "scheme")
	user := rapid.SampledFrom([]string{"", "", "", "user@", "u:p@", "@"}).Draw(t, "userinfo")
	host := rapid.SampledFrom([]string{"example.com", "www.example.co.uk", "localhost", "intranet", "a_b.example.com", "1.2.3.4", "10.0.0.1", "[::1]", "[2001:db8::1]",
		"", "*.example.com", "*", "example.com.", "EXAMPLE.COM", "xn--bcher-kva.example", "-a.com", "exa mple.com", "host.invalidtld", "a..b", "999.1.1.1"}).Draw(t, "host")
	port := rapid.SampledFrom([]string{"", "", "", ":80", ":8443", ":", ":0", ":99999", ":x"}).Draw(t, "port")
	path := rapid.SampledFrom([]string{"", "/", "/ca.crt", "/a?b=c#d", "?q", "#f"}).Draw(t, "path")
	return scheme + "://" + user + host + port + path, "grammar"
}

// DNSPool is DNSDict followed by MoreDNS and DerivedDNS.
func DNSPool() []string {
	return append(append(append([]string{}, DNSDict...), MoreDNS...), DerivedDNS()...)
}

// DerivedDNS: names computed from others. (1) Reverse-DNS names of addresses of every class under both zones -
// public, private, loopback, unspecified, IPv4-mapped / NAT64 / 6to4 / ISATAP forms that embed a public or a
// private IPv4 address - and their malformed neighbours (wrong label count, labels that are no octet / nibble,
// address text of the other family inside a label, upper-case zone, trailing dot). (2) Textual relatives of names
// with a valid TLD: the same characters with a label boundary moved, dropped or added, and last labels that
// merely begin or end with a valid TLD - whatever compares names by prefix or suffix meets its look-alikes.
func DerivedDNS() []string {
	var out []string
	rev6 := func(ip net.IP) string {
		ip = ip.To16()
		var ls []string
		for i := 15; i >= 0; i-- {
			ls = append(ls, fmt.Sprintf("%x", ip[i]&0xf), fmt.Sprintf("%x", ip[i]>>4))
		}
		return strings.Join(ls, ".") + ".ip6.arpa"
	}
	for _, a := range []string{"::ffff:8.8.8.8", "::ffff:10.0.0.1", "::", "fd00::1", "64:ff9b::808:808", "64:ff9b::a00:1", "2002:808:808::1", "2002:a00:1::1", "2001:db8::200:5efe:808:808", "fd00::5efe:808:808",
		"2001:4860:4860::5efe:a00:1", "2606:4700:4700::1111", "ff02::1", "2001::1", "100::1"} {
		if ip := net.ParseIP(a); ip != nil {
			out = append(out, rev6(ip))
		}
	}
	good6 := rev6(net.ParseIP("2001:4860:4860::8844"))
	out = append(out, "0."+good6, good6[2:], strings.ToUpper(good6), good6+".", "ff"+good6[1:], strings.Replace(good6, ".ip6.arpa", ".in-addr.arpa", 1),
		"255.255.255.255.in-addr.arpa", "0.0.0.0.in-addr.arpa", "8.8.8.::8.in-addr.arpa", "8.8.8.::ffff:8.in-addr.arpa", "08.08.08.08.in-addr.arpa", "0x8.8.8.8.in-addr.arpa", "8.8.8.8.8.in-addr.arpa",
		"8.8.8.8.IN-ADDR.ARPA", "8.8.8.8.in-addr.arpa.", "8.8.8.8.ip6.arpa", "1.1.1.1.in-addr.arpa", "1.0.168.192.in-addr.arpa", "1.0.0.169.in-addr.arpa", "254.169.in-addr.arpa", "in-addr.arpa", "ip6.arpa", "8.8.8.8.in-addr.arpa.example.com")
	for _, base := range []string{"www.example.net", "example.com", "shop.example.org", "example.me", "example.us"} {
		i := strings.LastIndex(base, ".")
		host, tld := base[:i], base[i+1:]
		out = append(out, host+".intra"+tld, host+"."+tld+"work", host+tld, host+".x"+tld, host+"."+tld+"."+tld, host+"-"+tld, strings.Replace(host, ".", "", -1)+"."+tld, host+"."+tld+"x.invalid", "x"+host+"."+tld)
	}
	out = append(out, "fileserver.intranet", "printer.local", "db.internal", "nas.home", "host.localnet", "portal.corp", "www.example.airbus", "www.example.notcom")
	return out
}

// GNPool is a fixed list of GeneralNames of every arm (with a description each), for
// enumerated order sweeps.
func GNPool() ([]*dt.Node, []string) {
	var ns []*dt.Node
	var ds []string
	for _, s := range DNSPool() {
		ns, ds = append(ns, GNDNS([]byte(s))), append(ds, "dns:"+s)
	}
	for _, s := range EmailDict {
		ns, ds = append(ns, GNEmail([]byte(s))), append(ds, "email:"+s)
	}
	for _, s := range URIDict {
		ns, ds = append(ns, GNURI([]byte(s))), append(ds, "uri:"+s)
	}
	for _, b := range IPDict {
		ns, ds = append(ns, GNIP(b)), append(ds, fmt.Sprintf("ip:%x", b))
	}
	ns, ds = append(ns, GNDirName(simpleName("dir"))), append(ds, "dirName")
	ns, ds = append(ns, GNOther([]int{1, 3, 6, 1, 5, 5, 7, 8, 9}, dt.Prim(0, 12, []byte("u\xc3\xa9@example.com")))), append(ds, "other:smtpUTF8")
	ns, ds = append(ns, GNRegID([]int{1, 2, 3, 4})), append(ds, "regID")
	return ns, ds
}
