package props

import (
	"crypto/rsa"
	"encoding/json"
	"fmt"
	"math/big"
	"os"
	"path/filepath"
	"sort"
	"strings"
	"sync"
	"testing"
	"time"

	toml "github.com/pelletier/go-toml"
	"github.com/zmap/zcrypto/x509"
	"github.com/zmap/zlint/v3/lint"
	"pgregory.net/rapid"

	"verifharness/engine"
	"verifharness/gen"
	"verifharness/model"
	"verifharness/stats"
)

type c11Case struct {
	Kind   gen.Kind               `json:"kind"`
	DER    []byte                 `json:"der"`
	Base   string                 `json:"base,omitempty"`
	Mode   string                 `json:"mode"` // equiv | example | option | illtyped
	TOML   string                 `json:"toml"`
	Target string                 `json:"target,omitempty"`
	Shape  string                 `json:"shape,omitempty"`
	Vals   map[string]interface{} `json:"vals,omitempty"`
}

func lintWith(k gen.Kind, der []byte, cfg *string) (map[string]model.Verdict, *engine.Run) {
	r := engine.Execute(engine.Case{Kind: k, DER: der, Config: cfg}, false)
	return engine.Verdicts(r.RS), r
}

// fermatModel: own implementation of "found within r rounds".
func fermatModel(n *big.Int, rounds int) bool {
	a := new(big.Int).Sqrt(n)
	a.Add(a, big.NewInt(1))
	for i := 0; i < rounds; i++ {
		b2 := new(big.Int).Mul(a, a)
		b2.Sub(b2, n)
		s := new(big.Int).Sqrt(b2)
		if new(big.Int).Mul(s, s).Cmp(b2) == 0 {
			return true
		}
		a.Add(a, big.NewInt(1))
	}
	return false
}

// optionModel predicts the target lint's status under well-typed options from
// the statement of each option; ok=false when no model is known for it.
func optionModel(target string, vals map[string]interface{}, run *engine.Run, base model.Verdict) (want lint.LintStatus, ok bool) {
	if base.Status == lint.NA || base.Status == lint.NE {
		return base.Status, true // options do not change scope, applicability or window
	}
	asBool := func(k string) (bool, bool) {
		v, present := vals[k]
		if !present {
			return false, false
		}
		b, isB := v.(bool)
		return b, isB
	}
	switch target {
	case "e_subj_contains_html_entities":
		if b, p := asBool("Skip"); p && b {
			return lint.Pass, true
		}
		return base.Status, true
	case "e_subj_orgunit_in_ca_cert":
		if b, p := asBool("CrossCert"); p && b {
			return lint.Pass, true
		}
		return base.Status, true
	case "e_crl_next_update_invalid":
		b, p := asBool("SubscriberCRL")
		if !p || b {
			return base.Status, true
		}
		if run.CRL == nil {
			return 0, false
		}
		lim := run.CRL.ThisUpdate.AddDate(0, 12, 0)
		if run.CRL.NextUpdate.Unix() > lim.Unix() || (run.CRL.NextUpdate.Unix() == lim.Unix() && run.CRL.NextUpdate.Nanosecond() > lim.Nanosecond()) {
			return lint.Error, true
		}
		return lint.Pass, true
	case "e_rsa_fermat_factorization":
		v, p := vals["Rounds"]
		if !p {
			return base.Status, true
		}
		var r int
		switch x := v.(type) {
		case int:
			r = x
		case float64:
			r = int(x)
		default:
			return 0, false
		}
		if run.Cert == nil {
			return 0, false
		}
		pk, isRSA := run.Cert.PublicKey.(*rsa.PublicKey)
		if !isRSA || pk.N.Sign() <= 0 {
			return 0, false
		}
		if fermatModel(pk.N, r) {
			return lint.Error, true
		}
		return lint.Pass, true
	}
	return 0, false
}

func judgeC11(rec *stats.Rec, c c11Case) (string, string) {
	return apiGuard(func() (string, string) { return judgeC11Inner(rec, c) })
}

// sameLengthTwin flips a boolean option of the document into a document of equal length (true <-> fals, padded).
func sameLengthTwin(doc string) string {
	switch {
	case strings.Contains(doc, "= true\n"):
		return strings.Replace(doc, "= true\n", "=false\n", 1)
	case strings.Contains(doc, "= false\n"):
		return strings.Replace(doc, "= false\n", "=  true\n", 1)
	case strings.Contains(doc, "Rounds = 0\n"):
		return strings.Replace(doc, "Rounds = 0\n", "Rounds = 9\n", 1)
	}
	return ""
}

// judgeLoaders: the document means the same from a string, a reader and a file.
func judgeLoaders(rec *stats.Rec, c c11Case) (string, string) {
	tdir, err := os.MkdirTemp("", "verif-c11-")
	if err != nil {
		return "", ""
	}
	defer os.RemoveAll(tdir)
	fp := filepath.Join(tdir, "config.toml")
	if os.WriteFile(fp, []byte(c.TOML), 0o644) != nil {
		return "", ""
	}
	// the path has a history: an earlier document of the same length, same modification time, other meaning
	if prev := sameLengthTwin(c.TOML); prev != "" {
		if os.WriteFile(fp, []byte(prev), 0o644) == nil {
			if st, err := os.Stat(fp); err == nil {
				_, _ = lint.NewConfigFromFile(fp)
				_ = os.WriteFile(fp, []byte(c.TOML), 0o644)
				_ = os.Chtimes(fp, st.ModTime(), st.ModTime())
			}
		}
	}
	cs, e1 := lint.NewConfigFromString(c.TOML)
	cf, e2 := lint.NewConfigFromFile(fp)
	cr, e3 := lint.NewConfig(strings.NewReader(c.TOML))
	if e1 != nil || e2 != nil || e3 != nil {
		if (e1 == nil) != (e2 == nil) || (e1 == nil) != (e3 == nil) {
			return "loaders-disagree|error", fmt.Sprintf("%d-byte document: string loader err=%v, file loader err=%v, reader err=%v", len(c.TOML), e1, e2, e3)
		}
		return "", ""
	}
	var first map[string]model.Verdict
	for li, cfg := range []lint.Configuration{cs, cf, cr} {
		reg, err := lint.GlobalRegistry().Filter(lint.FilterOptions{ExcludeNames: []string{"e_ca_country_name_missing"}})
		if err != nil {
			return "", ""
		}
		reg.SetConfiguration(cfg)
		f, ok := lintObj(c.Kind, c.DER)
		if !ok {
			return "", ""
		}
		v := engine.Verdicts(f(reg))
		if li == 0 {
			first = v
			continue
		}
		names := make([]string, 0, len(first))
		for n := range first {
			names = append(names, n)
		}
		sort.Strings(names)
		for _, n := range names {
			if v[n] != first[n] {
				return "loaders-disagree|" + n, fmt.Sprintf("%d-byte document (%s, then the [%s] section): %s is %s when loaded from a string, %s from %s", len(c.TOML), c.Shape, c.Target, n, first[n], v[n], []string{"", "a file", "a reader"}[li])
			}
		}
	}
	return "", ""
}

func judgeC11Inner(rec *stats.Rec, c c11Case) (string, string) {
	if c.Mode == "loader" {
		return judgeLoaders(rec, c)
	}
	baseV, baseRun := lintWith(c.Kind, c.DER, nil)
	if !baseRun.Parsed {
		rec.Class("parse_rejected")
		return "", ""
	}
	if baseRun.Panic != "" || baseRun.RS == nil {
		rec.Class("void")
		return "", ""
	}
	if _, err := lint.NewConfigFromString(c.TOML); err != nil {
		rec.Class("toml_rejected")
		return "", ""
	}
	v, run := lintWith(c.Kind, c.DER, &c.TOML)
	if run.Panic != "" {
		return "panic|" + c.Mode + "|" + model.TopZlintFrame(run.Stack), "linting under this configuration panics: " + run.Panic
	}
	names := make([]string, 0, len(baseV))
	for n := range baseV {
		names = append(names, n)
	}
	sort.Strings(names)
	same := func(except string) (string, string) {
		for _, n := range names {
			if n == except {
				continue
			}
			if baseV[n] != v[n] {
				return n, fmt.Sprintf("%s: without configuration %s, with it %s", n, baseV[n], v[n])
			}
		}
		return "", ""
	}
	switch c.Mode {
	case "equiv", "example":
		if n, msg := same(""); msg != "" {
			return c.Mode + "-changes-verdict|" + n, msg
		}
	case "option":
		if n, msg := same(c.Target); msg != "" {
			return "option-affects-other-lint|" + c.Target + "|" + n, msg
		}
		if tv, ok := v[c.Target]; ok {
			if engine.IsPanicReport(c.Target, tv) {
				return "panic|option|" + c.Target, tv.Details
			}
			want, known := optionModel(c.Target, c.Vals, run, baseV[c.Target])
			if known && tv.Status != want {
				return "option-not-applied|" + c.Target, fmt.Sprintf("with %v the lint reports %s, the option's meaning gives %s (default behaviour: %s)", c.Vals, tv.Status, want, baseV[c.Target].Status)
			}
			if known && tv.Status != baseV[c.Target].Status {
				rec.Class("option_changed_target")
			}
			rec.Class("option_model_" + map[bool]string{true: "known", false: "unknown"}[known])
		}
	case "illtyped":
		if n, msg := same(c.Target); msg != "" {
			return "illtyped-affects-other-lint|" + c.Target + "|" + n, msg
		}
		tv, ok := v[c.Target]
		if !ok {
			break // target is of another kind than the object
		}
		if engine.IsPanicReport(c.Target, tv) {
			return "illtyped-panics|" + c.Target + "|" + c.Shape, "configuration error surfaces as a recovered panic: " + tv.Details
		}
		outOfScope := false
		if c.Kind == gen.Cert {
			outOfScope = !model.InScope(run.Metas[c.Target].Source, run.Cert)
		}
		if outOfScope {
			if tv.Status != lint.NA {
				return "illtyped-out-of-scope|" + c.Target, fmt.Sprintf("out-of-scope certificate got %s", tv.Status)
			}
			rec.Class("illtyped_out_of_scope")
			break
		}
		if tv.Status != lint.Fatal {
			return "illtyped-not-fatal|" + c.Target + "|" + c.Shape, fmt.Sprintf("section %q cannot be applied but the lint reports %s", short(c.TOML, 80), tv)
		}
		if !strings.Contains(tv.Details, c.Target) {
			return "illtyped-message|" + c.Target, "fatal details do not name the lint: " + tv.Details
		}
		rec.Class("illtyped_fatal")
	}
	return "", ""
}

func configTargetsObjects() map[string][]gen.Obj {
	hm := homeObjects()
	out := map[string][]gen.Obj{}
	for _, ci := range engine.Configurables() {
		objs := kindObjs(ci.Kind)
		for _, i := range hm[ci.Name] {
			out[ci.Name] = append(out[ci.Name], objs[i])
		}
	}
	return out
}

// altDocs: for each configurable lint of today, a configuration that changes
// its behaviour on some objects.
var altDocs = map[string]string{
	"e_subj_contains_html_entities": "[e_subj_contains_html_entities]\nSkip = true\n",
	"e_subj_orgunit_in_ca_cert":     "[e_subj_orgunit_in_ca_cert]\nCrossCert = true\n",
	"e_crl_next_update_invalid":     "[e_crl_next_update_invalid]\nSubscriberCRL = false\n",
	"e_rsa_fermat_factorization":    "[e_rsa_fermat_factorization]\nRounds = 0\n",
}

var (
	sensOnce sync.Once
	sensObjs map[string][]gen.Obj
)

// sensitiveObjects: home objects of the configurable lints whose verdict
// actually differs between the default and the alternative configuration
// (computed from the current tree; plus built CRLs with a long validity).
func sensitiveObjects() map[string][]gen.Obj {
	sensOnce.Do(func() {
		sensObjs = map[string][]gen.Obj{}
		tg := configTargetsObjects()
		// built CRLs: nextUpdate 100 days after thisUpdate is an error for subscriber CRLs only
		this := time.Date(2024, 1, 1, 0, 0, 0, 0, time.UTC)
		next := this.Add(100 * 24 * time.Hour)
		num := int64(1)
		tg["e_crl_next_update_invalid"] = append(tg["e_crl_next_update_invalid"], gen.Obj{Name: "built-crl-100d", Kind: gen.CRL,
			DER: gen.BuildCRL(gen.CRLSpec{V2: true, ThisUpdate: this, NextUpdate: &next, CRLNumber: &num, AKI: true})})
		for name, doc := range altDocs {
			d := doc
			for _, o := range tg[name] {
				a, ra := lintWith(o.Kind, o.DER, nil)
				b, rb := lintWith(o.Kind, o.DER, &d)
				if ra.RS == nil || rb.RS == nil {
					continue
				}
				if a[name].Status != b[name].Status {
					sensObjs[name] = append(sensObjs[name], o)
				}
			}
		}
	})
	return sensObjs
}

// ---- configuration histories (replayable) -----------------------------------

type c11Op struct {
	Op    string `json:"op"` // set | filter | lint
	Reg   int    `json:"reg"`
	Doc   string `json:"doc,omitempty"`
	Alias bool   `json:"alias,omitempty"` // filter with empty options (returns the registry itself)
	Ex    string `json:"exclude,omitempty"`
	// Spec: non-empty options that happen to select every lint (a new registry all the same)
	Spec    *engine.FilterSpec `json:"spec,omitempty"`
	ObjKind gen.Kind           `json:"obj_kind,omitempty"`
	ObjDER  []byte             `json:"obj_der,omitempty"`
	ObjName string             `json:"obj_name,omitempty"`
}

type c11HistoryCase struct {
	Ops []c11Op `json:"ops"`
}

type c11RegState struct {
	reg lint.Registry
	cfg string // TOML the model says this registry holds
	id  int    // alias class
}

type c11History struct {
	regs []*c11RegState
	ops  []c11Op
	old  lint.Configuration
}

func newC11History() *c11History {
	g := lint.GlobalRegistry()
	h := &c11History{old: g.GetConfiguration()}
	g.SetConfiguration(lint.NewEmptyConfig())
	h.regs = []*c11RegState{{reg: g, cfg: "", id: 0}}
	return h
}

func (h *c11History) close() { lint.GlobalRegistry().SetConfiguration(h.old) }

func (h *c11History) text() []string {
	var out []string
	for _, o := range h.ops {
		switch o.Op {
		case "set":
			out = append(out, fmt.Sprintf("set(%d,%q)", o.Reg, short(o.Doc, 30)))
		case "filter":
			if o.Spec != nil {
				b, _ := json.Marshal(o.Spec)
				out = append(out, fmt.Sprintf("filter(%d,%s)", o.Reg, b))
			} else {
				out = append(out, fmt.Sprintf("filter(%d,alias=%v,exclude=%s)", o.Reg, o.Alias, o.Ex))
			}
		default:
			out = append(out, fmt.Sprintf("lint(%d,%s)", o.Reg, o.ObjName))
		}
	}
	return out
}

// step applies one operation to the implementation and to the model and, for
// lint operations, compares every verdict with the prediction from the
// configuration the model says that registry holds.
func (h *c11History) step(op c11Op) (sig, msg string, skipped bool) {
	sig, msg = apiGuard(func() (string, string) {
		s, m, sk := h.stepInner(op)
		skipped = sk
		return s, m
	})
	return
}

func (h *c11History) stepInner(op c11Op) (sig, msg string, skipped bool) {
	if op.Reg < 0 || op.Reg >= len(h.regs) {
		return "", "", true
	}
	r := h.regs[op.Reg]
	switch op.Op {
	case "set":
		cfg, err := lint.NewConfigFromString(op.Doc)
		if err != nil {
			return "", "", true
		}
		r.reg.SetConfiguration(cfg)
		for _, x := range h.regs {
			if x.id == r.id {
				x.cfg = op.Doc
			}
		}
	case "filter":
		var fs engine.FilterSpec
		if op.Spec != nil {
			fs = *op.Spec
		} else if !op.Alias {
			fs = engine.FilterSpec{ExcludeNames: []string{op.Ex}}
		}
		o, ferr := fs.Options()
		if ferr != nil {
			return "", "", true
		}
		nr, err := r.reg.Filter(o)
		if err != nil {
			return "", "", true
		}
		id := len(h.regs)
		if op.Alias {
			id = r.id // Filter with empty options returns the registry itself (documented)
		}
		h.regs = append(h.regs, &c11RegState{reg: nr, cfg: r.cfg, id: id})
	case "lint":
		f, ok := lintObj(op.ObjKind, op.ObjDER)
		if !ok {
			return "", "", true
		}
		h.ops = append(h.ops, op)
		got := engine.Verdicts(f(r.reg))
		mcfg, _ := lint.NewConfigFromString(r.cfg)
		exp := map[string]model.Expected{}
		switch op.ObjKind {
		case gen.Cert:
			c2, _ := gen.ParseCert(op.ObjDER)
			for _, l := range r.reg.CertificateLints().Lints() {
				exp[l.Name] = model.ExpectCert(l, c2, mcfg)
			}
		case gen.CRL:
			c2, _ := gen.ParseCRL(op.ObjDER)
			for _, l := range r.reg.RevocationListLints().Lints() {
				exp[l.Name] = model.ExpectCRL(l, c2, mcfg)
			}
		}
		names := make([]string, 0, len(exp))
		for n := range exp {
			names = append(names, n)
		}
		sort.Strings(names)
		for _, n := range names {
			if e := exp[n]; got[n].Status != e.V.Status {
				return "config-leak|" + n, fmt.Sprintf("after %v: %s reports %s, the configuration this registry holds (%q) predicts %s", h.text(), n, got[n], r.cfg, e.V), false
			}
		}
		return "", "", false
	}
	h.ops = append(h.ops, op)
	return "", "", false
}

func TestC11(t *testing.T) {
	rec := newRec(t, "C11")
	cis := engine.Configurables()
	// the option models below are keyed by lint name: say in the evidence which configurable lints they cover, and
	// which of their keys name no configurable lint of this tree (a renamed lint must not silently lose its model)
	{
		known := map[string]bool{}
		for _, ci := range cis {
			known[ci.Name] = true
			if altDocs[ci.Name] == "" {
				rec.Class("configurable_without_option_model:" + ci.Name)
			} else {
				rec.Class("configurable_with_option_model:" + ci.Name)
			}
		}
		for n := range altDocs {
			if !known[n] {
				rec.Class("option_model_for_unknown_lint:" + n)
			}
		}
	}
	// (b) example configuration: valid TOML, a table per configurable lint
	ex, err := lint.GlobalRegistry().DefaultConfiguration()
	rec.Eval()
	if err != nil {
		if rec.Report("c11", "example-error", err.Error(), c11Case{Mode: "example"}) {
			t.Errorf("DefaultConfiguration: %v", err)
		}
	} else {
		tree, perr := toml.LoadBytes(ex)
		if perr != nil {
			if rec.Report("c11", "example-invalid-toml", perr.Error(), c11Case{Mode: "example", TOML: string(ex)}) {
				t.Errorf("example configuration is not valid TOML: %v", perr)
			}
		} else {
			for _, ci := range cis {
				if _, ok := tree.Get(ci.Name).(*toml.Tree); !ok {
					if rec.Report("c11", "example-missing-section|"+ci.Name, "example configuration lacks a table for a configurable lint", c11Case{Mode: "example", Target: ci.Name}) {
						t.Errorf("example configuration lacks [%s]", ci.Name)
					}
				}
			}
		}
		if _, cerr := lint.NewConfigFromString(string(ex)); cerr != nil {
			if rec.Report("c11", "example-unloadable", cerr.Error(), c11Case{Mode: "example", TOML: string(ex)}) {
				t.Errorf("example configuration cannot be loaded: %v", cerr)
			}
		}
	}
	rec.ClassN("configurable_lints", int64(len(cis)))
	targets := configTargetsObjects()
	co := gen.LoadCorpus()
	pickObj := func(rt *rapid.T, target string) gen.Obj {
		if hs := targets[target]; len(hs) > 0 && rapid.IntRange(0, 3).Draw(rt, "home") > 0 {
			return hs[rapid.IntRange(0, len(hs)-1).Draw(rt, "homeidx")]
		}
		switch rapid.IntRange(0, 5).Draw(rt, "anykind") {
		case 0:
			return co.CRLs[rapid.IntRange(0, len(co.CRLs)-1).Draw(rt, "crl")]
		case 1:
			return co.OCSPs[rapid.IntRange(0, len(co.OCSPs)-1).Draw(rt, "ocsp")]
		}
		return co.Certs[rapid.IntRange(0, len(co.Certs)-1).Draw(rt, "cert")]
	}
	rapidRun(t, "documents", perShard(stats.Scale(8000, 300000)), func(rt *rapid.T) {
		var c c11Case
		mode := rapid.IntRange(0, 9).Draw(rt, "mode")
		ci := cis[rapid.IntRange(0, len(cis)-1).Draw(rt, "target")]
		o := pickObj(rt, ci.Name)
		// generated CRLs with drawn validity reach both sides of the CRL lint's rules
		if ci.Kind == "crl" && rapid.Bool().Draw(rt, "builtcrl") {
			der, _ := gen.DrawBuiltCRL(rt)
			o = gen.Obj{Name: "built-crl", Kind: gen.CRL, DER: der}
		}
		c.Kind, c.DER, c.Base = o.Kind, o.DER, o.Name
		switch {
		case mode < 2:
			c.Mode = "equiv"
			if rapid.Bool().Draw(rt, "emptydoc") {
				c.TOML = ""
			} else {
				c.TOML = engine.DrawUnrelatedTOML(rt, globalNames())
			}
		case mode < 3:
			c.Mode, c.TOML = "example", string(ex)
		case mode < 7:
			c.Mode, c.Target = "option", ci.Name
			c.Vals = map[string]interface{}{}
			c.TOML = engine.DrawUnrelatedTOML(rt, globalNames())
			sec := engine.WellTypedSection(rt, ci, c.Vals)
			// top-level keys must precede tables: put the lint's table last
			c.TOML = c.TOML + sec
			if rapid.IntRange(0, 3).Draw(rt, "unknownkey") == 0 {
				c.TOML += "verif_unknown_key = 7\n"
			}
		default:
			c.Mode, c.Target = "illtyped", ci.Name
			sec, shape := engine.IllTypedSection(rt, ci)
			c.Shape = shape
			if strings.HasPrefix(sec, "[") {
				c.TOML = engine.DrawUnrelatedTOML(rt, globalNames()) + sec
			} else {
				c.TOML = sec + engine.DrawUnrelatedTOML(rt, globalNames())
			}
		}
		rec.Eval()
		rec.Class("mode_" + c.Mode)
		if c.Shape != "" {
			rec.Class("shape_" + c.Shape)
		}
		if sig, msg := judgeC11(rec, c); msg != "" {
			fail(rt, rec, "c11", sig, msg, c)
		}
		if c.Target != "" {
			rec.NT(stats.Hash(c.DER, []byte(c.TOML)))
		}
		if rec.WantSample() && rapid.IntRange(0, 30).Draw(rt, "smp") == 0 {
			rec.Sample(map[string]interface{}{"mode": c.Mode, "base": c.Base, "toml": c.TOML, "target": c.Target, "shape": c.Shape})
		}
	})
	// (h) enumerated: revocation lists over the calendar x the CRL lint's option, against the option model
	forEachCalendarCRL(func(ec engine.Case) {
		if ec.Config == nil {
			return
		}
		c := c11Case{Kind: ec.Kind, DER: ec.DER, Base: ec.Base, Mode: "option", TOML: *ec.Config, Target: "e_crl_next_update_invalid",
			Vals: map[string]interface{}{"SubscriberCRL": strings.Contains(*ec.Config, "= true")}, Shape: strings.Join(ec.Ops, " ")}
		rec.Eval()
		rec.Class("calendar_crl")
		if sig, msg := judgeC11(rec, c); msg != "" {
			if rec.Report("c11", sig, msg, c) {
				t.Fatalf("c11 %v: %s: %s", ec.Ops, sig, msg)
			}
		}
	})
	// (h) an example configuration that was handed out stays what it was, whatever is rendered afterwards (for
	// other registries, for the same one), and rendering twice gives the same bytes
	{
		g := lint.GlobalRegistry()
		var regs []lint.Registry
		regs = append(regs, g)
		for _, fo := range []lint.FilterOptions{{IncludeSources: lint.SourceList{lint.Community}}, {ExcludeNames: []string{"e_rsa_fermat_factorization"}}, {IncludeNames: []string{"e_subj_contains_html_entities", "e_crl_next_update_invalid"}}, {IncludeSources: lint.SourceList{lint.CABFBaselineRequirements}}} {
			if r, err := g.Filter(fo); err == nil {
				regs = append(regs, r)
			}
		}
		type held struct {
			b    []byte
			copy string
			reg  int
		}
		var hs []held
		for round := 0; round < 3; round++ {
			for ri, r := range regs {
				b, err := r.DefaultConfiguration()
				if err != nil {
					continue
				}
				hs = append(hs, held{b, string(b), ri})
				rec.Eval()
				rec.Class("example_held")
				for _, h := range hs {
					if string(h.b) != h.copy {
						c := c11Case{Mode: "example", TOML: h.copy, Shape: fmt.Sprintf("example of registry %d, held while registry %d rendered its own", h.reg, ri)}
						if rec.Report("c11", "example-aliased", fmt.Sprintf("the example configuration of registry %d, kept by its caller, changed when registry %d rendered its example (now %d bytes starting %q)", h.reg, ri, len(h.b), short(string(h.b), 60)), c) {
							t.Fatalf("c11: an example configuration handed out earlier was overwritten by a later DefaultConfiguration call")
						}
					}
					if h.reg == ri && h.copy != string(b) {
						c := c11Case{Mode: "example", TOML: h.copy, Shape: "rendered twice"}
						if rec.Report("c11", "example-unstable", fmt.Sprintf("registry %d renders two different example configurations", ri), c) {
							t.Fatalf("c11: DefaultConfiguration is not stable for registry %d", ri)
						}
					}
				}
			}
		}
	}
	// (g) the three loaders agree: a document means the same whether it comes from a string, a reader or a
	// file, whatever its size (comment preambles of 0 B ... 1 MiB, sizes around powers of two) - an option set
	// after the preamble still changes its lint, and only that
	{
		tdir, terr := os.MkdirTemp("", "verif-c11-")
		if terr == nil {
			defer os.RemoveAll(tdir)
			sens := sensitiveObjects()
			var lnames []string
			for n := range altDocs {
				if len(sens[n]) > 0 {
					lnames = append(lnames, n)
				}
			}
			sort.Strings(lnames)
			sizes := []int{0, 1000, 4095, 4096, 8192, 65535, 65536, 65537, 70000, 131072, 300000, 1 << 20}
			k := 0
			for _, name := range lnames {
				o := sens[name][0]
				for _, sz := range sizes {
					k++
					if !stats.Mine(k) {
						continue
					}
					var pre strings.Builder
					for pre.Len() < sz {
						pre.WriteString("# configuration preamble, nothing to see here: 0123456789 0123456789 0123456789\n")
					}
					doc := pre.String()[:min(pre.Len(), sz)]
					if !strings.HasSuffix(doc, "\n") && doc != "" {
						doc = doc[:len(doc)-1] + "\n"
					}
					doc += altDocs[name]
					fp := ""
					rec.Eval()
					rec.Class("loader_equivalence")
					_ = fp
					c := c11Case{Mode: "loader", TOML: doc, Target: name, DER: o.DER, Kind: o.Kind, Base: o.Name, Shape: fmt.Sprintf("%d-byte comment preamble", sz)}
					if sig, msg := judgeC11(rec, c); msg != "" {
						if rec.Report("c11", sig, msg, c) {
							t.Fatalf("c11 loaders: %s: %s", sig, msg)
						}
					}
					rec.NT(stats.HashS("loader", name, fmt.Sprint(sz)))
				}
			}
		}
	}
	// (f) the command line tool applies -config whatever selection flags accompany it
	if cli := os.Getenv("VERIF_CLI"); cli != "" {
		cliConfigMatrix(t, rec, cli, stats.Scale(2, 6), "")
	}
	// (e) stateful: configuration does not leak between registries or runs
	docs := []string{"", "[e_subj_contains_html_entities]\nSkip = true\n", "[e_subj_orgunit_in_ca_cert]\nCrossCert = true\n",
		"[e_crl_next_update_invalid]\nSubscriberCRL = false\n", "[e_rsa_fermat_factorization]\nRounds = 0\n", "e_rsa_fermat_factorization = 3\n",
		"[e_subj_contains_html_entities]\nSkip = \"yes\"\n"}
	rapidRun(t, "histories", perShard(stats.Scale(600, 20000)), func(rt *rapid.T) {
		h := newC11History()
		defer h.close()
		sets := 0
		rt.Repeat(map[string]func(*rapid.T){
			"setConfiguration": func(rt *rapid.T) {
				op := c11Op{Op: "set", Reg: rapid.IntRange(0, len(h.regs)-1).Draw(rt, "reg"), Doc: docs[rapid.IntRange(0, len(docs)-1).Draw(rt, "doc")]}
				h.step(op)
				sets++
			},
			"filter": func(rt *rapid.T) {
				if len(h.regs) >= 5 {
					rt.Skip("enough registries")
				}
				op := c11Op{Op: "filter", Reg: rapid.IntRange(0, len(h.regs)-1).Draw(rt, "reg"), Alias: rapid.IntRange(0, 4).Draw(rt, "emptyopts") == 0}
				if !op.Alias {
					op.Ex = rapid.SampledFrom([]string{"e_ca_country_name_missing", "w_ct_sct_policy_count_unsatisfied", "e_crl_has_next_update"}).Draw(rt, "ex")
					// non-empty options that remove nothing: still a registry of its own
					switch rapid.IntRange(0, 5).Draw(rt, "selectall") {
					case 0:
						re := rapid.SampledFrom([]string{"^[a-z]+_", ".", "_", "^(e|w|n)_"}).Draw(rt, "re")
						op.Spec = &engine.FilterSpec{NameFilter: &re}
					case 1:
						var all []string
						for _, src := range h.regs[op.Reg].reg.Sources() {
							all = append(all, string(src))
						}
						op.Spec = &engine.FilterSpec{IncludeSources: all}
					case 2:
						op.Spec = &engine.FilterSpec{IncludeNames: h.regs[op.Reg].reg.Names()}
					}
				}
				if _, _, skipped := h.step(op); skipped {
					rt.Skip("name already filtered out")
				}
			},
			"lint": func(rt *rapid.T) {
				ci := cis[rapid.IntRange(0, len(cis)-1).Draw(rt, "target")]
				hs := targets[ci.Name]
				if ss := sensitiveObjects()[ci.Name]; len(ss) > 0 && rapid.IntRange(0, 3).Draw(rt, "sensitive") > 0 {
					hs = ss
				}
				if len(hs) == 0 {
					rt.Skip("no home object")
				}
				o := hs[rapid.IntRange(0, len(hs)-1).Draw(rt, "obj")]
				op := c11Op{Op: "lint", Reg: rapid.IntRange(0, len(h.regs)-1).Draw(rt, "reg"), ObjKind: o.Kind, ObjDER: o.DER, ObjName: o.Name}
				if sig, msg, _ := h.step(op); msg != "" {
					fail(rt, rec, "c11-history", sig, msg, c11HistoryCase{Ops: h.ops})
				}
			},
		})
		rec.Eval()
		rec.Class("history")
		if sets >= 2 {
			rec.NT(stats.HashS(h.text()...))
		}
		if rec.WantSample() && sets >= 2 && len(h.ops) > 6 {
			rec.Sample(map[string]interface{}{"history": h.text()})
		}
	})
	_ = x509.RSA
}

func init() {
	registerReplayer("c11", func(rec *stats.Rec, raw json.RawMessage) (string, string) {
		var c c11Case
		if err := json.Unmarshal(raw, &c); err != nil {
			return "decode", err.Error()
		}
		if c.DER == nil && c.Mode == "example" {
			return "", "" // census-style findings are re-derived by the check itself
		}
		return judgeC11(rec, c)
	})
	registerReplayer("c11-history", func(rec *stats.Rec, raw json.RawMessage) (string, string) {
		var c c11HistoryCase
		if err := json.Unmarshal(raw, &c); err != nil {
			return "decode", err.Error()
		}
		h := newC11History()
		defer h.close()
		for _, op := range c.Ops {
			if sig, msg, _ := h.step(op); msg != "" {
				return sig, msg
			}
		}
		return "", ""
	})
}
