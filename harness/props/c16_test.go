package props

import (
	"crypto"
	"crypto/rsa"
	"crypto/sha256"
	stdx509 "crypto/x509"
	"encoding/json"
	"encoding/pem"
	"fmt"
	"math/big"
	"os"
	"regexp"
	"sort"
	"sync"
	"testing"
	"time"

	"github.com/zmap/zlint/v3/lint"
	"pgregory.net/rapid"

	"verifharness/engine"
	"verifharness/gen"
	"verifharness/model"
	"verifharness/stats"
)

type c16Case struct {
	DER    []byte `json:"der"`
	Base   string `json:"base,omitempty"`
	N      string `json:"n"` // decimal
	E      int64  `json:"e"`
	Rounds *int   `json:"rounds,omitempty"`
	P      string `json:"p,omitempty"` // known prime factors when N = P*Q by construction
	Q      string `json:"q,omitempty"`
	How    string `json:"how,omitempty"`
}

var smallPrimes = func() []int64 {
	var ps []int64
	for n := int64(2); n < 752; n++ {
		prime := true
		for d := int64(2); d*d <= n; d++ {
			if n%d == 0 {
				prime = false
				break
			}
		}
		if prime {
			ps = append(ps, n)
		}
	}
	return ps
}()

// rsaPredicates: lint name -> (finding status, predicate over (N, e)).
type rsaPred struct {
	finding lint.LintStatus
	pred    func(n *big.Int, e int64) bool
}

var rsaPreds = map[string]rsaPred{
	"e_rsa_mod_less_than_2048_bits":              {lint.Error, func(n *big.Int, e int64) bool { return n.BitLen() < 2048 }},
	"e_mp_modulus_must_be_2048_bits_or_more":     {lint.Error, func(n *big.Int, e int64) bool { return n.BitLen() < 2048 }},
	"e_old_root_ca_rsa_mod_less_than_2048_bits":  {lint.Error, func(n *big.Int, e int64) bool { return n.BitLen() < 2048 }},
	"e_old_sub_ca_rsa_mod_less_than_1024_bits":   {lint.Error, func(n *big.Int, e int64) bool { return n.BitLen() < 1024 }},
	"e_old_sub_cert_rsa_mod_less_than_1024_bits": {lint.Error, func(n *big.Int, e int64) bool { return n.BitLen() < 1024 }},
	"e_cs_rsa_key_size":                          {lint.Error, func(n *big.Int, e int64) bool { return n.BitLen() < 3072 }},
	"e_mp_modulus_must_be_divisible_by_8":        {lint.Error, func(n *big.Int, e int64) bool { return n.BitLen()%8 != 0 }},
	"w_rsa_mod_not_odd":                          {lint.Warn, func(n *big.Int, e int64) bool { return n.Bit(0) == 0 }},
	"w_rsa_mod_factors_smaller_than_752": {lint.Warn, func(n *big.Int, e int64) bool {
		for _, p := range smallPrimes {
			if new(big.Int).Mod(n, big.NewInt(p)).Sign() == 0 {
				return true
			}
		}
		return false
	}},
	"e_rsa_public_exponent_not_odd":      {lint.Error, func(n *big.Int, e int64) bool { return e%2 == 0 }},
	"e_rsa_public_exponent_too_small":    {lint.Error, func(n *big.Int, e int64) bool { return e < 3 }},
	"e_mp_exponent_cannot_be_one":        {lint.Error, func(n *big.Int, e int64) bool { return e == 1 }},
	"w_rsa_public_exponent_not_in_range": {lint.Warn, func(n *big.Int, e int64) bool { return e < 65537 }},
}

const fermatLint = "e_rsa_fermat_factorization"

var (
	stageMu    sync.Mutex
	stageCache = map[string]map[string]model.Stage{}
)

// corpusStages: lifecycle stage of every certificate lint on a corpus certificate that is not self-signed and
// carries an RSA key (nil otherwise).
func corpusStages(name string) map[string]model.Stage {
	stageMu.Lock()
	defer stageMu.Unlock()
	if m, ok := stageCache[name]; ok {
		return m
	}
	var m map[string]model.Stage
	for _, o := range gen.LoadCorpus().Certs {
		if o.Name != name {
			continue
		}
		pc, ok := gen.ParseCert(o.DER)
		if _, isRSA := pc.PublicKey.(*rsa.PublicKey); !ok || !isRSA || pc.SelfSigned {
			break
		}
		r := engine.Execute(engine.Case{Kind: gen.Cert, DER: o.DER}, true)
		m = map[string]model.Stage{}
		for n, e := range r.Exp {
			m[n] = e.Stage
		}
		break
	}
	stageCache[name] = m
	return m
}

var factorRe = regexp.MustCompile(`p: (\d+); q: (\d+)`)

func judgeC16(rec *stats.Rec, c c16Case) (string, string) {
	return apiGuard(func() (string, string) { return judgeC16Inner(rec, c) })
}

func judgeC16Inner(rec *stats.Rec, c c16Case) (string, string) {
	var cfg *string
	rounds := 100 // documented default
	if c.Rounds != nil {
		s := fmt.Sprintf("[%s]\nRounds = %d\n", fermatLint, *c.Rounds)
		cfg = &s
		rounds = *c.Rounds
	}
	run := engine.Execute(engine.Case{Kind: gen.Cert, DER: c.DER, Config: cfg}, true)
	if !run.Parsed {
		rec.Class("parse_rejected")
		return "", ""
	}
	if run.RS == nil {
		rec.Class("void")
		return "", ""
	}
	pk, ok := run.Cert.PublicKey.(*rsa.PublicKey)
	if !ok {
		rec.Class("not_rsa_after_parse")
		return "", ""
	}
	n, e := pk.N, int64(pk.E)
	if want, _ := new(big.Int).SetString(c.N, 10); want != nil && (want.Cmp(n) != 0 || e != c.E) {
		rec.Class("harness_fault_key_mismatch")
		return "", ""
	}
	v := engine.Verdicts(run.RS)
	// Which RSA keys a key-quality lint looks at must not depend on the value of the key: if the lint's
	// body ran on the corpus certificate the key was written into (whose own key is RSA), it runs on the
	// re-keyed certificate too - "for every certificate with an RSA key on which they apply".
	if bs := corpusStages(c.Base); bs != nil && cfg == nil {
		lnames := make([]string, 0, len(rsaPreds)+1)
		for nme := range rsaPreds {
			lnames = append(lnames, nme)
		}
		lnames = append(lnames, fermatLint)
		sort.Strings(lnames)
		for _, nme := range lnames {
			if ex, ok := run.Exp[nme]; ok && bs[nme] == model.StExecuted && ex.Stage == model.StNotApplicable {
				return "applicability|" + nme, fmt.Sprintf("%s runs on %s with its own RSA key but declares itself not applicable once the key is N (%d bits) e=%d", nme, c.Base, n.BitLen(), e)
			}
		}
	}
	names := make([]string, 0, len(rsaPreds))
	for nme := range rsaPreds {
		names = append(names, nme)
	}
	sort.Strings(names)
	for _, name := range names {
		p := rsaPreds[name]
		ex, present := run.Exp[name]
		if !present {
			continue // lint does not exist (any more): reported in evidence through 'executed' classes
		}
		if ex.Stage != model.StExecuted {
			continue
		}
		rec.Class("executed:" + name)
		got := v[name].Status
		want := lint.Pass
		if p.pred(n, e) {
			want = p.finding
		}
		if got != want {
			return "predicate|" + name, fmt.Sprintf("%s reports %s for N (%d bits, N mod 8 = %d) e=%d; the arithmetic predicate gives %s", name, got, n.BitLen(), new(big.Int).Mod(n, big.NewInt(8)).Int64(), e, want)
		}
		// boundary bookkeeping
		for _, th := range []int{1024, 2048, 3072} {
			if d := n.BitLen() - th; d >= -1 && d <= 1 {
				rec.NT(stats.HashS(name, "bits", fmt.Sprint(n.BitLen())))
			}
		}
		if p.pred(n, e) {
			rec.NT(stats.HashS(name, "finding", c.N, fmt.Sprint(e)))
		}
	}
	// Fermat
	if ex, ok := run.Exp[fermatLint]; ok && ex.Stage == model.StExecuted {
		rec.Class("executed:" + fermatLint)
		got := v[fermatLint]
		if got.Status == lint.Error {
			m := factorRe.FindStringSubmatch(got.Details)
			if m == nil {
				return "fermat-details", "error without a parsable factorisation: " + got.Details
			}
			p, _ := new(big.Int).SetString(m[1], 10)
			q, _ := new(big.Int).SetString(m[2], 10)
			if new(big.Int).Mul(p, q).Cmp(n) != 0 {
				return "fermat-wrong-factors", fmt.Sprintf("reported factors %s x %s do not multiply back to the modulus", m[1], m[2])
			}
		}
		if c.P != "" && c.Q != "" {
			p, _ := new(big.Int).SetString(c.P, 10)
			q, _ := new(big.Int).SetString(c.Q, 10)
			if p.Cmp(q) != 0 && p.Bit(0) == 1 && q.Bit(0) == 1 {
				// rounds needed: a* = (p+q)/2, start a0 = floor(sqrt(N)) + 1; found iff a* - a0 < rounds
				a := new(big.Int).Add(p, q)
				a.Rsh(a, 1)
				a0 := new(big.Int).Sqrt(n)
				a0.Add(a0, big.NewInt(1))
				need := new(big.Int).Sub(a, a0) // zero-based round index
				within := need.Sign() >= 0 && need.Cmp(big.NewInt(int64(rounds))) < 0
				want := lint.Pass
				if within {
					want = lint.Error
				}
				if got.Status != want {
					return "fermat|rounds", fmt.Sprintf("N=p*q with p=%s q=%s is found in round %s; Rounds=%d; lint reports %s, want %s", c.P, c.Q, need, rounds, got.Status, want)
				}
				d := new(big.Int).Sub(need, big.NewInt(int64(rounds))).Int64()
				if d >= -2 && d <= 1 {
					rec.Class("fermat_boundary")
				}
				rec.NT(stats.HashS("fermat", c.N, fmt.Sprint(rounds)))
			}
		}
	}
	return "", ""
}

var (
	rootKeysOnce sync.Once
	rootKeys     []*rsa.PrivateKey
)

func loadRootKeys() []*rsa.PrivateKey {
	rootKeysOnce.Do(func() {
		for _, p := range gen.RootKeysPEM {
			blk, _ := pem.Decode([]byte(p))
			k, err := stdx509.ParsePKCS1PrivateKey(blk.Bytes)
			if err == nil {
				rootKeys = append(rootKeys, k)
			}
		}
	})
	return rootKeys
}

func nextPrime(x *big.Int) *big.Int {
	p := new(big.Int).Set(x)
	if p.Cmp(big.NewInt(3)) < 0 {
		return big.NewInt(3)
	}
	if p.Bit(0) == 0 {
		p.Add(p, big.NewInt(1))
	}
	for {
		// composite candidates fall at the small-prime and base-2 stages; only survivors get the full test
		if p.ProbablyPrime(0) && p.ProbablyPrime(20) {
			return p
		}
		p.Add(p, big.NewInt(2))
	}
}

// bigPrimes: a 1536-bit and a 2048-bit prime per process (products above 2048 bits for the Fermat lint).
var (
	bigPrimeOnce sync.Once
	bigPrimeList []*big.Int
)

func bigPrimes() []*big.Int {
	bigPrimeOnce.Do(func() {
		shard, _ := stats.Shard()
		for _, bits := range []int{1536, 2048} {
			x := new(big.Int).Lsh(big.NewInt(1), uint(bits-1))
			x.Add(x, new(big.Int).Lsh(big.NewInt(int64(1000003*(shard+1))), uint(bits/2)))
			x.Add(x, big.NewInt(int64(verifSeed()*7919+12345)))
			bigPrimeList = append(bigPrimeList, nextPrime(x))
		}
	})
	return bigPrimeList
}

func drawBig(rt *rapid.T, bits int, lbl string) *big.Int {
	if bits < 1 {
		bits = 1
	}
	nb := (bits + 7) / 8
	b := rapid.SliceOfN(rapid.Byte(), nb, nb).Draw(rt, lbl)
	n := new(big.Int).SetBytes(b)
	n.SetBit(n, bits-1, 1)
	for i := bits; i < nb*8; i++ {
		n.SetBit(n, i, 0)
	}
	return n
}

func TestC16(t *testing.T) {
	rec := newRec(t, "C16")
	hm := homeObjects()
	co := gen.LoadCorpus()
	// bases: up to 6 home objects for each RSA lint (non self-signed), plus root bases
	var lintNames []string
	for n := range rsaPreds {
		lintNames = append(lintNames, n)
	}
	lintNames = append(lintNames, fermatLint)
	sort.Strings(lintNames)
	baseSet := map[int]bool{}
	var bases []int
	var rootBases []int
	for _, n := range lintNames {
		k := 0
		for _, i := range hm[n] {
			pc, ok := gen.ParseCert(co.Certs[i].DER)
			if !ok {
				continue
			}
			if pc.SelfSigned {
				if n == "e_old_root_ca_rsa_mod_less_than_2048_bits" && len(rootBases) < 6 {
					rootBases = append(rootBases, i)
				}
				continue
			}
			if k < 6 && !baseSet[i] {
				baseSet[i] = true
				bases = append(bases, i)
			}
			k++
		}
		if len(hm[n]) == 0 {
			rec.Class("lint_without_home:" + n)
		}
	}
	sort.Ints(bases)
	rec.ClassN("bases", int64(len(bases)))
	rec.ClassN("root_bases", int64(len(rootBases)))
	build := func(base gen.Obj, n *big.Int, e int64) ([]byte, bool) {
		v, err := gen.ViewCert(base.DER)
		if err != nil {
			return nil, false
		}
		v.SetSPKI(gen.RSASPKI(n, big.NewInt(e)))
		return v.DER(), true
	}
	judge := func(fatal func(string, ...any), c c16Case, viaRapid *rapid.T) {
		rec.Eval()
		rec.Class("how_" + c.How)
		if sig, msg := judgeC16(rec, c); msg != "" {
			if viaRapid != nil {
				fail(viaRapid, rec, "c16", sig, msg, c)
			} else if rec.Report("c16", sig, msg, c) {
				fatal("c16 %s: %s: %s", c.How, sig, msg)
			}
		}
	}
	// (1) enumerated: every divisor 2..757 x a cofactor; thresholds; exponents
	k := 0
	cof := new(big.Int).Lsh(big.NewInt(1), 2040)
	cof.Add(cof, big.NewInt(0x10001)) // odd cofactor of 2041 bits
	cofPrime := nextPrime(new(big.Int).Lsh(big.NewInt(1), 1030))
	for d := int64(2); d <= 769; d++ {
		k++
		if !stats.Mine(k) {
			continue
		}
		base := co.Certs[bases[int(d)%len(bases)]]
		n := new(big.Int).Mul(big.NewInt(d), cofPrime) // only prime factors: those of d, and a 1031-bit prime
		if der, ok := build(base, n, 65537); ok {
			judge(t.Fatalf, c16Case{DER: der, Base: base.Name, N: n.String(), E: 65537, How: "divisor"}, nil)
		}
	}
	// many small factors at once: products of sets of small primes - in particular sets whose product is 1 modulo 2^64
	// or modulo 2^32 (found by a birthday search; a GCD or a remainder squeezed into one machine word reads them as 1),
	// all odd primes below 752, the first 10 / 20 / 40 of them - times a large prime
	for si, g := range smallFactorProducts() {
		for _, bits := range []int{2048, 3072} {
			k++
			if !stats.Mine(k) {
				continue
			}
			if g.BitLen() >= bits-64 {
				continue
			}
			c := new(big.Int).Lsh(big.NewInt(1), uint(bits-1))
			c.Div(c, g)
			c = nextPrime(c.Add(c, big.NewInt(1)))
			n := new(big.Int).Mul(g, c)
			base := co.Certs[bases[(si+bits)%len(bases)]]
			if der, ok := build(base, n, 65537); ok {
				judge(t.Fatalf, c16Case{DER: der, Base: base.Name, N: n.String(), E: 65537, How: "many-small-factors"}, nil)
			}
		}
	}
	for _, bits := range []int{1023, 1024, 1025, 2040, 2047, 2048, 2049, 2056, 3071, 3072, 3073, 4096, 512, 8, 2, 1} {
		for _, e := range []int64{1, 2, 3, 4, 65535, 65536, 65537, 65538, 1<<31 - 1, 1<<62 + 1} {
			for bi, b := range bases {
				k++
				if !stats.Mine(k) || (bi+bits+int(e))%4 != int(verifSeed())%4 {
					continue
				}
				n := new(big.Int).Lsh(big.NewInt(1), uint(bits-1))
				n.Add(n, big.NewInt(1)) // 2^(bits-1)+1: exactly `bits` bits (bits=1 -> 2)
				if bits == 1 {
					n = big.NewInt(1)
				}
				base := co.Certs[b]
				if der, ok := build(base, n, e); ok {
					judge(t.Fatalf, c16Case{DER: der, Base: base.Name, N: n.String(), E: e, How: "threshold"}, nil)
				}
			}
		}
	}
	// genuinely self-signed roots with keys around the 2048 threshold
	// ... under the base's own validity and under validity periods on every side of the 2011 and 2014 dates
	day := func(y, m, d int) time.Time { return time.Date(y, time.Month(m), d, 0, 0, 0, 0, time.UTC) }
	rootSpans := [][2]time.Time{{}, {day(2005, 3, 1), day(2012, 3, 1)}, {day(2010, 12, 31), day(2013, 12, 31)}, {day(2009, 6, 1), day(2014, 1, 1)},
		{day(2011, 1, 1), day(2013, 6, 1)}, {day(2011, 1, 1), day(2016, 1, 1)}, {day(1999, 1, 1), day(2019, 1, 1)}, {day(2015, 1, 1), day(2025, 1, 1)}}
	for _, rb := range rootBases {
		for ki, key := range loadRootKeys() {
			for si, span := range rootSpans {
				k++
				if !stats.Mine(k) {
					continue
				}
				_ = ki
				base := co.Certs[rb]
				v, err := gen.ViewCert(base.DER)
				if err != nil {
					continue
				}
				if si > 0 {
					v.SetValidity(span[0], span[1], gen.UTCZ)
					rec.Class("root_validity_varied")
				}
				v.SetSPKI(gen.RSASPKI(key.N, big.NewInt(int64(key.E))))
				v.SetInnerAlg(gen.AlgID(gen.OIDSHA256WithRSA, true))
				v.SetOuterAlg(gen.AlgID(gen.OIDSHA256WithRSA, true))
				h := sha256.Sum256(v.TBS.Encode())
				sig, err := rsa.SignPKCS1v15(nil, key, crypto.SHA256, h[:])
				if err != nil {
					continue
				}
				v.SetSignatureBytes(sig)
				der := v.DER()
				if pc, ok := gen.ParseCert(der); !ok || !pc.SelfSigned {
					rec.Class("root_not_selfsigned")
					continue
				}
				judge(t.Fatalf, c16Case{DER: der, Base: base.Name, N: key.N.String(), E: int64(key.E), How: "self-signed-root"}, nil)
			}
		}
	}
	rec.Exhaustive("divisors 2..769, bit-length thresholds x exponents, self-signed roots", true)
	// (2) rapid
	rapidRun(t, "keys", perShard(stats.Scale(6000, 250000)), func(rt *rapid.T) {
		base := co.Certs[bases[rapid.IntRange(0, len(bases)-1).Draw(rt, "base")]]
		var n *big.Int
		how := ""
		switch rapid.IntRange(0, 7).Draw(rt, "nkind") {
		case 6, 7:
			// bit patterns: machine words that are all ones, nearly all ones, zero or a lone top bit, between
			// random words (carry / overflow in word-wise arithmetic); optionally times a small prime
			words := rapid.IntRange(16, 48).Draw(rt, "words")
			n = new(big.Int)
			for w := 0; w < words; w++ {
				var x uint64
				switch rapid.IntRange(0, 5).Draw(rt, "wordkind") {
				case 0:
					x = ^uint64(0)
				case 1:
					ones := ^uint64(0)
					x = ones << uint(rapid.IntRange(1, 20).Draw(rt, "lowzeros"))
				case 2:
					ones := ^uint64(0)
					x = ones<<20 | rapid.Uint64Range(0, 1<<20-1).Draw(rt, "lowbits")
				case 3:
					x = 0
				case 4:
					x = 1 << 63
				default:
					x = rapid.Uint64().Draw(rt, "word")
				}
				n.Lsh(n, 64)
				n.Or(n, new(big.Int).SetUint64(x))
			}
			n.SetBit(n, words*64-1, 1)
			n.SetBit(n, 0, 1)
			how = "word-patterns"
			if rapid.IntRange(0, 2).Draw(rt, "timesprime") == 0 {
				n.Mul(n, big.NewInt(smallPrimes[rapid.IntRange(1, len(smallPrimes)-1).Draw(rt, "sp")]))
				how = "word-patterns-times-small-prime"
			}
		case 0:
			th := rapid.SampledFrom([]int{1024, 2048, 3072}).Draw(rt, "th")
			n = drawBig(rt, th+rapid.IntRange(-1, 1).Draw(rt, "d"), "n")
			how = "near-threshold"
		case 1:
			n = drawBig(rt, rapid.IntRange(2, 4200).Draw(rt, "bits"), "n")
			how = "uniform-bits"
		case 2:
			n = drawBig(rt, 8*rapid.IntRange(1, 520).Draw(rt, "bytes")+rapid.IntRange(-1, 1).Draw(rt, "d"), "n")
			how = "multiple-of-8"
		case 3:
			n = drawBig(rt, rapid.IntRange(1000, 2100).Draw(rt, "bits"), "n")
			n.SetBit(n, 0, 0)
			how = "even"
		case 4:
			p := nextPrime(big.NewInt(int64(rapid.IntRange(740, 800).Draw(rt, "p"))))
			q := nextPrime(drawBig(rt, rapid.IntRange(64, 300).Draw(rt, "qbits"), "q"))
			n = new(big.Int).Mul(p, q)
			how = "prime-near-752-times-prime"
		default:
			p := nextPrime(drawBig(rt, rapid.IntRange(760, 1100).Draw(rt, "pb")/8+10, "p"))
			q := nextPrime(drawBig(rt, 64, "q"))
			n = new(big.Int).Mul(p, q)
			how = "two-primes-above-752"
		}
		e := rapid.OneOf(rapid.SampledFrom([]int64{1, 2, 3, 4, 5, 17, 65535, 65536, 65537, 65538, 65539, 1<<31 - 1, 1 << 31, 1<<63 - 1}), rapid.Int64Range(1, 1<<40)).Draw(rt, "e")
		der, ok := build(base, n, e)
		if !ok {
			return
		}
		judge(nil, c16Case{DER: der, Base: base.Name, N: n.String(), E: e, How: how}, rt)
		if rec.WantSample() && rapid.IntRange(0, 50).Draw(rt, "smp") == 0 {
			rec.Sample(map[string]interface{}{"base": base.Name, "how": how, "n_bits": n.BitLen(), "e": e})
		}
	})
	// the command line tool applies the configured Rounds whatever selection flags accompany -config
	cli := os.Getenv("VERIF_CLI")
	if cli != "" {
		cliConfigMatrix(t, rec, cli, stats.Scale(2, 6), fermatLint)
	}
	cliBudget := stats.Scale(12, 400)
	bigBudget := stats.Scale(2, 40)
	// enumerated: prime pairs whose half-difference b = (p-q)/2 and mid-point a = (p+q)/2 have extreme machine words
	// (low words all zero, all ones, a single bit): whatever the search looks at first in b*b = a*a - N - a low word, a
	// residue - such keys are found in the first round, and must be reported
	{
		k := 0
		for _, pb := range []int{256, 512} {
			for _, s := range []uint{31, 32, 33, 63, 64, 65, 96, 128} {
				for pat := 0; pat < 3; pat++ {
					k++
					if !stats.Mine(k) {
						continue
					}
					q0 := new(big.Int).Lsh(big.NewInt(1), uint(pb-1))
					q0.Add(q0, new(big.Int).Lsh(big.NewInt(int64(7*k+1)), uint(pb/2)))
					q := nextPrime(q0)
					var p *big.Int
					for m := int64(1); m < 6000 && p == nil; m++ {
						b := new(big.Int).Lsh(big.NewInt(m), s) // low words zero
						switch pat {
						case 1:
							b.Sub(b, big.NewInt(1)) // low words all ones
						case 2:
							b.Add(b, big.NewInt(1)) // a single low bit
						}
						c := new(big.Int).Add(q, new(big.Int).Lsh(b, 1))
						if c.ProbablyPrime(2) {
							p = c
						}
					}
					if p == nil {
						continue
					}
					base := co.Certs[bases[k%len(bases)]]
					n := new(big.Int).Mul(p, q)
					if der, ok := build(base, n, 65537); ok {
						c := c16Case{DER: der, Base: base.Name, N: n.String(), E: 65537, P: p.String(), Q: q.String(), How: "aligned-difference"}
						judge(t.Fatalf, c, nil)
						one := 1
						c.Rounds = &one
						judge(t.Fatalf, c, nil)
					}
				}
			}
		}
	}
	rapidRun(t, "fermat", perShard(stats.Scale(6000, 150000)), func(rt *rapid.T) {
		base := co.Certs[bases[rapid.IntRange(0, len(bases)-1).Draw(rt, "base")]]
		var p, q *big.Int
		how := ""
		fk := rapid.IntRange(0, 3).Draw(rt, "fk")
		if bigBudget > 0 && rapid.IntRange(0, 40).Draw(rt, "bigmod") == 0 {
			fk = 9
		}
		switch fk {
		case 9: // moduli above 2048 bits: a 1536- or 2048-bit prime and a neighbour at a distance aimed at 0..250 rounds
			bigBudget--
			p = bigPrimes()[rapid.IntRange(0, 1).Draw(rt, "bigp")]
			r := rapid.IntRange(0, 250).Draw(rt, "aim")
			d := new(big.Int).Sqrt(new(big.Int).Mul(big.NewInt(int64(8*r)), p))
			q = nextPrime(new(big.Int).Add(p, new(big.Int).Add(d, big.NewInt(2))))
			how = "close-big-primes"
		case 0, 1: // small primes whose distance decides the round count
			pb := rapid.IntRange(24, 48).Draw(rt, "pbits")
			p = nextPrime(drawBig(rt, pb, "p"))
			// rounds needed ~ delta^2 / (8p): aim at 0..4000
			r := rapid.IntRange(0, 4000).Draw(rt, "aim")
			d := new(big.Int).Sqrt(new(big.Int).Mul(big.NewInt(int64(8*r)), p))
			q = nextPrime(new(big.Int).Add(p, new(big.Int).Add(d, big.NewInt(2))))
			how = "close-small-primes"
		case 2: // big neighbouring primes
			pb := rapid.SampledFrom([]int{64, 128, 256, 512, 1024}).Draw(rt, "pbits")
			p = nextPrime(drawBig(rt, pb, "p"))
			q = nextPrime(new(big.Int).Add(p, big.NewInt(int64(rapid.IntRange(2, 1<<20).Draw(rt, "delta")))))
			how = "neighbouring-big-primes"
		default: // far apart
			p = nextPrime(drawBig(rt, rapid.IntRange(24, 128).Draw(rt, "pbits"), "p"))
			q = nextPrime(drawBig(rt, rapid.IntRange(24, 128).Draw(rt, "qbits"), "q"))
			how = "independent-primes"
		}
		if p.Cmp(q) == 0 {
			return
		}
		n := new(big.Int).Mul(p, q)
		c := c16Case{Base: base.Name, N: n.String(), E: 65537, P: p.String(), Q: q.String(), How: how}
		switch rapid.IntRange(0, 3).Draw(rt, "roundsmode") {
		case 0: // default
		case 1:
			r := rapid.IntRange(0, 2000).Draw(rt, "rounds")
			c.Rounds = &r
		default: // aim the configured rounds at the boundary
			a := new(big.Int).Add(p, q)
			a.Rsh(a, 1)
			a0 := new(big.Int).Sqrt(n)
			a0.Add(a0, big.NewInt(1))
			need := new(big.Int).Sub(a, a0)
			if need.IsInt64() && need.Int64() >= 0 && need.Int64() < 1999 {
				r := int(need.Int64()) + rapid.IntRange(-1, 2).Draw(rt, "off")
				if r < 0 {
					r = 0
				}
				c.Rounds = &r
			}
		}
		der, ok := build(base, n, 65537)
		if !ok {
			return
		}
		c.DER = der
		judge(nil, c, rt)
		if cli != "" && c.Rounds != nil && cliBudget > 0 && how != "independent-primes" {
			// same key and Rounds through the real binary, with a generated selection
			cliBudget--
			cfg := fmt.Sprintf("[%s]\nRounds = %d\n", fermatLint, *c.Rounds)
			re := "fermat"
			f := rapid.SampledFrom([]*engine.FilterSpec{nil, {IncludeNames: []string{fermatLint}}, {ExcludeNames: []string{"e_ca_country_name_missing"}},
				{IncludeSources: []string{lintSourceOf(fermatLint)}}, {NameFilter: &re}}).Draw(rt, "clifilter")
			cc := c15Case{Inputs: []c15Input{{Kind: gen.Cert, DER: der, Encoding: "pem", Delivery: "file", Base: base.Name}}, Filter: f, Config: &cfg, Format: "pem", Output: "default"}
			if dir, err := os.MkdirTemp("", "verif-c16-"); err == nil {
				sig, msg := judgeC15(rec, cc, cli, dir)
				os.RemoveAll(dir)
				rec.Class("cli_rounds")
				if msg != "" {
					fail(rt, rec, "c15", "cli-rounds|"+sig, msg, cc)
				}
			}
		}
		if rec.WantSample() && rapid.IntRange(0, 50).Draw(rt, "smp") == 0 {
			rec.Sample(map[string]interface{}{"base": base.Name, "how": how, "p": c.P, "q": c.Q, "rounds": c.Rounds})
		}
	})
}

func init() {
	registerReplayer("c16", func(rec *stats.Rec, raw json.RawMessage) (string, string) {
		var c c16Case
		if err := json.Unmarshal(raw, &c); err != nil {
			return "decode", err.Error()
		}
		return judgeC16(rec, c)
	})
}

// unitLowWordSets: sets of odd primes below 752 whose product is congruent to 1 modulo 2^64 (four-list birthday
// search over subset products; checked again in smallFactorProducts).
var unitLowWordSets = [][]int64{
	{31, 41, 47, 59, 97, 109, 173, 179, 191, 211, 227, 307, 317, 331, 347, 367, 379, 383, 409, 419, 449, 467, 479, 509, 523, 593, 599, 617, 641, 647, 653, 673, 727, 743, 751},
	{3, 7, 13, 19, 29, 31, 43, 53, 59, 61, 83, 101, 107, 109, 149, 167, 173, 181, 191, 229, 257, 269, 281, 311, 313, 347, 353, 367, 373, 457, 463, 467, 487, 509, 521, 563, 587, 599, 607, 631, 647, 673, 691, 709, 719, 739, 751},
	{11, 29, 41, 43, 47, 83, 89, 97, 103, 109, 151, 163, 167, 179, 181, 191, 193, 197, 223, 227, 239, 251, 293, 311, 313, 353, 383, 389, 421, 439, 443, 461, 547, 563, 577, 599, 607, 617, 647, 677, 733, 743},
	{13, 17, 23, 29, 37, 43, 53, 59, 71, 73, 89, 97, 101, 103, 127, 137, 163, 167, 191, 227, 229, 263, 277, 307, 311, 317, 331, 359, 367, 383, 401, 419, 443, 449, 457, 461, 463, 467, 487, 523, 547, 569, 577, 587, 601, 607, 641, 643, 647, 653, 659, 673, 683, 739, 751},
}

var (
	sfpOnce sync.Once
	sfpList []*big.Int
)

// smallFactorProducts: see the call site. The sets congruent to 1 modulo 2^32 are found here (meet in the middle
// over two halves of the primes, deterministic).
func smallFactorProducts() []*big.Int {
	sfpOnce.Do(func() {
		var primes []int64
		for n := int64(3); n < 752; n += 2 {
			if big.NewInt(n).ProbablyPrime(8) {
				primes = append(primes, n)
			}
		}
		prod := func(set []int64) *big.Int {
			g := big.NewInt(1)
			for _, p := range set {
				g.Mul(g, big.NewInt(p))
			}
			return g
		}
		mask64 := new(big.Int).SetUint64(^uint64(0))
		for _, set := range unitLowWordSets {
			g := prod(set)
			if new(big.Int).And(g, mask64).Cmp(big.NewInt(1)) == 0 && g.BitLen() > 64 {
				sfpList = append(sfpList, g)
			}
		}
		// 1 modulo 2^32: subsets of primes[0:20] against subsets of primes[20:40]
		inv32 := func(a uint32) uint32 {
			x := a
			for i := 0; i < 5; i++ {
				x *= 2 - a*x
			}
			return x
		}
		left := map[uint32]uint32{}
		for m := uint32(1); m < 1<<18; m++ {
			p := uint32(1)
			for b := 0; b < 18; b++ {
				if m>>uint(b)&1 == 1 {
					p *= uint32(primes[b])
				}
			}
			if _, dup := left[p]; !dup {
				left[p] = m
			}
		}
		found := 0
		for m := uint32(1); m < 1<<18 && found < 3; m++ {
			p := uint32(1)
			for b := 0; b < 18; b++ {
				if m>>uint(b)&1 == 1 {
					p *= uint32(primes[20+b])
				}
			}
			if lm, ok := left[inv32(p)]; ok {
				var set []int64
				for b := 0; b < 18; b++ {
					if lm>>uint(b)&1 == 1 {
						set = append(set, primes[b])
					}
					if m>>uint(b)&1 == 1 {
						set = append(set, primes[20+b])
					}
				}
				if g := prod(set); g.BitLen() > 32 {
					sfpList = append(sfpList, g)
					found++
				}
			}
		}
		sfpList = append(sfpList, prod(primes), prod(primes[:10]), prod(primes[:20]), prod(primes[:40]), prod(primes[len(primes)-12:]))
	})
	return sfpList
}
