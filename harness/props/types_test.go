package props

import (
	"github.com/zmap/zcrypto/x509"
	"golang.org/x/crypto/ocsp"
)

type (
	zx509Cert = x509.Certificate
	zx509CRL  = x509.RevocationList
	ocspResp  = ocsp.Response
)
