package props

import (
	"bytes"
	"encoding/json"
	"fmt"
	"sort"
	"testing"

	"pgregory.net/rapid"

	"verifharness/engine"
	"verifharness/gen"
	"verifharness/model"
	"verifharness/stats"

	dt "verifharness/dertree"
)

type c09Case struct {
	DER  []byte   `json:"der"`  // original
	DER2 []byte   `json:"der2"` // same TBS and algorithms, other signature bits
	Base string   `json:"base,omitempty"`
	Ops  []string `json:"ops,omitempty"`
	How  string   `json:"how,omitempty"`
}

func reverseBytes(b []byte) []byte {
	out := make([]byte, len(b))
	for i := range b {
		out[len(b)-1-i] = b[i]
	}
	return out
}

func judgeC09(rec *stats.Rec, c c09Case) (string, string) {
	c1, ok1 := gen.ParseCert(c.DER)
	c2, ok2 := gen.ParseCert(c.DER2)
	if !ok1 {
		rec.Class("parse_rejected")
		return "", ""
	}
	if bytes.Equal(c1.RawIssuer, c1.RawSubject) {
		rec.Class("self_issued_skipped")
		return "", ""
	}
	if !ok2 {
		// a parser that accepts one signature value and rejects another of the
		// same length is outside zlint; count, do not judge
		rec.Class("variant_rejected_by_parser")
		return "", ""
	}
	if !bytes.Equal(c1.RawTBSCertificate, c2.RawTBSCertificate) || len(c1.Signature) != len(c2.Signature) {
		rec.Class("harness_fault_not_same_tbs")
		return "", ""
	}
	if c1.SelfSigned || c2.SelfSigned {
		return "self-signed-flag", "a certificate whose issuer differs from its subject is flagged self-signed"
	}
	r1 := engine.Execute(engine.Case{Kind: gen.Cert, DER: c.DER}, true)
	r2 := engine.Execute(engine.Case{Kind: gen.Cert, DER: c.DER2}, false)
	if r1.RS == nil || r2.RS == nil {
		rec.Class("void")
		return "", ""
	}
	v1, v2 := engine.Verdicts(r1.RS), engine.Verdicts(r2.RS)
	names := make([]string, 0, len(v1))
	for n := range v1 {
		names = append(names, n)
	}
	sort.Strings(names)
	for _, n := range names {
		if v1[n].Status != v2[n].Status {
			return "status|" + n, fmt.Sprintf("signature change (%s) turns %s into %s", c.How, v1[n], v2[n])
		}
		if v1[n].Details != v2[n].Details {
			return "details|" + n, fmt.Sprintf("signature change (%s) changes details %q -> %q", c.How, short(v1[n].Details, 120), short(v2[n].Details, 120))
		}
	}
	ex := 0
	for _, e := range r1.Exp {
		if e.Stage == model.StExecuted {
			ex++
		}
	}
	if ex > 0 && !bytes.Equal(c1.Signature, c2.Signature) {
		rec.NT(stats.Hash(c.DER, c.DER2))
		rec.Class("sigalg_" + c1.SignatureAlgorithm.String())
	}
	return "", ""
}

// sigBodies: signature BIT STRING bodies of the corpus by length, for "a
// signature by a different key".
var sigByLen map[int][][]byte

func sigPool() map[int][][]byte {
	if sigByLen != nil {
		return sigByLen
	}
	sigByLen = map[int][][]byte{}
	for _, o := range gen.LoadCorpus().Certs {
		if v, err := gen.ViewCert(o.DER); err == nil {
			b := v.Signature().Body()
			sigByLen[len(b)] = append(sigByLen[len(b)], b)
		}
	}
	return sigByLen
}

// algPool: the distinct AlgorithmIdentifier encodings found in the corpus (inner and outer positions).
var algIDs []*dt.Node

func algPool() []*dt.Node {
	if algIDs != nil {
		return algIDs
	}
	seen := map[string]bool{}
	for _, o := range gen.LoadCorpus().Certs {
		if v, err := gen.ViewCert(o.DER); err == nil {
			for _, a := range []*dt.Node{v.InnerAlg(), v.OuterAlg()} {
				k := string(a.Encode())
				if !seen[k] && len(k) < 200 {
					seen[k] = true
					algIDs = append(algIDs, a)
				}
			}
		}
	}
	sort.Slice(algIDs, func(i, j int) bool { return string(algIDs[i].Encode()) < string(algIDs[j].Encode()) })
	return algIDs
}

// lookAlikeIssuers: names that a comparison by rendering, by attribute list or by normalised value may take for the
// subject although the encoded issuer differs from the encoded subject - string types swapped, all attributes in one
// multi-valued RDN, the last two RDNs merged, upper case, a trailing blank, RDNs reversed.
func lookAlikeIssuers(subject *dt.Node) []*dt.Node {
	var out []*dt.Node
	atvs := func(n *dt.Node) []*dt.Node {
		var l []*dt.Node
		for _, rdn := range n.Children {
			l = append(l, rdn.Children...)
		}
		return l
	}
	edit := func(f func(val *dt.Node)) *dt.Node {
		c := subject.Clone()
		for _, a := range atvs(c) {
			if len(a.Children) == 2 {
				f(a.Children[1])
			}
		}
		return c
	}
	out = append(out, edit(func(v *dt.Node) {
		switch {
		case v.Class == 0 && v.Tag == 19:
			v.Tag = 12
		case v.Class == 0 && v.Tag == 12 && isIA5(string(v.Content)):
			v.Tag = 19
		}
	}))
	out = append(out, edit(func(v *dt.Node) { v.Content = bytes.ToUpper(v.Content) }))
	out = append(out, edit(func(v *dt.Node) { v.Content = append(append([]byte{}, v.Content...), ' ') }))
	if l := atvs(subject); len(l) >= 2 {
		var cl []*dt.Node
		for _, a := range l {
			cl = append(cl, a.Clone())
		}
		out = append(out, dt.Seq(dt.Set(cl...)))
		m := subject.Clone()
		n := len(m.Children)
		if n >= 2 {
			m.Children[n-2].Children = append(m.Children[n-2].Children, m.Children[n-1].Children...)
			m.Children = m.Children[:n-1]
			out = append(out, m)
			r := subject.Clone()
			for i, j := 0, len(r.Children)-1; i < j; i, j = i+1, j-1 {
				r.Children[i], r.Children[j] = r.Children[j], r.Children[i]
			}
			out = append(out, r)
		}
	}
	return out
}

func TestC09(t *testing.T) {
	rec := newRec(t, "C09")
	// enumerated: certificates whose issuer is a look-alike of their subject (but not the same bytes: they are not
	// self-issued) and whose signature really verifies under their own key - against the same certificate with the
	// signature zeroed, one bit flipped, reversed. Whoever decides "self-signed" for himself, by comparing names his own
	// way and then trying the signature, makes the verdict follow the signature bits.
	{
		co := gen.LoadCorpus()
		k := 0
		for ci, o := range co.Certs {
			if ci%7 != 0 {
				continue
			}
			v0, err := gen.ViewCert(o.DER)
			if err != nil || len(v0.Subject().Children) == 0 {
				continue
			}
			for li, iss := range lookAlikeIssuers(v0.Subject()) {
				k++
				if !stats.Mine(k) {
					continue
				}
				v, _ := gen.ViewCert(o.DER)
				if bytes.Equal(iss.Encode(), v.Subject().Encode()) {
					continue
				}
				v.SetIssuer(iss)
				v.SelfSign()
				der := v.DER()
				sig := v.SignatureBytes()
				for vi, alt := range [][]byte{make([]byte, len(sig)), append(append([]byte{}, sig[:len(sig)-1]...), sig[len(sig)-1]^1), reverseBytes(sig)} {
					v2, _ := gen.ViewCert(der)
					v2.SetSignatureBytes(alt)
					c := c09Case{DER: der, DER2: v2.DER(), Base: o.Name, How: fmt.Sprintf("look-alike issuer #%d, own-key signature vs variant %d", li, vi)}
					rec.Eval()
					rec.Class("lookalike_issuer_own_key")
					if sig, msg := judgeC09(rec, c); msg != "" {
						if rec.Report("c09", sig, msg, c) {
							t.Fatalf("c09 %s %s: %s: %s", o.Name, c.How, sig, msg)
						}
					}
				}
			}
		}
	}
	// enumerated: every (inner, outer) pair of AlgorithmIdentifier encodings of the corpus - equal or not,
	// RSA-PSS parameters, ECDSA, EdDSA, legacy - on two non-self-issued certificates, each with three
	// replacement signatures: a lint that compares or quotes the two identifiers must not reach into the
	// signature bits that follow them
	{
		co := gen.LoadCorpus()
		var bases []gen.Obj
		for _, o := range co.Certs {
			if pc, ok := gen.ParseCert(o.DER); ok && !bytes.Equal(pc.RawIssuer, pc.RawSubject) && !pc.IsCA && pc.NotBefore.Year() >= 2019 && len(pc.Signature) >= 64 {
				bases = append(bases, o)
				if len(bases) == 2 {
					break
				}
			}
		}
		pool := algPool()
		k := 0
		for _, b := range bases {
			for i, inner := range pool {
				for j, outer := range pool {
					k++
					if !stats.Mine(k) {
						continue
					}
					v, err := gen.ViewCert(b.DER)
					if err != nil {
						continue
					}
					v.SetInnerAlg(inner.Clone())
					v.SetOuterAlg(outer.Clone())
					ref := v.DER()
					old := v.Signature().Body()
					for _, how := range []string{"all-zero", "all-one", "counting", "unused-bits-3", "unused-bits-7"} {
						nb := append([]byte{}, old...)
						for x := 1; x < len(nb); x++ {
							switch how {
							case "all-zero":
								nb[x] = 0
							case "all-one":
								nb[x] = 0xff
							default:
								nb[x] = byte(x)
							}
						}
						// a BIT STRING of the same length whose last octet is only partly used (valid DER: the unused bits are zero)
						if how == "unused-bits-3" {
							nb[0], nb[len(nb)-1] = 3, nb[len(nb)-1]&^7
						} else if how == "unused-bits-7" {
							nb[0], nb[len(nb)-1] = 7, 0x80
						}
						v2, _ := gen.ViewCert(ref)
						v2.Root.Children[2] = dt.Prim(0, 3, nb)
						c := c09Case{DER: ref, DER2: v2.DER(), Base: b.Name, Ops: []string{fmt.Sprintf("inner-alg=#%d outer-alg=#%d", i, j)}, How: how}
						rec.Eval()
						rec.Class("alg_pairs_enumerated")
						if sig, msg := judgeC09(rec, c); msg != "" {
							if rec.Report("c09", sig, msg, c) {
								t.Fatalf("c09 %s inner #%d outer #%d %s: %s: %s", b.Name, i, j, how, sig, msg)
							}
						}
					}
				}
			}
		}
		rec.Note("alg-pairs", fmt.Sprintf("%d distinct AlgorithmIdentifier encodings x themselves on %d bases x 3 signatures", len(pool), len(bases)))
	}
	// enumerated: the last extension is one no parser decodes (a private OID) and its value is a nest whose lengths lie
	// a little at every level (gen.LyingNest): a lint that walks extension values by hand and trusts each length to
	// within a few bytes ends up reading what follows the extensions - the outer algorithm identifier and then the
	// signature. Also as the first extension, and inside a known extension's place (the value of a second, unknown
	// policy qualifier is not attempted: parsers reject it).
	{
		co := gen.LoadCorpus()
		var bases []gen.Obj
		seenAlg := map[string]bool{}
		for _, o := range co.Certs {
			if pc, ok := gen.ParseCert(o.DER); ok && !bytes.Equal(pc.RawIssuer, pc.RawSubject) && len(pc.Signature) >= 64 && !seenAlg[pc.SignatureAlgorithm.String()] && len(pc.Extensions) > 0 {
				seenAlg[pc.SignatureAlgorithm.String()] = true
				bases = append(bases, o)
				if len(bases) == 3 {
					break
				}
			}
		}
		k := 0
		for _, b := range bases {
			for depth := 0; depth <= 14; depth += 1 {
				for lenOctets := 1; lenOctets <= 3; lenOctets++ {
					for _, slack := range []int{lenOctets, 1, 3} {
						for _, pastKind := range []int{0, 1, 2, 3} {
							k++
							if !stats.Mine(k) {
								continue
							}
							reach := depth * slack
							past := []int{0, reach - 1, reach / 2, reach + 40}[pastKind]
							if past < 0 {
								past = 0
							}
							v, err := gen.ViewCert(b.DER)
							if err != nil {
								continue
							}
							nest := gen.LyingNest(300, depth, lenOctets, slack, past)
							ext := dt.Seq(dt.OID(1, 3, 6, 1, 4, 1, 99999, 7, 1), dt.Prim(0, 4, nest))
							seq := v.EnsureExtensions()
							if k%5 == 0 {
								seq.Children = append([]*dt.Node{ext}, seq.Children...)
							} else {
								seq.Children = append(seq.Children, ext)
							}
							ref := v.DER()
							old := v.Signature().Body()
							for _, how := range []string{"all-zero", "all-one", "counting", "one-bit"} {
								nb := append([]byte{}, old...)
								for x := 1; x < len(nb); x++ {
									switch how {
									case "all-zero":
										nb[x] = 0
									case "all-one":
										nb[x] = 0xff
									case "counting":
										nb[x] = byte(x * 7)
									}
								}
								if how == "one-bit" && len(nb) > 2 {
									nb[1] ^= 0x40
								}
								v2, _ := gen.ViewCert(ref)
								v2.Root.Children[2] = dt.Prim(0, 3, nb)
								c := c09Case{DER: ref, DER2: v2.DER(), Base: b.Name, Ops: []string{fmt.Sprintf("lying nest in an opaque extension: depth=%d length-octets=%d slack=%d past=%d first=%v", depth, lenOctets, slack, past, k%5 == 0)}, How: how}
								rec.Eval()
								rec.Class("lying_nest")
								if sig, msg := judgeC09(rec, c); msg != "" {
									if rec.Report("c09", sig, msg, c) {
										t.Fatalf("c09 %s %v %s: %s: %s", b.Name, c.Ops, how, sig, msg)
									}
								}
							}
						}
					}
				}
			}
		}
	}
	rapidRun(t, "resign", perShard(stats.Scale(15000, 600000)), func(rt *rapid.T) {
		cc := gen.DrawCert(rt, 3, true)
		v, err := gen.ViewCert(cc.DER)
		if err != nil {
			rec.Class("no_view")
			return
		}
		if rapid.IntRange(0, 3).Draw(rt, "algswap") == 0 {
			// other algorithm identifiers in the inner and / or outer position (both sides of the pair)
			pool := algPool()
			if rapid.Bool().Draw(rt, "swapinner") {
				v.SetInnerAlg(pool[rapid.IntRange(0, len(pool)-1).Draw(rt, "inneralg")].Clone())
			}
			if rapid.Bool().Draw(rt, "swapouter") {
				v.SetOuterAlg(pool[rapid.IntRange(0, len(pool)-1).Draw(rt, "outeralg")].Clone())
			}
			cc.DER = v.DER()
			cc.Ops = append(cc.Ops, "alg-identifiers-swapped")
		}
		old := v.Signature().Body()
		if len(old) < 2 {
			rec.Class("empty_signature")
			return
		}
		nb := append([]byte{}, old...)
		how := ""
		// embed writes material into the signature bits at a drawn offset (length kept)
		embed := func(mat []byte, lbl string) {
			if len(mat) == 0 || len(nb) < 3 {
				return
			}
			if len(mat) > len(nb)-1 {
				mat = mat[:len(nb)-1]
			}
			off := 1 + rapid.IntRange(0, len(nb)-1-len(mat)).Draw(rt, lbl+"off")
			if rapid.Bool().Draw(rt, lbl+"fill") {
				r := rapid.SliceOfN(rapid.Byte(), len(nb)-1, len(nb)-1).Draw(rt, lbl+"rnd")
				copy(nb[1:], r)
			}
			copy(nb[off:], mat)
		}
		switch rapid.IntRange(0, 10).Draw(rt, "how") {
		case 10:
			// same number of octets, but the last one only partly used
			u := rapid.IntRange(1, 7).Draw(rt, "unused")
			r := rapid.SliceOfN(rapid.Byte(), len(old)-1, len(old)-1).Draw(rt, "rnd")
			copy(nb[1:], r)
			nb[0] = byte(u)
			nb[len(nb)-1] &^= byte(1<<uint(u) - 1)
			how = fmt.Sprintf("unused-bits-%d", u)
		case 7:
			// the signature bits spell a piece of the certificate's own tbsCertificate
			tbs := v.TBS.Encode()
			off := rapid.IntRange(0, len(tbs)-1).Draw(rt, "tbsoff")
			embed(tbs[off:], "tbs")
			how = "own-tbs-slice"
		case 8:
			// ... or one of its own extensions, re-encoded (as is / explicit critical FALSE / critical TRUE / the whole list)
			if exts := v.Extensions(); exts != nil && len(exts.Children) > 0 {
				x := exts.Children[rapid.IntRange(0, len(exts.Children)-1).Draw(rt, "ext")].Clone()
				switch rapid.IntRange(0, 3).Draw(rt, "extform") {
				case 0:
				case 1:
					if len(x.Children) == 2 {
						x.Children = []*dt.Node{x.Children[0], dt.Prim(0, 1, []byte{0x00}), x.Children[1]}
					}
				case 2:
					if len(x.Children) == 2 {
						x.Children = []*dt.Node{x.Children[0], dt.Prim(0, 1, []byte{0xff}), x.Children[1]}
					} else if len(x.Children) == 3 {
						x.Children[1] = dt.Prim(0, 1, []byte{0x00})
					}
				default:
					x = exts.Clone()
				}
				embed(x.Encode(), "ext")
				how = "own-extension-reencoded"
			} else {
				nb[1] ^= 0x01
				how = "first-byte"
			}
		case 9:
			// ... or its own names / key
			parts := [][]byte{v.Subject().Encode(), v.Issuer().Encode(), v.SPKI().Encode(), v.Validity().Encode(), v.Serial().Encode()}
			if san := v.Ext(gen.OIDExtSAN...); san != nil {
				parts = append(parts, gen.ExtValue(san).Body())
			}
			embed(parts[rapid.IntRange(0, len(parts)-1).Draw(rt, "part")], "part")
			how = "own-name-or-key"
		case 0:
			r := rapid.SliceOfN(rapid.Byte(), len(old)-1, len(old)-1).Draw(rt, "rnd")
			copy(nb[1:], r)
			how = "random"
		case 1:
			for i := 1; i < len(nb); i++ {
				nb[i] = 0
			}
			how = "all-zero"
		case 2:
			for i := 1; i < len(nb); i++ {
				nb[i] = 0xff
			}
			how = "all-one"
		case 3:
			i := rapid.IntRange(1, len(nb)-1).Draw(rt, "byte")
			nb[i] ^= 1 << uint(rapid.IntRange(0, 7).Draw(rt, "bit"))
			how = "bit-flip"
		case 4:
			pool := sigPool()[len(old)]
			if len(pool) > 1 {
				nb = append([]byte{}, pool[rapid.IntRange(0, len(pool)-1).Draw(rt, "other")]...)
				nb[0] = old[0]
				how = "other-certificate's-signature"
			} else {
				nb[len(nb)-1] ^= 0x5a
				how = "last-byte"
			}
		case 5:
			// a well-formed ECDSA-Sig-Value of the same total length
			if len(old) >= 1+8 {
				body := len(old) - 1 - 2 // SEQUENCE header (short form) when < 128
				if body >= 6 && body < 128 {
					rl := (body - 4) / 2
					sl := body - 4 - rl
					r := rapid.SliceOfN(rapid.Byte(), rl, rl).Draw(rt, "r")
					s := rapid.SliceOfN(rapid.Byte(), sl, sl).Draw(rt, "s")
					r[0] = r[0]&0x7f | 0x01
					s[0] = s[0]&0x7f | 0x01
					seq := dt.Seq(dt.Prim(0, 2, r), dt.Prim(0, 2, s)).Encode()
					if len(seq) == len(old)-1 {
						nb = append([]byte{old[0]}, seq...)
						how = "fresh-ecdsa-sig-value"
					}
				}
			}
			if how == "" {
				nb[1] ^= 0x80
				how = "first-bit"
			}
		default:
			// reversed bytes
			for i, j := 1, len(nb)-1; i < j; i, j = i+1, j-1 {
				nb[i], nb[j] = nb[j], nb[i]
			}
			how = "reversed"
		}
		v.Root.Children[2] = dt.Prim(0, 3, nb)
		c := c09Case{DER: cc.DER, DER2: v.DER(), Base: cc.Base, Ops: cc.Ops, How: how}
		rec.Eval()
		rec.Class("how_" + how)
		if sig, msg := judgeC09(rec, c); msg != "" {
			fail(rt, rec, "c09", sig, msg, c)
		}
		if rec.WantSample() && rapid.IntRange(0, 60).Draw(rt, "smp") == 0 {
			rec.Sample(map[string]interface{}{"base": cc.Base, "ops": cc.Ops, "how": how, "sig_len": len(old) - 1})
		}
	})
}

func init() {
	registerReplayer("c09", func(rec *stats.Rec, raw json.RawMessage) (string, string) {
		var c c09Case
		if err := json.Unmarshal(raw, &c); err != nil {
			return "decode", err.Error()
		}
		return judgeC09(rec, c)
	})
}
