package props

import (
	"encoding/json"
	"fmt"
	"sort"
	"testing"
	"time"

	"github.com/zmap/zcrypto/x509"
	"github.com/zmap/zlint/v3"
	"github.com/zmap/zlint/v3/lint"
	"golang.org/x/crypto/ocsp"
	"pgregory.net/rapid"

	"verifharness/engine"
	"verifharness/gen"
	"verifharness/model"
	"verifharness/stats"
)

// c03Case: an object (already dated) judged for every lint of its kind.
type c03Case struct {
	engine.Case
	Instant string `json:"instant,omitempty"`
	Form    string `json:"form,omitempty"`
	Lint    string `json:"lint,omitempty"`    // the lint whose boundary was targeted
	InZone  string `json:"in_zone,omitempty"` // additionally: parsed struct date converted to this zone
}

func objDate(run *engine.Run, k gen.Kind) time.Time {
	switch k {
	case gen.Cert:
		return run.Cert.NotBefore
	case gen.CRL:
		return run.CRL.ThisUpdate
	default:
		return run.OCSP.NextUpdate
	}
}

// judgeC03: outside the window => NA or NE and never pass/info/warn/error;
// in scope, applicable: inside => the body's verdict (never NE), outside => NE.
func judgeC03(rec *stats.Rec, c c03Case) (string, string) {
	run := engine.Execute(c.Case, true)
	if !run.Parsed {
		rec.Class("parse_rejected")
		return "", ""
	}
	if run.SetupErr != "" || run.Hang || run.Panic != "" || run.RS == nil {
		rec.Class("void")
		return "", ""
	}
	date := objDate(run, c.Kind)
	v := engine.Verdicts(run.RS)
	check := func(v map[string]model.Verdict, exp map[string]model.Expected, how string) (string, string) {
		names := make([]string, 0, len(v))
		for n := range v {
			names = append(names, n)
		}
		sort.Strings(names)
		for _, n := range names {
			m := run.Metas[n]
			x := v[n]
			in := model.Window(m.EffectiveDate, m.IneffectiveDate, date)
			e := exp[n]
			if !in && x.Status != lint.NA && x.Status != lint.NE {
				return "outside-window|" + n + "|" + x.Status.String(), fmt.Sprintf("%s: object dated %s is outside [%s, %s) but result is %s", how,
					date.UTC().Format(time.RFC3339), fmtDate(m.EffectiveDate), fmtDate(m.IneffectiveDate), x.Status)
			}
			switch e.Stage {
			case model.StNotEffective:
				if x.Status != lint.NE {
					return "applicable-outside-not-NE|" + n, fmt.Sprintf("%s: applicable object outside the window got %s, want NE", how, x.Status)
				}
				rec.Class("applicable_outside")
			case model.StExecuted:
				if x.Status == lint.NE {
					return "inside-window-NE|" + n, fmt.Sprintf("%s: applicable object dated %s inside [%s, %s) got NE", how,
						date.UTC().Format(time.RFC3339), fmtDate(m.EffectiveDate), fmtDate(m.IneffectiveDate))
				}
				if x.Status != e.V.Status {
					return "inside-window-verdict|" + n, fmt.Sprintf("%s: inside the window the result is %s but the rule body says %s", how, x.Status, e.V.Status)
				}
				rec.Class("applicable_inside")
			}
			// NT: applicable and within 1 s of one of the lint's boundaries
			if e.Stage == model.StNotEffective || e.Stage == model.StExecuted {
				for bi, b := range []time.Time{m.EffectiveDate, m.IneffectiveDate} {
					if b.IsZero() {
						continue
					}
					d := date.Unix() - b.Unix()
					if d >= -1 && d <= 1 {
						rec.NT(stats.HashS("boundary", n, fmt.Sprint(bi), fmt.Sprint(d), string(c.Kind), fmt.Sprint(stats.Hash(c.DER))))
						rec.Class(fmt.Sprintf("boundary_%s_%+d", []string{"eff", "ineff"}[bi], d))
					}
				}
			}
		}
		return "", ""
	}
	if sig, msg := check(v, run.Exp, "DER"); msg != "" {
		return sig, msg
	}
	// the same lints reached through the deprecated lookups (Registry.ByName / BySource hand out
	// *lint.Lint copies with their own window fields): same window, same verdict
	if c.Kind == gen.Cert {
		names := make([]string, 0, len(v))
		for n := range v {
			names = append(names, n)
		}
		sort.Strings(names)
		c3, _ := gen.ParseCert(c.DER)
		for _, n := range names {
			dep := run.Reg.ByName(n)
			if dep == nil {
				return "deprecated-lookup|" + n, "Registry.ByName does not know a certificate lint of the registry"
			}
			m := run.Metas[n]
			in := model.Window(m.EffectiveDate, m.IneffectiveDate, date)
			if got := dep.CheckEffective(c3); got != in {
				return "deprecated-window|" + n, fmt.Sprintf("Registry.ByName(%q).CheckEffective = %v for an object dated %s, window [%s, %s)", n, got,
					date.UTC().Format(time.RFC3339), fmtDate(m.EffectiveDate), fmtDate(m.IneffectiveDate))
			}
			if r := dep.Execute(c3, run.Cfg); r == nil || r.Status != v[n].Status {
				st := "nil"
				if r != nil {
					st = r.Status.String()
				}
				return "deprecated-verdict|" + n, fmt.Sprintf("Registry.ByName(%q).Execute reports %s, the registry run reports %s (object dated %s)", n, st, v[n].Status, date.UTC().Format(time.RFC3339))
			}
			// the copy is the caller's: whoever moves its window (exported fields of an exported type) moves the
			// window the copy is judged by - around the object's date, one second either side
			for wi, w := range [][2]time.Time{{date.Add(time.Second), {}}, {{}, date}, {date, date.Add(time.Second)}, {{}, date.Add(time.Second)}, {date.Add(-time.Second), date}} {
				mine := run.Reg.ByName(n)
				if mine == nil {
					break
				}
				mine.EffectiveDate, mine.IneffectiveDate = w[0], w[1]
				want := model.Window(w[0], w[1], date)
				if got := mine.CheckEffective(c3); got != want {
					return "deprecated-window|moved", fmt.Sprintf("Registry.ByName(%q) with its window set to [%s, %s) (variant %d): CheckEffective = %v for an object dated %s", n, fmtDate(w[0]), fmtDate(w[1]), wi, got, date.UTC().Format(time.RFC3339))
				}
				if r := mine.Execute(c3, run.Cfg); r != nil && !want && r.Status != lint.NA && r.Status != lint.NE && r.Status != lint.Fatal {
					return "deprecated-window|moved", fmt.Sprintf("Registry.ByName(%q) with its window set to [%s, %s) (variant %d) reports %s for an object dated %s, outside that window", n, fmtDate(w[0]), fmtDate(w[1]), wi, r.Status, date.UTC().Format(time.RFC3339))
				}
			}
		}
		for _, src := range run.Reg.Sources() {
			for _, dep := range run.Reg.BySource(src) {
				m, ok := run.Metas[dep.Name]
				if !ok {
					continue
				}
				if got, in := dep.CheckEffective(c3), model.Window(m.EffectiveDate, m.IneffectiveDate, date); got != in {
					return "deprecated-window|" + dep.Name, fmt.Sprintf("Registry.BySource(%s) lint %q: CheckEffective = %v, window says %v", src, dep.Name, got, in)
				}
			}
		}
	}
	// time-zone independence through the parsed struct
	if c.InZone != "" {
		loc := time.FixedZone(c.InZone, zoneOffset(c.InZone))
		var rs2 *zlint.ResultSet
		exp2 := map[string]model.Expected{}
		// the zone of the parsed times is itself an input of some lints (UTCTime
		// "Z" checks), so the reference lifecycle runs on an equally converted twin
		switch c.Kind {
		case gen.Cert:
			conv := func() *x509.Certificate {
				c2, _ := gen.ParseCert(c.DER)
				c2.NotBefore = c2.NotBefore.In(loc)
				c2.NotAfter = c2.NotAfter.In(loc)
				return c2
			}
			rs2 = zlint.LintCertificateEx(conv(), run.Reg)
			twin := conv()
			for _, l := range run.Reg.CertificateLints().Lints() {
				exp2[l.Name] = model.ExpectCert(l, twin, run.Cfg)
			}
		case gen.CRL:
			conv := func() *x509.RevocationList {
				c2, _ := gen.ParseCRL(c.DER)
				c2.ThisUpdate = c2.ThisUpdate.In(loc)
				c2.NextUpdate = c2.NextUpdate.In(loc)
				return c2
			}
			rs2 = zlint.LintRevocationListEx(conv(), run.Reg)
			twin := conv()
			for _, l := range run.Reg.RevocationListLints().Lints() {
				exp2[l.Name] = model.ExpectCRL(l, twin, run.Cfg)
			}
		case gen.OCSP:
			conv := func() *ocsp.Response {
				o2, _ := gen.ParseOCSP(c.DER)
				o2.NextUpdate = o2.NextUpdate.In(loc)
				o2.ThisUpdate = o2.ThisUpdate.In(loc)
				o2.ProducedAt = o2.ProducedAt.In(loc)
				return o2
			}
			rs2 = zlint.LintOcspResponseEx(conv(), run.Reg)
			twin := conv()
			for _, l := range run.Reg.OcspResponseLints().Lints() {
				exp2[l.Name] = model.ExpectOCSP(l, twin, run.Cfg)
			}
		}
		v2 := engine.Verdicts(rs2)
		if sig, msg := check(v2, exp2, "zone "+c.InZone); msg != "" {
			return "zone|" + sig, msg
		}
	}
	return "", ""
}

func zoneOffset(z string) int {
	switch z {
	case "P14":
		return 14 * 3600
	case "M12":
		return -12 * 3600
	case "P0530":
		return 5*3600 + 1800
	}
	return 0
}

func fmtDate(t time.Time) string {
	if t.IsZero() {
		return "-"
	}
	return t.UTC().Format(time.RFC3339)
}

// redated returns the object re-dated so that its governing date is `at`.
func redatedCase(o gen.Obj, at time.Time, form gen.TimeForm) (engine.Case, bool) {
	c := engine.Case{Kind: o.Kind, Base: o.Name, Ops: []string{"redate:" + at.UTC().Format(time.RFC3339) + ":" + form.String()}}
	switch o.Kind {
	case gen.Cert:
		pc, ok := gen.ParseCert(o.DER)
		v, err := gen.ViewCert(o.DER)
		if !ok || err != nil {
			return c, false
		}
		gen.Redate(v, pc, at, form)
		if pc.SelfSigned {
			v.SelfSign()
		}
		c.DER = v.DER()
	case gen.CRL:
		pc, ok := gen.ParseCRL(o.DER)
		v, err := gen.ViewCRL(o.DER)
		if !ok || err != nil {
			return c, false
		}
		v.SetThisUpdate(at, form)
		if !pc.NextUpdate.IsZero() {
			v.SetNextUpdate(at.Add(pc.NextUpdate.Sub(pc.ThisUpdate)), form)
		}
		c.DER = v.DER()
	case gen.OCSP:
		po, ok := gen.ParseOCSP(o.DER)
		v, err := gen.ViewOCSP(o.DER)
		if !ok || err != nil {
			return c, false
		}
		// OCSP lints are dated by nextUpdate
		this := po.ThisUpdate
		if err := v.SetSingleTimes(this, &at); err != nil {
			return c, false
		}
		c.DER = v.DER()
	}
	return c, true
}

func kindObjs(k string) []gen.Obj {
	co := gen.LoadCorpus()
	switch k {
	case "cert":
		return co.Certs
	case "crl":
		return co.CRLs
	}
	return co.OCSPs
}

// forEachBoundaryCase enumerates: every lint with a dated boundary x K of its
// home objects x {eff, ineff} x {-1 s, 0, +1 s} x time forms (this shard's share).
func forEachBoundaryCase(rec *stats.Rec, K int, forms []gen.TimeForm, fn func(k int, l regLint, o gen.Obj, at time.Time, fi int, f gen.TimeForm)) {
	hm := homeObjects()
	reg := registryLints(lint.GlobalRegistry())
	sort.Slice(reg, func(i, j int) bool { return reg[i].Name < reg[j].Name })
	k := 0
	for _, l := range reg {
		hs := hm[l.Name]
		if len(hs) == 0 {
			rec.Class("lint_without_home")
			continue
		}
		var bounds []time.Time
		for _, b := range []time.Time{l.Meta.EffectiveDate, l.Meta.IneffectiveDate} {
			if !b.IsZero() && b.Year() >= 1951 && b.Year() < 2049 {
				bounds = append(bounds, b)
			}
		}
		if len(bounds) == 0 {
			rec.Class("lint_without_boundary")
			continue
		}
		objs := kindObjs(l.Kind)
		// spread the K homes over the list deterministically (seed-dependent start)
		step := len(hs)/K + 1
		start := int(verifSeed()) % step
		for hi := start; hi < len(hs); hi += step {
			o := objs[hs[hi]]
			for _, b := range bounds {
				for _, d := range []time.Duration{-time.Second, 0, time.Second, -500 * time.Millisecond, -time.Nanosecond, 500 * time.Millisecond} {
					for fi, f := range forms {
						// fractions of a second exist in GeneralizedTime only (OCSP times always are)
						if d%time.Second != 0 && f != gen.GenZ && l.Kind != "ocsp" {
							continue
						}
						k++
						if !stats.Mine(k) {
							continue
						}
						fn(k, l, o, b.Add(d), fi, f)
					}
				}
			}
		}
	}
}

func TestC03(t *testing.T) {
	rec := newRec(t, "C03")
	K := stats.Scale(2, 12)
	forms := []gen.TimeForm{gen.UTCZ, gen.GenZ}
	if stats.Thorough() {
		forms = []gen.TimeForm{gen.UTCZ, gen.GenZ, gen.UTCPlus, gen.UTCMinus}
	}
	zones := []string{"", "P14", "M12", "P0530"}
	// (a) boundary sweep, enumerated
	forEachBoundaryCase(rec, K, forms, func(k int, l regLint, o gen.Obj, at time.Time, fi int, f gen.TimeForm) {
		c, ok := redatedCase(o, at, f)
		if !ok {
			rec.Class("redate_failed")
			return
		}
		cc := c03Case{Case: c, Instant: at.UTC().Format(time.RFC3339), Form: f.String(), Lint: l.Name, InZone: zones[(k+fi)%len(zones)]}
		// the targeted lint plus the rest of the registry are judged
		rec.Eval()
		rec.Class("directed")
		if sig, msg := judgeC03(rec, cc); msg != "" {
			if rec.Report("c03", sig, msg, cc) {
				t.Fatalf("c03 directed %s on %s at %s (%s): %s: %s", l.Name, o.Name, cc.Instant, f, sig, msg)
			}
		} else if rec.WantSample() && k%37 == 0 {
			rec.Sample(map[string]interface{}{"lint": l.Name, "base": o.Name, "instant": cc.Instant, "form": cc.Form, "zone": cc.InZone,
				"effective": fmtDate(l.Meta.EffectiveDate), "ineffective": fmtDate(l.Meta.IneffectiveDate)})
		}
	})
	rec.Exhaustive("boundary-sweep(lints x K homes x 6 instants x forms)", true)
	// (b) random: any generated object re-dated by the openers / uniform
	rapidRun(t, "random", perShard(stats.Scale(10000, 300000)), func(rt *rapid.T) {
		c := drawObject(rt, 2, true)
		// force a re-date on top for certificates half of the time
		cc := c03Case{Case: c}
		if rapid.Bool().Draw(rt, "zone") {
			cc.InZone = rapid.SampledFrom([]string{"P14", "M12", "P0530"}).Draw(rt, "zonename")
		}
		if c.Kind != gen.Cert && rapid.Bool().Draw(rt, "redate2") {
			objs := kindObjs(string(c.Kind))
			o := objs[rapid.IntRange(0, len(objs)-1).Draw(rt, "obj")]
			at := gen.DrawInstant(rt)
			if c2, ok := redatedCase(o, at, gen.TimeForm(rapid.IntRange(0, 3).Draw(rt, "form"))); ok {
				cc.Case = c2
			}
		}
		rec.Eval()
		rec.Class("random")
		if sig, msg := judgeC03(rec, cc); msg != "" {
			fail(rt, rec, "c03", sig, msg, cc)
		}
	})
}

func init() {
	registerReplayer("c03", func(rec *stats.Rec, raw json.RawMessage) (string, string) {
		var c c03Case
		if err := json.Unmarshal(raw, &c); err != nil {
			return "decode", err.Error()
		}
		return judgeC03(rec, c)
	})
}
