package props

import (
	"encoding/json"
	"fmt"
	"sort"
	"testing"

	"github.com/zmap/zlint/v3/lint"
	"pgregory.net/rapid"

	"verifharness/engine"
	"verifharness/gen"
	"verifharness/model"
	"verifharness/stats"

	dt "verifharness/dertree"
)

// judgeC02: no recovered-panic result, no escaping panic, every fatal is an
// explicit decision of the lint body (configuration is left empty).
func judgeC02(rec *stats.Rec, c engine.Case) (string, string, *engine.Run) {
	return judgeC02Run(rec, c, engine.Execute(c, true))
}

func judgeC02Run(rec *stats.Rec, c engine.Case, run *engine.Run) (string, string, *engine.Run) {
	if !run.Parsed {
		rec.Class("parse_rejected")
		return "", "", run
	}
	if run.SetupErr != "" {
		rec.Class("setup_void")
		return "", "", run
	}
	if run.Hang {
		return "hang|" + string(c.Kind), "lint call did not return", run
	}
	if run.Panic != "" {
		return "escape|" + string(c.Kind) + "|" + model.TopZlintFrame(run.Stack), "panic escaped " + string(c.Kind) + " linting: " + run.Panic, run
	}
	v := engine.Verdicts(run.RS)
	names := make([]string, 0, len(v))
	for n := range v {
		names = append(names, n)
	}
	sort.Strings(names)
	for _, n := range names {
		x := v[n]
		e, ok := run.Exp[n]
		if engine.IsPanicReport(n, x) {
			frame := "?"
			if ok && e.Stage == model.StPanicked {
				frame = model.TopZlintFrame(e.Stack)
			}
			return "panic|" + n + "|" + frame, "lint failed internally: " + x.Details, run
		}
		if ok && e.Stage == model.StPanicked {
			return "panic|" + n + "|" + model.TopZlintFrame(e.Stack), "lint body panics when called directly: " + e.PanicVal, run
		}
		if ok && e.NilRes {
			return "nil-result|" + n, "lint body returned a nil result", run
		}
		if x.Status == lint.Fatal && c.Config == nil {
			if !ok || e.Stage != model.StExecuted || e.V.Status != lint.Fatal {
				return "fatal-not-explicit|" + n, fmt.Sprintf("fatal result %q is not what the lint body returns (reference stage %v)", x.Details, e.Stage), run
			}
		}
		if ok && e.Stage == model.StExecuted {
			rec.Class("exec:" + n)
		}
	}
	return "", "", run
}

// sweepCase builds single-edit mutant number (leaf, edit) of a corpus certificate.
func sweepMutant(base gen.Obj, leaf, edit int) ([]byte, bool) {
	root, err := dt.Parse(base.DER)
	if err != nil {
		return nil, false
	}
	ls := root.Leaves()
	if leaf >= len(ls) {
		return nil, false
	}
	gen.ApplyLeafEdit(ls[leaf], edit)
	if c, ok := gen.ParseCert(base.DER); ok && c.SelfSigned && base.Kind == gen.Cert {
		if v, err := gen.ViewCertTree(root); err == nil {
			v.SelfSign()
		}
	}
	return root.Encode(), true
}

func TestC02(t *testing.T) {
	rec := newRec(t, "C02")
	co := gen.LoadCorpus()
	corpusSet := map[uint64]bool{}
	for _, objs := range [][]gen.Obj{co.Certs, co.CRLs, co.OCSPs, gen.ReasonCodeCRLs(), gen.LargeCRLs()} {
		for _, o := range objs {
			corpusSet[stats.Hash(o.DER)] = true
		}
	}
	judge := func(c engine.Case) (string, string) {
		rec.Eval()
		sig, msg, run := judgeC02(rec, c)
		if msg == "" && run.Parsed && run.SetupErr == "" && !corpusSet[stats.Hash(c.DER)] {
			ex := 0
			for _, e := range run.Exp {
				if e.Stage == model.StExecuted {
					ex++
				}
			}
			if ex > 0 {
				rec.NT(stats.Hash(c.DER))
				rec.Class("kind_" + string(c.Kind))
				if rec.WantSample() {
					rec.Sample(sampleCase(c, map[string]interface{}{"bodies_executed": ex, "statuses": statusCounts(engine.Verdicts(run.RS))}))
				}
			}
		}
		return sig, msg
	}
	// corpus itself
	idx := 0
	for _, objs := range [][]gen.Obj{co.Certs, co.CRLs, co.OCSPs, gen.ReasonCodeCRLs(), gen.LargeCRLs()} {
		for _, o := range objs {
			idx++
			if !stats.Mine(idx) {
				continue
			}
			c := engine.Case{Kind: o.Kind, DER: o.DER, Base: o.Name}
			if sig, msg := judge(c); msg != "" {
				if rec.Report("c02", sig, msg, c) {
					t.Errorf("c02 corpus %s: %s: %s", o.Name, sig, msg)
				}
			}
		}
	}
	// single-edit sweep over the whole corpus: a strided sample in quick (full registry); complete in
	// thorough - every object x every leaf x every type-aware edit, linted with everything but the Fermat
	// lint (60 % of the cost of a run, and a function of the key alone), which gets the key leaves of every
	// object in a pass of its own.
	all := append(append(append([]gen.Obj{}, co.Certs...), co.CRLs...), co.OCSPs...)
	if stats.Thorough() {
		var cover []sweepBase
		for _, o := range all {
			cover = append(cover, sweepBase{Obj: o, Exclude: []string{fermatLint}})
		}
		for _, o := range co.Certs {
			cover = append(cover, sweepBase{Obj: o, Lints: []string{fermatLint}, KeyLeavesOnly: true})
		}
		sweepBases(rec, cover, nil, true, "c02", func(c engine.Case, run *engine.Run) (string, string) {
			sig, msg, _ := judgeC02Run(rec, c, run)
			if msg == "" && run.Parsed {
				for _, e := range run.Exp {
					if e.Stage == model.StExecuted {
						rec.NT(stats.Hash(c.DER))
						break
					}
				}
			}
			return sig, msg
		}, func(s string) { t.Fatalf("%s", s) })
		rec.Exhaustive("single-edit-sweep", true)
	} else {
		stride := 97
		off := int(verifSeed() % uint64(stride))
		k := 0
		sweepDone := 0
		for bi, o := range all {
			root, err := dt.Parse(o.DER)
			if err != nil {
				continue
			}
			lvs := root.Leaves()
			for leaf := 0; leaf < len(lvs); leaf++ {
				for e, ne := 0, gen.LeafEditCount(lvs[leaf]); e < ne; e++ {
					k++
					if (k+off)%stride != 0 || !stats.Mine(k/stride) {
						continue
					}
					der, ok := sweepMutant(o, leaf, e)
					if !ok {
						continue
					}
					sweepDone++
					c := engine.Case{Kind: o.Kind, DER: der, Base: o.Name, Ops: []string{fmt.Sprintf("sweep leaf=%d edit=%d", leaf, e)}}
					if sig, msg := judge(c); msg != "" {
						if rec.Report("c02", sig, msg, c) {
							t.Fatalf("c02 sweep %s (#%d) leaf=%d edit=%d: %s: %s", o.Name, bi, leaf, e, sig, msg)
						}
					}
				}
			}
		}
		rec.ClassN("strided_sweep_cases", int64(sweepDone))
		rec.Exhaustive("single-edit-sweep", false)
	}
	// home sweep: every lint's own single-edit neighbourhood (enumerated in both tiers)
	homeSweep(rec, stats.Scale(2, 4), true, "c02", func(c engine.Case, run *engine.Run) (string, string) {
		sig, msg, _ := judgeC02Run(rec, c, run)
		if msg == "" && run.Parsed {
			for n, e := range run.Exp {
				_ = n
				if e.Stage == model.StExecuted {
					rec.NT(stats.Hash(c.DER))
					break
				}
			}
		}
		return sig, msg
	}, func(s string) { t.Fatalf("%s", s) })
	// the soak history: no lint fails internally on an object met again after many distinct others
	soakHistory(rec, stats.Scale(1600, 12000), soakVisitC02, func(s string) { t.Fatalf("%s", s) })
	// enumerated: revocation lists over the calendar x the CRL lint's option
	forEachCalendarCRL(func(c engine.Case) {
		rec.Class("calendar_crl")
		if sig, msg := judge(c); msg != "" {
			if rec.Report("c02", sig, msg, c) {
				t.Fatalf("c02 %v: %s: %s", c.Ops, sig, msg)
			}
		}
	})
	// under well-typed configurations: the branches a non-default option opens must not fail internally either
	rapidRun(t, "configured", perShard(stats.Scale(12000, 400000)), func(rt *rapid.T) {
		c, _ := drawConfiguredCase(rt)
		rec.Class("configured")
		if sig, msg := judge(c); msg != "" {
			fail(rt, rec, "c02", sig, msg, c)
		}
	})
	rapidRun(t, "generated", perShard(stats.Scale(60000, 2000000)), func(rt *rapid.T) {
		c := drawObject(rt, 4, true)
		if sig, msg := judge(c); msg != "" {
			fail(rt, rec, "c02", sig, msg, c)
		}
	})
}

func init() {
	registerReplayer("c02", func(rec *stats.Rec, raw json.RawMessage) (string, string) {
		var c engine.Case
		if err := json.Unmarshal(raw, &c); err != nil {
			return "decode", err.Error()
		}
		sig, msg, _ := judgeC02(rec, c)
		return sig, msg
	})
}
