package props

import (
	"bytes"
	"os"
	"os/exec"
	"syscall"
	"testing"
)

// cliPath is the zlint binary built from the working tree by the driver.
func cliPath(t *testing.T) string {
	p := os.Getenv("VERIF_CLI")
	if p == "" {
		p = "/verif/.build/zlint-cli"
	}
	if _, err := os.Stat(p); err != nil {
		t.Skipf("CLI binary %s not built (run through ./check)", p)
	}
	return p
}

type cliResult struct {
	Stdout, Stderr string
	Exit           int
	Err            string
}

func runCLI(bin string, stdin []byte, dir string, env []string, args ...string) cliResult {
	return runCLIStdin(bin, "", stdin, dir, env, args...)
}

// runCLIStdin: as runCLI; how descriptor 0 of the tool is made is chosen by kind: "" / "pipe" an anonymous pipe,
// "file" a regular file opened for reading, "file-offset" a regular file that begins with other material and is
// handed over positioned at the input (as in `{ read-first; zlint; } < bundle`), "socket" one end of a unix
// socket pair (what inetd-style supervisors and sshd give a command).
func runCLIStdin(bin, kind string, stdin []byte, dir string, env []string, args ...string) cliResult {
	cmd := exec.Command(bin, args...)
	cmd.Dir = dir
	if env != nil {
		cmd.Env = env
	}
	var so, se bytes.Buffer
	cmd.Stdout, cmd.Stderr = &so, &se
	var closers []*os.File
	defer func() {
		for _, f := range closers {
			f.Close()
		}
	}()
	switch {
	case stdin == nil:
	case kind == "file" || kind == "file-offset":
		f, err := os.CreateTemp(dir, "stdin-*")
		if err != nil {
			return cliResult{Exit: -1, Err: err.Error()}
		}
		closers = append(closers, f)
		defer os.Remove(f.Name())
		var lead []byte
		if kind == "file-offset" {
			lead = []byte("-----BEGIN CERTIFICATE-----\nTUlJQmxlYWRpbmcgbWF0ZXJpYWwgdGhhdCB3YXMgcmVhZCBieSBzb21lYm9keSBlbHNl\n-----END CERTIFICATE-----\n")
		}
		if _, err := f.Write(append(append([]byte{}, lead...), stdin...)); err != nil {
			return cliResult{Exit: -1, Err: err.Error()}
		}
		if _, err := f.Seek(int64(len(lead)), 0); err != nil {
			return cliResult{Exit: -1, Err: err.Error()}
		}
		cmd.Stdin = f
	case kind == "socket":
		fds, err := syscall.Socketpair(syscall.AF_UNIX, syscall.SOCK_STREAM|syscall.SOCK_CLOEXEC, 0)
		if err != nil {
			return cliResult{Exit: -1, Err: err.Error()}
		}
		rd, wr := os.NewFile(uintptr(fds[0]), "stdin-socket"), os.NewFile(uintptr(fds[1]), "stdin-socket-peer")
		closers = append(closers, rd)
		go func() {
			_, _ = wr.Write(stdin)
			wr.Close()
		}()
		cmd.Stdin = rd
	default:
		cmd.Stdin = bytes.NewReader(stdin)
	}
	err := cmd.Run()
	r := cliResult{Stdout: so.String(), Stderr: se.String()}
	if err != nil {
		if ee, ok := err.(*exec.ExitError); ok {
			r.Exit = ee.ExitCode()
		} else {
			r.Exit = -1
			r.Err = err.Error()
		}
	}
	return r
}
