package props

import (
	"bytes"
	"os"
	"os/exec"
	"testing"
)

// cliPath is the zlint binary built from the working tree by the driver.
func cliPath(t *testing.T) string {
	p := os.Getenv("VERIF_CLI")
	if p == "" {
		p = "/verif/.build/zlint-cli"
	}
	if _, err := os.Stat(p); err != nil {
		t.Skipf("CLI binary %s not built (run through ./check)", p)
	}
	return p
}

type cliResult struct {
	Stdout, Stderr string
	Exit           int
	Err            string
}

func runCLI(bin string, stdin []byte, dir string, env []string, args ...string) cliResult {
	cmd := exec.Command(bin, args...)
	cmd.Dir = dir
	if env != nil {
		cmd.Env = env
	}
	var so, se bytes.Buffer
	cmd.Stdout, cmd.Stderr = &so, &se
	if stdin != nil {
		cmd.Stdin = bytes.NewReader(stdin)
	}
	err := cmd.Run()
	r := cliResult{Stdout: so.String(), Stderr: se.String()}
	if err != nil {
		if ee, ok := err.(*exec.ExitError); ok {
			r.Exit = ee.ExitCode()
		} else {
			r.Exit = -1
			r.Err = err.Error()
		}
	}
	return r
}
