package props

import (
	"fmt"
	"os"
	"sort"
	"testing"

	"github.com/zmap/zlint/v3/lint"

	"verifharness/engine"
	"verifharness/gen"
	"verifharness/stats"
)

// cliConfigMatrix: the command line tool must honour -config whatever selection
// flags accompany it. Enumerated: every configurable lint of today that has
// configuration-sensitive objects (verdict differs between the default and the
// alternative option value) x up to `perLint` such objects x selection variants
// (none, the lint alone, all but another lint, the lint's source, a name
// pattern, an excluded foreign source) x {default configuration, alternative
// option}. Oracle: judgeC15 - the CLI's output equals what the library computes
// under the same configuration and selection (status and details per lint).
func cliConfigMatrix(t *testing.T, rec *stats.Rec, cli string, perLint int, only string) {
	sens := sensitiveObjects()
	var names []string
	for n := range sens {
		if only == "" || n == only {
			names = append(names, n)
		}
	}
	sort.Strings(names)
	k := 0
	for _, name := range names {
		objs := sens[name]
		if len(objs) > perLint {
			objs = objs[:perLint]
		}
		src := lintSourceOf(name)
		other := "e_ca_country_name_missing"
		re := "^" + name[:len(name)/2]
		filters := []*engine.FilterSpec{nil, {IncludeNames: []string{name}}, {ExcludeNames: []string{other}}, {IncludeSources: []string{src}},
			{NameFilter: &re}, {ExcludeSources: []string{"ETSI_ESI"}}}
		alt := altDocs[name]
		empty := ""
		// a section that cannot be applied: the lint's result is fatal - alone above pass when the lint is selected alone
		ill := name + " = 5\n"
		for _, o := range objs {
			if o.Kind == gen.OCSP {
				continue // the CLI reads certificates and CRLs
			}
			for fi, f := range filters {
				for ci, cfg := range []*string{&alt, &empty, nil, &ill} {
					for oi, output := range []string{"default", "summary", "longSummary"} {
						// the summary tables: with the ill-typed section under every selection, otherwise when the lint runs alone
						if oi > 0 && ci != 3 && fi != 1 {
							continue
						}
						k++
						if !stats.Mine(k) {
							continue
						}
						c := c15Case{Inputs: []c15Input{{Kind: o.Kind, DER: o.DER, Encoding: "pem", Delivery: "file", Base: o.Name}}, Filter: f, Config: cfg, Format: "pem", Output: output}
						dir, err := os.MkdirTemp("", "verif-clicfg-")
						if err != nil {
							continue
						}
						sig, msg := judgeC15(rec, c, cli, dir)
						os.RemoveAll(dir)
						rec.Eval()
						rec.Class("cli_config_matrix")
						rec.NT(stats.HashS("clicfg", name, o.Name, fmt.Sprint(fi, ci, oi)))
						if msg != "" {
							if rec.Report("c15", "cli-config|"+name+"|"+sig, msg, c) {
								t.Fatalf("CLI -config with selection variant %d, output %s on %s: %s: %s", fi, output, o.Name, sig, msg)
							}
						}
					}
				}
			}
		}
	}
}

func lintSourceOf(name string) string {
	g := lint.GlobalRegistry()
	if l := g.CertificateLints().ByName(name); l != nil {
		return string(l.Source)
	}
	if l := g.RevocationListLints().ByName(name); l != nil {
		return string(l.Source)
	}
	if l := g.OcspResponseLints().ByName(name); l != nil {
		return string(l.Source)
	}
	return ""
}
