package props

import (
	"bufio"
	"encoding/json"
	"fmt"
	"reflect"
	"sort"
	"strings"
	"testing"

	"github.com/zmap/zlint/v3/lint"
	_ "github.com/zmap/zlint/v3/profiles"
	"pgregory.net/rapid"

	"verifharness/stats"
)

type c13Case struct {
	What  string `json:"what"` // name-include, name-exclude, source-fromstring, source-list, source-json, source-filter, cli-source, cli-name, profile, unknown-*
	Token string `json:"token"`
	Pad   string `json:"pad,omitempty"`
	Extra string `json:"extra,omitempty"`
}

func cliListedNames(out string) ([]string, error) {
	var names []string
	sc := bufio.NewScanner(strings.NewReader(out))
	sc.Buffer(make([]byte, 1<<20), 1<<20)
	for sc.Scan() {
		ln := strings.TrimSpace(sc.Text())
		if ln == "" {
			continue
		}
		var m struct {
			Name string `json:"name"`
		}
		if err := json.Unmarshal([]byte(ln), &m); err != nil {
			return nil, err
		}
		names = append(names, m.Name)
	}
	sort.Strings(names)
	return names, nil
}

func cliListedSources(out string) []string {
	var s []string
	for _, ln := range strings.Split(out, "\n") {
		if ln = strings.TrimSpace(ln); ln != "" {
			s = append(s, ln)
		}
	}
	sort.Strings(s)
	return s
}

// judgeC13 decides one case; cli may be "" (library-only cases).
func judgeC13(rec *stats.Rec, c c13Case, cli string) (string, string) {
	return apiGuard(func() (string, string) { return judgeC13Inner(rec, c, cli) })
}

func judgeC13Inner(rec *stats.Rec, c c13Case, cli string) (string, string) {
	g := lint.GlobalRegistry()
	all := g.Names()
	padded := c.Pad + c.Token + c.Pad
	switch c.What {
	case "name-include":
		r, err := g.Filter(lint.FilterOptions{IncludeNames: []string{padded}})
		if err != nil {
			return "name-include|" + c.Token, "listed name rejected as include name: " + err.Error()
		}
		if n := r.Names(); len(n) != 1 || n[0] != c.Token {
			return "name-include|" + c.Token, fmt.Sprintf("including the single listed name selects %v", capList(n))
		}
	case "name-exclude":
		r, err := g.Filter(lint.FilterOptions{ExcludeNames: []string{padded}})
		if err != nil {
			return "name-exclude|" + c.Token, "listed name rejected as exclude name: " + err.Error()
		}
		n := r.Names()
		if len(n) != len(all)-1 {
			return "name-exclude|" + c.Token, fmt.Sprintf("excluding one listed name leaves %d of %d", len(n), len(all))
		}
		for _, x := range n {
			if x == c.Token {
				return "name-exclude|" + c.Token, "excluded name still selected"
			}
		}
	case "name-with-sources":
		// a listed name stays an acceptable name whatever source options accompany it - also when they drop its lint
		own := lint.LintSource(lintSourceOf(c.Token))
		var other lint.LintSource
		for _, s := range g.Sources() {
			if s != own && (other == "" || s < other) {
				other = s
			}
		}
		for vi, o := range []lint.FilterOptions{
			{IncludeNames: []string{padded}, ExcludeSources: lint.SourceList{own}},
			{IncludeNames: []string{padded}, IncludeSources: lint.SourceList{other}},
			{ExcludeNames: []string{padded}, IncludeSources: lint.SourceList{other}},
			{ExcludeNames: []string{padded}, ExcludeSources: lint.SourceList{own}},
			{IncludeNames: []string{padded}, IncludeSources: lint.SourceList{own}},
		} {
			r, err := g.Filter(o)
			if err != nil {
				return "name-with-sources|" + c.Token, fmt.Sprintf("listed name rejected when given together with source options (variant %d: include %v exclude %v, sources +%v -%v): %v", vi, o.IncludeNames, o.ExcludeNames, o.IncludeSources, o.ExcludeSources, err)
			}
			// what the source options alone select, minus / intersected with the name
			so := lint.FilterOptions{IncludeSources: o.IncludeSources, ExcludeSources: o.ExcludeSources}
			rs, err := g.Filter(so)
			if err != nil {
				continue
			}
			in := false
			for _, x := range rs.Names() {
				in = in || x == c.Token
			}
			want := len(rs.Names())
			if len(o.IncludeNames) > 0 {
				want = 0
				if in {
					want = 1
				}
			} else if in {
				want--
			}
			if got := len(r.Names()); got != want {
				return "name-with-sources-selection|" + c.Token, fmt.Sprintf("variant %d selects %d lints, the documented rule gives %d", vi, got, want)
			}
		}
	case "source-fromstring":
		var s lint.LintSource
		s.FromString(padded)
		if string(s) != c.Token {
			return "source-fromstring|" + c.Token, fmt.Sprintf("LintSource.FromString(%q) = %q for a listed source", padded, s)
		}
	case "source-list":
		var sl lint.SourceList
		raw := c.Extra + padded
		if err := sl.FromString(raw); err != nil {
			return "source-list|" + c.Token, fmt.Sprintf("SourceList.FromString(%q) rejects a listed source: %v", raw, err)
		}
		if len(sl) == 0 || string(sl[len(sl)-1]) != c.Token {
			return "source-list|" + c.Token, fmt.Sprintf("SourceList.FromString(%q) = %v", raw, sl)
		}
	case "source-json":
		b, err := json.Marshal(lint.LintSource(c.Token))
		if err != nil {
			return "source-json|" + c.Token, err.Error()
		}
		var s lint.LintSource
		if err := json.Unmarshal(b, &s); err != nil || string(s) != c.Token {
			return "source-json|" + c.Token, fmt.Sprintf("JSON round trip of a listed source gives %q, %v", s, err)
		}
		var sl lint.SourceList
		if err := json.Unmarshal([]byte("["+string(b)+"]"), &sl); err != nil || len(sl) != 1 || string(sl[0]) != c.Token {
			return "source-json|" + c.Token, fmt.Sprintf("JSON round trip of a source list gives %v, %v", sl, err)
		}
	case "source-filter":
		want := 0
		for _, l := range registryLints(g) {
			if string(l.Meta.Source) == c.Token {
				want++
			}
		}
		r, err := g.Filter(lint.FilterOptions{IncludeSources: lint.SourceList{lint.LintSource(c.Token)}})
		if err != nil || len(r.Names()) != want || want == 0 {
			return "source-filter|" + c.Token, fmt.Sprintf("IncludeSources of a listed source selects %d lints, want %d (err %v)", len(r.Names()), want, err)
		}
		r, err = g.Filter(lint.FilterOptions{ExcludeSources: lint.SourceList{lint.LintSource(c.Token)}})
		if err != nil || len(r.Names()) != len(all)-want {
			return "source-filter|" + c.Token, fmt.Sprintf("ExcludeSources of a listed source leaves %d lints, want %d (err %v)", len(r.Names()), len(all)-want, err)
		}
	case "cli-source":
		if cli == "" {
			return "", ""
		}
		res := runCLI(cli, nil, "", nil, "-includeSources="+padded, "-list-lints-source")
		got := cliListedSources(res.Stdout)
		if res.Exit != 0 || len(got) != 1 || got[0] != c.Token {
			return "cli-include-source|" + c.Token, fmt.Sprintf("zlint -includeSources=%q -list-lints-source: exit %d, stdout %q, stderr %q", padded, res.Exit, short(res.Stdout, 100), short(res.Stderr, 200))
		}
		res = runCLI(cli, nil, "", nil, "-excludeSources="+padded, "-list-lints-source")
		got = cliListedSources(res.Stdout)
		var want []string
		for _, s := range g.Sources() {
			if string(s) != c.Token {
				want = append(want, string(s))
			}
		}
		sort.Strings(want)
		if res.Exit != 0 || !eqStrings(got, want) {
			return "cli-exclude-source|" + c.Token, fmt.Sprintf("zlint -excludeSources=%q -list-lints-source: exit %d, lists %v", padded, res.Exit, got)
		}
	case "cli-name":
		if cli == "" {
			return "", ""
		}
		res := runCLI(cli, nil, "", nil, "-includeNames="+padded, "-list-lints-json")
		got, err := cliListedNames(res.Stdout)
		if res.Exit != 0 || err != nil || len(got) != 1 || got[0] != c.Token {
			return "cli-include-name|" + c.Token, fmt.Sprintf("zlint -includeNames=%q -list-lints-json: exit %d, names %v, stderr %q", padded, res.Exit, capList(got), short(res.Stderr, 200))
		}
		res = runCLI(cli, nil, "", nil, "-excludeNames="+padded, "-list-lints-json")
		got, err = cliListedNames(res.Stdout)
		if res.Exit != 0 || err != nil || len(got) != len(all)-1 {
			return "cli-exclude-name|" + c.Token, fmt.Sprintf("zlint -excludeNames=%q -list-lints-json: exit %d, %d names", padded, res.Exit, len(got))
		}
	case "unknown-name":
		if _, err := g.Filter(lint.FilterOptions{IncludeNames: []string{c.Token}}); err == nil {
			return "unknown-name-accepted|include", fmt.Sprintf("unknown include name %q silently accepted", c.Token)
		}
		if _, err := g.Filter(lint.FilterOptions{ExcludeNames: []string{all[0], c.Token}}); err == nil {
			return "unknown-name-accepted|exclude", fmt.Sprintf("unknown exclude name %q silently accepted", c.Token)
		}
	case "unknown-source":
		var sl lint.SourceList
		if err := sl.FromString(c.Extra + c.Token); err == nil {
			return "unknown-source-accepted|list", fmt.Sprintf("SourceList.FromString(%q) accepts an unknown source", c.Extra+c.Token)
		}
		var s lint.LintSource
		s.FromString(c.Token)
		if s != lint.UnknownLintSource {
			return "unknown-source-accepted|fromstring", fmt.Sprintf("LintSource.FromString(%q) = %q", c.Token, s)
		}
		b, _ := json.Marshal(c.Token)
		if err := json.Unmarshal(b, &s); err == nil {
			return "unknown-source-accepted|json", fmt.Sprintf("JSON decoding accepts unknown source %q", c.Token)
		}
	case "profile-options":
		// FilterOptions.AddProfile appends the profile's lint names to IncludeNames: the result selects the
		// union, and an unknown name - given before or brought in by the profile - is still rejected
		var inc, pn []string
		_ = json.Unmarshal([]byte(c.Token), &inc)
		_ = json.Unmarshal([]byte(c.Extra), &pn)
		opts := lint.FilterOptions{IncludeNames: inc}
		if c.Pad == "nil" {
			opts.IncludeNames = nil
		}
		opts.AddProfile(lint.Profile{Name: "verif_profile", LintNames: pn})
		want := map[string]bool{}
		unknown := ""
		for _, n := range append(append([]string{}, inc...), pn...) {
			t := strings.TrimSpace(n)
			if g.CertificateLints().ByName(t) == nil && g.RevocationListLints().ByName(t) == nil && g.OcspResponseLints().ByName(t) == nil {
				unknown = n
			}
			want[t] = true
		}
		r, err := g.Filter(opts)
		if unknown != "" {
			if err == nil {
				return "unknown-name-accepted|profile", fmt.Sprintf("include names %q + profile %q: unknown name %q silently accepted (registry of %d lints returned)", inc, pn, unknown, len(r.Names()))
			}
			return "", ""
		}
		if len(want) == 0 {
			return "", ""
		}
		if err != nil {
			return "profile-rejected", fmt.Sprintf("include names %q + profile %q rejected: %v", inc, pn, err)
		}
		got := r.Names()
		if len(got) != len(want) {
			return "profile-selection", fmt.Sprintf("include names %q + profile %q select %d lints, want the union (%d)", inc, pn, len(got), len(want))
		}
		for _, n := range got {
			if !want[n] {
				return "profile-selection", fmt.Sprintf("include names %q + profile %q select %s", inc, pn, n)
			}
		}
	case "accepted-is-known":
		// whatever a decoder accepts must be one of the known sources - otherwise an
		// unknown source has been let in silently (it selects and excludes nothing)
		isKnown := func(x lint.LintSource) bool {
			for _, k := range knownSourceNames {
				if string(x) == k {
					return true
				}
			}
			return false
		}
		var s lint.LintSource
		b, _ := json.Marshal(c.Token)
		if err := json.Unmarshal(b, &s); err == nil && !isKnown(s) {
			return "unknown-source-accepted|json-value", fmt.Sprintf("JSON decoding of %q succeeds and yields %q, which is not a known source", c.Token, string(s))
		}
		var sl lint.SourceList
		if err := json.Unmarshal([]byte("["+string(b)+"]"), &sl); err == nil {
			for _, x := range sl {
				if !isKnown(x) {
					return "unknown-source-accepted|json-list-value", fmt.Sprintf("JSON decoding of [%q] succeeds and yields %q, which is not a known source", c.Token, string(x))
				}
			}
		}
		var s2 lint.LintSource
		s2.FromString(c.Token)
		if s2 != lint.UnknownLintSource && !isKnown(s2) {
			return "unknown-source-accepted|fromstring-value", fmt.Sprintf("LintSource.FromString(%q) = %q, neither Unknown nor a known source", c.Token, string(s2))
		}
		var sl2 lint.SourceList
		if err := sl2.FromString(c.Token); err == nil {
			for _, x := range sl2 {
				if !isKnown(x) {
					return "unknown-source-accepted|list-value", fmt.Sprintf("SourceList.FromString(%q) yields %q, which is not a known source", c.Token, string(x))
				}
			}
		}
	case "cli-unknown-combo":
		// an unknown value in one selector flag is rejected whatever valid selector flags accompany it, in either order
		if cli == "" {
			return "", ""
		}
		valid := map[string]string{"-includeSources=": "RFC5280,CABF_BR", "-excludeSources=": "ETSI_ESI", "-includeNames=": "e_ca_country_name_missing", "-excludeNames=": "e_ca_country_name_missing"}
		for _, bad := range []string{"-includeSources=", "-excludeSources=", "-includeNames=", "-excludeNames="} {
			for _, good := range []string{"-includeSources=", "-excludeSources=", "-includeNames=", "-excludeNames="} {
				if good == bad {
					continue
				}
				for _, order := range [][]string{{bad + c.Token, good + valid[good]}, {good + valid[good], bad + c.Token}} {
					res := runCLI(cli, nil, "", nil, append(order, "-list-lints-source")...)
					if res.Exit == 0 {
						return "cli-unknown-accepted|combo|" + strings.Trim(bad, "-=") + "+" + strings.Trim(good, "-="), fmt.Sprintf("zlint %s -list-lints-source exits 0 although %s names something unknown", strings.Join(order, " "), strings.Trim(bad, "-="))
					}
				}
			}
		}
	case "glued-names":
		// a single name that is the comma-joined form of a valid list is one unknown name - before and after the list itself was used
		var parts []string
		_ = json.Unmarshal([]byte(c.Token), &parts)
		glued := strings.Join(parts, ",")
		for round := 0; round < 2; round++ {
			if _, err := g.Filter(lint.FilterOptions{IncludeNames: []string{glued}}); err == nil {
				return "unknown-name-accepted|glued-include", fmt.Sprintf("IncludeNames [%q] (one name containing commas) accepted (round %d)", glued, round)
			}
			if _, err := g.Filter(lint.FilterOptions{ExcludeNames: []string{glued}}); err == nil {
				return "unknown-name-accepted|glued-exclude", fmt.Sprintf("ExcludeNames [%q] (one name containing commas) accepted (round %d)", glued, round)
			}
			if _, err := g.Filter(lint.FilterOptions{IncludeNames: parts}); err != nil {
				return "listed-name-rejected|include", "valid list rejected: " + err.Error()
			}
			if _, err := g.Filter(lint.FilterOptions{ExcludeNames: parts}); err != nil {
				return "listed-name-rejected|exclude", "valid list rejected: " + err.Error()
			}
		}
	case "cli-unknown":
		if cli == "" {
			return "", ""
		}
		for _, flag := range []string{"-includeSources=", "-excludeSources=", "-includeNames=", "-excludeNames=", "-profile="} {
			res := runCLI(cli, nil, "", nil, flag+c.Token, "-list-lints-json")
			if res.Exit == 0 {
				return "cli-unknown-accepted|" + strings.Trim(flag, "-="), fmt.Sprintf("zlint %s%q -list-lints-json exits 0 (%d bytes of output)", flag, c.Token, len(res.Stdout))
			}
		}
	case "profile":
		for _, p := range lint.AllProfiles() {
			if p.Name != c.Token {
				continue
			}
			for _, n := range p.LintNames {
				if g.CertificateLints().ByName(n) == nil && g.RevocationListLints().ByName(n) == nil && g.OcspResponseLints().ByName(n) == nil {
					return "profile-missing-lint|" + p.Name + "|" + n, "profile names a lint that does not exist"
				}
			}
			var fo lint.FilterOptions
			fo.AddProfile(p)
			if _, err := g.Filter(fo); err != nil && len(p.LintNames) > 0 {
				return "profile-unusable|" + p.Name, "profile cannot be used to select: " + err.Error()
			}
		}
	}
	return "", ""
}

func TestC13(t *testing.T) {
	rec := newRec(t, "C13")
	cli := cliPath(t)
	g := lint.GlobalRegistry()
	names := g.Names()
	var sources []string
	for _, s := range g.Sources() {
		sources = append(sources, string(s))
	}
	sort.Strings(sources)
	pads := []string{"", " ", "\t", "  "}
	run := func(c c13Case) {
		rec.Eval()
		rec.Class(c.What)
		rec.NT(stats.HashS(c.What, c.Token, c.Pad, c.Extra))
		if sig, msg := judgeC13(rec, c, cli); msg != "" {
			if rec.Report("c13", sig, msg, c) {
				t.Errorf("c13: %s: %s", sig, msg)
			}
		}
	}
	k := 0
	cliNameStride := stats.Scale(9, 1)
	for i, n := range names {
		k++
		if !stats.Mine(k) {
			continue
		}
		p := pads[(i+int(verifSeed()))%len(pads)]
		run(c13Case{What: "name-include", Token: n, Pad: p})
		run(c13Case{What: "name-exclude", Token: n, Pad: p})
		run(c13Case{What: "name-with-sources", Token: n, Pad: p})
		if (i+int(verifSeed()))%cliNameStride == 0 {
			run(c13Case{What: "cli-name", Token: n, Pad: strings.ReplaceAll(p, "\t", " ")})
		}
	}
	for i, s := range sources {
		k++
		if !stats.Mine(k) {
			continue
		}
		for _, p := range pads {
			run(c13Case{What: "source-fromstring", Token: s, Pad: p})
			run(c13Case{What: "source-list", Token: s, Pad: p})
			run(c13Case{What: "source-list", Token: s, Pad: p, Extra: sources[(i+1)%len(sources)] + ", ," + sources[(i+2)%len(sources)] + " ,"})
		}
		run(c13Case{What: "source-json", Token: s})
		run(c13Case{What: "source-filter", Token: s})
		run(c13Case{What: "cli-source", Token: s})
		run(c13Case{What: "cli-source", Token: s, Pad: " "})
	}
	for _, p := range lint.AllProfiles() {
		run(c13Case{What: "profile", Token: p.Name})
	}
	rec.ClassN("profiles_registered", int64(len(lint.AllProfiles())))
	rec.Exhaustive("every listed name / source / profile", true)
	rec.Sample(map[string]interface{}{"listed_sources": sources, "listed_names": len(names), "profiles": len(lint.AllProfiles())})

	known := map[string]bool{}
	for _, n := range names {
		known[n] = true
	}
	for _, s := range sources {
		known[s] = true
	}
	for _, s := range knownSourceNames {
		known[s] = true // source constants without lints are still "known sources"
	}
	// every known source with stray blanks around it: accepted or not, never let in as a foreign value
	for _, s := range knownSourceNames {
		for _, pad := range [][2]string{{" ", ""}, {"", " "}, {"\t", "\n"}, {"  ", "  "}, {"", "\r\n"}, {"", ","}, {",", ""}} {
			rec.Eval()
			c := c13Case{What: "accepted-is-known", Token: pad[0] + s + pad[1]}
			rec.NT(stats.HashS(c.What, c.Token))
			if sig, msg := judgeC13(rec, c, cli); msg != "" {
				if rec.Report("c13", sig, msg, c) {
					t.Errorf("c13 %s: %s", sig, msg)
				}
			}
		}
	}
	cliBudget := stats.Scale(30, 600) / func() int { _, n := stats.Shard(); return n }()
	if cliBudget < 2 {
		cliBudget = 2
	}
	rapidRun(t, "unknown", perShard(stats.Scale(4000, 20000)), func(rt *rapid.T) {
		var tok string
		switch rapid.IntRange(0, 5).Draw(rt, "kind") {
		case 0:
			tok = strings.ToUpper(rapid.SampledFrom(names).Draw(rt, "n"))
		case 1:
			tok = strings.ToLower(rapid.SampledFrom(sources).Draw(rt, "s"))
		case 2:
			n := rapid.SampledFrom(names).Draw(rt, "n")
			tok = n[:rapid.IntRange(1, len(n)-1).Draw(rt, "cut")]
		case 3:
			tok = rapid.SampledFrom(sources).Draw(rt, "s") + rapid.StringMatching(`[A-Za-z0-9_]{1,3}`).Draw(rt, "sfx")
		case 4:
			tok = rapid.StringMatching(`[A-Za-z0-9_.:/-]{1,16}`).Draw(rt, "rnd")
		default:
			tok = rapid.SampledFrom([]string{"Unknown", "unknown", "RFC", "CABF", "cabf_br", "e_", "w_", "n_", "*", ".*", "all", "ZLint", "RFC 5280", "CABF-BR"}).Draw(rt, "fixed")
		}
		{
			pad := rapid.SampledFrom([]string{"", " ", "\t", "\n", "  ", "\u00a0", "\x00"})
			c := c13Case{What: "accepted-is-known", Token: pad.Draw(rt, "padl") + tok + pad.Draw(rt, "padr")}
			if rapid.Bool().Draw(rt, "ofknown") {
				c.Token = pad.Draw(rt, "padl2") + rapid.SampledFrom(knownSourceNames).Draw(rt, "ks") + pad.Draw(rt, "padr2")
			}
			rec.Eval()
			rec.Class(c.What)
			if sig, msg := judgeC13(rec, c, cli); msg != "" {
				fail(rt, rec, "c13", sig, msg, c)
			}
		}
		{
			// generated include names and profile contents (known names, sometimes an unknown token in either)
			draw := func(lbl string) []string {
				n := rapid.IntRange(0, 4).Draw(rt, lbl+"n")
				out := make([]string, 0, n)
				for i := 0; i < n; i++ {
					out = append(out, rapid.SampledFrom(names).Draw(rt, lbl))
				}
				if rapid.IntRange(0, 2).Draw(rt, lbl+"unk") == 0 && !known[strings.TrimSpace(tok)] && strings.TrimSpace(tok) != "" {
					out = append(out, tok)
				}
				return out
			}
			inc, pn := draw("inc"), draw("prof")
			bi, _ := json.Marshal(inc)
			bp, _ := json.Marshal(pn)
			c := c13Case{What: "profile-options", Token: string(bi), Extra: string(bp)}
			if len(inc) == 0 && rapid.Bool().Draw(rt, "nilinc") {
				c.Pad = "nil"
			}
			rec.Eval()
			rec.Class(c.What)
			rec.NT(stats.HashS(c.What, c.Token, c.Extra))
			if sig, msg := judgeC13(rec, c, cli); msg != "" {
				fail(rt, rec, "c13", sig, msg, c)
			}
		}
		if known[strings.TrimSpace(tok)] || strings.TrimSpace(tok) == "" || strings.Contains(tok, ",") {
			return
		}
		rec.Eval()
		for _, c := range []c13Case{{What: "unknown-name", Token: tok}, {What: "unknown-source", Token: tok}, {What: "unknown-source", Token: tok, Extra: "RFC5280,"}} {
			rec.Class(c.What)
			rec.NT(stats.HashS(c.What, c.Token))
			if sig, msg := judgeC13(rec, c, cli); msg != "" {
				fail(rt, rec, "c13", sig, msg, c)
			}
		}
		if cliBudget > 0 && !strings.HasPrefix(tok, "-") {
			cliBudget--
			c := c13Case{What: "cli-unknown", Token: tok}
			rec.Class(c.What)
			if sig, msg := judgeC13(rec, c, cli); msg != "" {
				fail(rt, rec, "c13", sig, msg, c)
			}
			rec.Sample(c)
		}
	})
	// enumerated: unknown + valid selector flags together; glued names around the use of the list itself
	if shard, _ := stats.Shard(); shard == 0 {
		for _, tok := range []string{"NO_SUCH_SOURCE", "e_no_such_lint"} {
			c := c13Case{What: "cli-unknown-combo", Token: tok}
			rec.Eval()
			rec.Class(c.What)
			if sig, msg := judgeC13(rec, c, cli); msg != "" {
				if rec.Report("c13", sig, msg, c) {
					t.Errorf("c13 %s: %s", sig, msg)
				}
			}
		}
	}
	for i := 0; i+2 < len(names); i += 37 {
		if !stats.Mine(i / 37) {
			continue
		}
		b, _ := json.Marshal(names[i : i+2+i%3])
		c := c13Case{What: "glued-names", Token: string(b)}
		rec.Eval()
		rec.Class(c.What)
		rec.NT(stats.HashS(c.What, c.Token))
		if sig, msg := judgeC13(rec, c, cli); msg != "" {
			if rec.Report("c13", sig, msg, c) {
				t.Errorf("c13 %s: %s", sig, msg)
			}
		}
	}
	c13AfterAdditions(t, rec, cli)
}

// c13AfterAdditions: what is listed can be used to select - also for lints and profiles added at run time, and
// in name lists of any length.
func c13AfterAdditions(t *testing.T, rec *stats.Rec, cli string) {
	g := lint.GlobalRegistry()
	bad := func(sig, msg string, c c13Case) {
		if rec.Report("c13", sig, msg, c) {
			t.Errorf("c13 after additions: %s: %s", sig, msg)
		}
	}
	for i := range lateKinds {
		registerLate(i + 1)
		names := g.Names()
		known := map[string]bool{}
		for _, n := range names {
			known[n] = true
		}
		ln := lateName(i)
		rec.Eval()
		rec.Class("after_addition")
		rec.NT(stats.HashS("addition", ln))
		if !known[ln] {
			bad("late-not-listed|"+ln, "a lint registered through the public API is not listed by Names()", c13Case{What: "late", Token: ln})
			continue
		}
		// alone, and inside lists of 2 ... 40 listed names (include and exclude)
		for _, k := range []int{1, 2, 15, 16, 17, 25, 40} {
			list := []string{ln}
			for j := 0; len(list) < k && j < len(names); j += 9 {
				if names[j] != ln {
					list = append(list, names[j])
				}
			}
			c := c13Case{What: "late-list", Token: ln, Extra: fmt.Sprint(k)}
			r, err := g.Filter(lint.FilterOptions{IncludeNames: list})
			if err != nil {
				bad("listed-name-rejected|include", fmt.Sprintf("include list of %d listed names (one of them registered late: %s) rejected: %v", len(list), ln, err), c)
			} else if len(r.Names()) != len(list) {
				bad("listed-name-ignored|include", fmt.Sprintf("include list of %d listed names selects %d lints", len(list), len(r.Names())), c)
			}
			r, err = g.Filter(lint.FilterOptions{ExcludeNames: list})
			if err != nil {
				bad("listed-name-rejected|exclude", fmt.Sprintf("exclude list of %d listed names (one of them registered late: %s) rejected: %v", len(list), ln, err), c)
			} else if len(r.Names()) != len(names)-len(list) {
				bad("listed-name-ignored|exclude", fmt.Sprintf("exclude list of %d listed names leaves %d of %d lints", len(list), len(r.Names()), len(names)), c)
			}
		}
	}
	// profiles registered at run time: what GetProfile hands back is what was registered, every name in it
	// selects its lint (whatever the lint's kind), and an unknown name in it is rejected by Filter
	someCRL, someOCSP := "", ""
	if ls := g.RevocationListLints().Lints(); len(ls) > 0 {
		someCRL = ls[0].Name
	}
	if ls := g.OcspResponseLints().Lints(); len(ls) > 0 {
		someOCSP = ls[0].Name
	}
	// what was registered is kept apart from what is handed to the library (a profile's name list is a slice: whoever
	// reorders or trims it in place would otherwise rewrite the expectation too). Orders: unsorted on purpose; one
	// profile repeats names. Every profile is fetched, listed and used three times over.
	type spec struct {
		name  string
		want  []string
		known bool
	}
	specs := []spec{
		{"verif_profile_good", []string{lateName(1), "e_ca_country_name_missing", someCRL, someOCSP, lateName(0), lateName(2)}, true},
		{"verif_profile_repeats", []string{"e_subj_contains_html_entities", "e_ca_country_name_missing", "e_subj_contains_html_entities", someCRL, "e_ca_country_name_missing", "e_ca_country_name_missing"}, true},
		{"verif_profile_reverse_order", reverseOrder(g.Names(), 7), true},
		{"verif_profile_bad", []string{"e_ca_country_name_missing", "e_verif_no_such_lint"}, false},
		{"verif_profile_only_bad", []string{"e_verif_no_such_lint"}, false},
	}
	for _, sp := range specs {
		lint.RegisterProfile(lint.Profile{Name: sp.name, Description: "harness", LintNames: append([]string{}, sp.want...)})
	}
	uniq := func(a []string) []string {
		m := map[string]bool{}
		var out []string
		for _, x := range a {
			if !m[x] {
				m[x] = true
				out = append(out, x)
			}
		}
		sort.Strings(out)
		return out
	}
	for use := 0; use < 3; use++ {
		for _, sp := range specs {
			rec.Eval()
			rec.Class("runtime_profile")
			c := c13Case{What: "runtime-profile", Token: fmt.Sprintf("%s (use %d)", sp.name, use+1)}
			got, ok := lint.GetProfile(sp.name)
			if !ok {
				bad("profile-not-found|"+sp.name, "GetProfile does not find a registered profile", c)
				continue
			}
			if !reflect.DeepEqual(got.LintNames, sp.want) {
				bad("profile-names-changed|"+sp.name, fmt.Sprintf("registered with %q, GetProfile returns %q at use %d", sp.want, got.LintNames, use+1), c)
				continue
			}
			listed := false
			for _, ap := range lint.AllProfiles() {
				if ap.Name == sp.name && reflect.DeepEqual(ap.LintNames, sp.want) {
					listed = true
				}
			}
			if !listed {
				bad("profile-not-listed|"+sp.name, "AllProfiles does not list the registered profile with its names", c)
			}
			var opts lint.FilterOptions
			if use == 2 {
				opts.IncludeNames = []string{"e_ca_country_name_missing"} // the profile joins names that are there already
			}
			opts.AddProfile(got)
			r, err := g.Filter(opts)
			if sp.known {
				if err != nil {
					bad("profile-rejected|"+sp.name, fmt.Sprintf("a profile of listed lints is rejected at use %d: %v", use+1, err), c)
				} else if w := uniq(append(append([]string{}, sp.want...), opts.IncludeNames[:b2i(use == 2)]...)); !reflect.DeepEqual(sortedCopy(r.Names()), w) {
					bad("profile-selection|"+sp.name, fmt.Sprintf("profile %q selects %q at use %d", sp.want, r.Names(), use+1), c)
				}
			} else if err == nil {
				bad("unknown-name-accepted|runtime-profile", fmt.Sprintf("profile %s names a lint that does not exist, yet Filter accepts it (%d lints selected)", sp.name, len(r.Names())), c)
			}
		}
	}
	_ = cli // profiles registered in this process are unknown to the separately built binary
}

// the source constants of v3/lint/source.go (harvested for C12; the listing here is
// what the statement calls "known sources", with or without lints)
var knownSourceNames = func() []string {
	out := []string{"RFC3279", "RFC5280", "RFC5480", "RFC5891", "RFC6960", "RFC6962", "RFC8813", "CABF_BR", "CABF_CS_BR", "CABF_SMIME_BR", "CABF_EV", "Mozilla", "Apple", "Community", "ETSI_ESI"}
	if m, err := knownSources(); err == nil && len(m) > 0 {
		// the constants of the current tree (a source added later is known too)
		have := map[string]bool{}
		for _, s := range out {
			have[s] = true
		}
		var extra []string
		for s := range m {
			if !have[s] && s != string(lint.UnknownLintSource) {
				extra = append(extra, s)
			}
		}
		sort.Strings(extra)
		out = append(out, extra...)
	}
	return out
}()

func init() {
	registerReplayer("c13", func(rec *stats.Rec, raw json.RawMessage) (string, string) {
		var c c13Case
		if err := json.Unmarshal(raw, &c); err != nil {
			return "decode", err.Error()
		}
		cli := "/verif/.build/zlint-cli"
		if p := getenv("VERIF_CLI"); p != "" {
			cli = p
		}
		return judgeC13(rec, c, cli)
	})
}

func b2i(b bool) int {
	if b {
		return 1
	}
	return 0
}

// reverseOrder: every step-th name, last first.
func reverseOrder(names []string, step int) []string {
	var out []string
	for i := len(names) - 1; i >= 0; i -= step {
		out = append(out, names[i])
	}
	return out
}
