package props

import (
	"encoding/json"
	"os"
	"testing"

	"pgregory.net/rapid"

	"verifharness/engine"
	"verifharness/gen"
	"verifharness/stats"
)

// Native coverage-guided fuzzing (thorough tier only). The oracle of the
// property named by VERIF_PROPERTY (C01 or C02) sits inside the target. Go's
// fuzzer runs workers in separate processes, so a violation is written
// straight to $VERIF_STATS.fuzzviol.json (the minimised input is written last).

func fuzzOracle(t *testing.T, kind gen.Kind, der []byte, ops []string) {
	prop := os.Getenv("VERIF_PROPERTY")
	if prop != "C01" {
		prop = "C02"
	}
	rec := stats.New(prop)
	c := engine.Case{Kind: kind, DER: der, Base: "fuzz", Ops: ops}
	var sig, msg, oracle string
	if prop == "C01" {
		oracle = "c01"
		sig, msg, _ = judgeC01(rec, c)
	} else {
		oracle = "c02"
		sig, msg, _ = judgeC02(rec, c)
	}
	if msg == "" || stats.IsKnown(prop, sig) {
		return
	}
	b, _ := json.Marshal(c)
	v := stats.Violation{Property: prop, Oracle: oracle, Signature: sig, Message: msg, Case: b}
	if pfx := os.Getenv("VERIF_STATS"); pfx != "" {
		if vb, err := json.Marshal(v); err == nil {
			_ = os.WriteFile(pfx+".fuzzviol.json", vb, 0o644)
		}
	}
	t.Fatalf("%s: %s: %s", oracle, sig, msg)
}

func addSeeds(f *testing.F, objs []gen.Obj, max int) {
	step := len(objs)/max + 1
	for i := 0; i < len(objs); i += step {
		f.Add(objs[i].DER)
	}
	// hostile constants as extra seeds
	for _, d := range gen.Dict {
		if len(d) > 0 && len(d) < 64 {
			f.Add(d)
		}
	}
}

func FuzzCert(f *testing.F) {
	addSeeds(f, gen.LoadCorpus().Certs, 400)
	f.Fuzz(func(t *testing.T, der []byte) { fuzzOracle(t, gen.Cert, der, nil) })
}

func FuzzCRL(f *testing.F) {
	addSeeds(f, gen.LoadCorpus().CRLs, 100)
	f.Fuzz(func(t *testing.T, der []byte) { fuzzOracle(t, gen.CRL, der, nil) })
}

func FuzzOCSP(f *testing.F) {
	addSeeds(f, gen.LoadCorpus().OCSPs, 10)
	f.Fuzz(func(t *testing.T, der []byte) { fuzzOracle(t, gen.OCSP, der, nil) })
}

// FuzzGen lets the coverage-guided fuzzer drive the structured rapid
// generators (corpus base + DER-tree edits + openers + builders).
func FuzzGen(f *testing.F) {
	f.Fuzz(rapid.MakeFuzz(func(rt *rapid.T) {
		c := drawObject(rt, 4, true)
		prop := os.Getenv("VERIF_PROPERTY")
		rec := stats.New(prop)
		var sig, msg, oracle string
		if prop == "C01" {
			oracle = "c01"
			sig, msg, _ = judgeC01(rec, c)
		} else {
			prop, oracle = "C02", "c02"
			sig, msg, _ = judgeC02(rec, c)
		}
		if msg == "" || stats.IsKnown(prop, sig) {
			return
		}
		b, _ := json.Marshal(c)
		if pfx := os.Getenv("VERIF_STATS"); pfx != "" {
			if vb, err := json.Marshal(stats.Violation{Property: prop, Oracle: oracle, Signature: sig, Message: msg, Case: b}); err == nil {
				_ = os.WriteFile(pfx+".fuzzviol.json", vb, 0o644)
			}
		}
		rt.Fatalf("%s: %s: %s", oracle, sig, msg)
	}))
}
