package props

import (
	"encoding/json"
	"fmt"
	"reflect"
	"sort"
	"strings"
	"testing"

	"github.com/zmap/zlint/v3"
	"github.com/zmap/zlint/v3/lint"
	"pgregory.net/rapid"

	"verifharness/engine"
	"verifharness/gen"
	"verifharness/model"
	"verifharness/stats"
)

type c07Case struct {
	engine.Case
	SameObject int `json:"same_object"` // 0: fresh parses; 1: filtered then full on one object; 2: full then filtered on one object
	// ParentConfig, when set, is put on the global registry *before* filtering: the
	// filtered registry must inherit it, so both runs see the same configuration.
	ParentConfig *string `json:"parent_config,omitempty"`
	// DirtyConfig, when set: before the filtered registry is built, an equal Filter call is made and its
	// result is given this configuration (a history of the parent registry, not of the registry used)
	DirtyConfig *string `json:"dirty_config,omitempty"`
}

func lintObj(k gen.Kind, der []byte) (func(r lint.Registry) *zlint.ResultSet, bool) {
	switch k {
	case gen.Cert:
		c, ok := gen.ParseCert(der)
		return func(r lint.Registry) *zlint.ResultSet { return zlint.LintCertificateEx(c, r) }, ok
	case gen.CRL:
		c, ok := gen.ParseCRL(der)
		return func(r lint.Registry) *zlint.ResultSet { return zlint.LintRevocationListEx(c, r) }, ok
	default:
		o, ok := gen.ParseOCSP(der)
		return func(r lint.Registry) *zlint.ResultSet { return zlint.LintOcspResponseEx(o, r) }, ok
	}
}

func judgeC07(rec *stats.Rec, c c07Case) (string, string) {
	return apiGuard(func() (string, string) { return judgeC07Inner(rec, c) })
}

func judgeC07Inner(rec *stats.Rec, c c07Case) (string, string) {
	if c.ParentConfig != nil {
		g := lint.GlobalRegistry()
		old := g.GetConfiguration()
		defer g.SetConfiguration(old)
		pc, err := lint.NewConfigFromString(*c.ParentConfig)
		if err != nil {
			rec.Class("void_config")
			return "", ""
		}
		g.SetConfiguration(pc)
	}
	if c.DirtyConfig != nil && len(c.Filters) > 0 && !c.Filters[0].Empty() {
		// an earlier caller filtered with the very same options and reconfigured ITS registry: that must
		// not reach the registry this caller is about to obtain
		if r0, _, restore0, err0 := engine.BuildRegistry(c.Case); err0 == nil && r0 != lint.GlobalRegistry() {
			if dc, err := lint.NewConfigFromString(*c.DirtyConfig); err == nil {
				r0.SetConfiguration(dc)
			}
			if c.ParentConfig == nil {
				restore0()
			}
		}
	}
	reg, _, restore, err := engine.BuildRegistry(c.Case)
	if c.ParentConfig == nil {
		defer restore()
	}
	if err != nil {
		rec.Class("void_filter")
		return "", ""
	}
	full := lint.GlobalRegistry()
	l1, ok := lintObj(c.Kind, c.DER)
	if !ok {
		rec.Class("parse_rejected")
		return "", ""
	}
	var rsFull, rsFilt *zlint.ResultSet
	panicked := func(f func()) (p interface{}) {
		defer func() { p = recover() }()
		f()
		return nil
	}
	if p := panicked(func() {
		switch c.SameObject {
		case 1:
			rsFilt = l1(reg)
			rsFull = l1(full)
		case 2:
			rsFull = l1(full)
			rsFilt = l1(reg)
		default:
			l2, _ := lintObj(c.Kind, c.DER)
			rsFull = l1(full)
			rsFilt = l2(reg)
		}
	}); p != nil {
		rec.Class("void_panic") // C01/C02 own escaping panics
		return "", ""
	}
	// reference for comparison is always a full run on a fresh object
	lref, _ := lintObj(c.Kind, c.DER)
	ref := engine.Verdicts(lref(full))
	vFull, vFilt := engine.Verdicts(rsFull), engine.Verdicts(rsFilt)
	var sel []string
	switch c.Kind {
	case gen.Cert:
		for _, l := range reg.CertificateLints().Lints() {
			sel = append(sel, l.Name)
		}
	case gen.CRL:
		for _, l := range reg.RevocationListLints().Lints() {
			sel = append(sel, l.Name)
		}
	default:
		for _, l := range reg.OcspResponseLints().Lints() {
			sel = append(sel, l.Name)
		}
	}
	sort.Strings(sel)
	if len(vFilt) != len(sel) {
		return "keys", fmt.Sprintf("filtered run returns %d results for %d selected lints of this kind", len(vFilt), len(sel))
	}
	found := 0
	for _, n := range sel {
		a, ok := vFilt[n]
		if !ok {
			return "missing|" + n, "selected lint has no result in the filtered run"
		}
		b := ref[n]
		if a.Status != b.Status {
			return "status|" + n, fmt.Sprintf("filtered run says %s, full run says %s", a.Status, b.Status)
		}
		if a.Details != b.Details {
			return "details|" + n, fmt.Sprintf("filtered run details %q, full run %q", short(a.Details, 150), short(b.Details, 150))
		}
		if a.Status > lint.Pass {
			found++
		}
	}
	// the full run on the possibly already-linted object must equal the reference too
	for n, b := range ref {
		if a := vFull[n]; a != b {
			return "full-after-filtered|" + n, fmt.Sprintf("full run on an object linted before gives %s, on a fresh object %s", a, b)
		}
	}
	for _, f := range []struct {
		name       string
		filt, full bool
	}{{"notices", rsFilt.NoticesPresent, rsFull.NoticesPresent}, {"warnings", rsFilt.WarningsPresent, rsFull.WarningsPresent},
		{"errors", rsFilt.ErrorsPresent, rsFull.ErrorsPresent}, {"fatals", rsFilt.FatalsPresent, rsFull.FatalsPresent}} {
		if f.filt && !f.full {
			return "flag|" + f.name, "presence flag raised by the filtered run but not by the full run"
		}
	}
	if len(sel) > 0 && len(sel) < len(ref) && found > 0 {
		b, _ := json.Marshal(c.Filters)
		rec.NT(stats.Hash(c.DER, b))
		rec.Class("nontrivial")
	}
	return "", ""
}

// judgeOrder: a selection changes the order in which lints run (the global registry runs them in registration
// order, a filtered one in name order). Every certificate lint of the registry is run directly, once in the
// registry's order and once in reverse, each on a fresh parse: the verdicts must agree, and agree with a
// Lint*Ex run - no lint may leave something behind in the object for another lint to find.
func judgeOrder(rec *stats.Rec, c engine.Case, reg lint.Registry) (string, string) {
	return judgeOrderAfter(rec, c, reg, nil)
}

// judgeOrderAfter: as judgeOrder; a result set of the same object and registry that is already at hand (lints in
// the registry's order, fresh parse) stands in for the forward run.
func judgeOrderAfter(rec *stats.Rec, c engine.Case, reg lint.Registry, forward *zlint.ResultSet) (string, string) {
	cfg := reg.GetConfiguration()
	// one closure per lint of the kind, in the registry's order: run it on a parsed object of that kind
	type runner struct {
		name string
		run  func(obj interface{}) *lint.LintResult
	}
	var ls []runner
	switch c.Kind {
	case gen.Cert:
		for _, l := range reg.CertificateLints().Lints() {
			l := l
			ls = append(ls, runner{l.Name, func(o interface{}) *lint.LintResult { return l.Execute(o.(*zx509Cert), cfg) }})
		}
	case gen.CRL:
		for _, l := range reg.RevocationListLints().Lints() {
			l := l
			ls = append(ls, runner{l.Name, func(o interface{}) *lint.LintResult { return l.Execute(o.(*zx509CRL), cfg) }})
		}
	default:
		for _, l := range reg.OcspResponseLints().Lints() {
			l := l
			ls = append(ls, runner{l.Name, func(o interface{}) *lint.LintResult { return l.Execute(o.(*ocspResp), cfg) }})
		}
	}
	runIn := func(order []runner) map[string]model.Verdict {
		pc, ok := parsedOf(c.Kind, c.DER)
		if !ok {
			return nil
		}
		out := map[string]model.Verdict{}
		for _, l := range order {
			func() {
				defer func() { _ = recover() }()
				if r := l.run(pc); r != nil {
					out[l.name] = model.Verdict{Status: r.Status, Details: r.Details}
				}
			}()
		}
		return out
	}
	var fwd map[string]model.Verdict
	if forward != nil {
		fwd = engine.Verdicts(forward)
	} else {
		fwd = runIn(ls)
	}
	if fwd == nil {
		return "", ""
	}
	rev := make([]runner, len(ls))
	for i, l := range ls {
		rev[len(ls)-1-i] = l
	}
	bwd := runIn(rev)
	names := make([]string, 0, len(fwd))
	for n := range fwd {
		names = append(names, n)
	}
	sort.Strings(names)
	for _, n := range names {
		if b, ok := bwd[n]; ok && b.Status != fwd[n].Status {
			return "lint-order|" + n, fmt.Sprintf("%s reports %s when the lints run in the registry's order and %s when they run in reverse order (each on a fresh parse)", n, fwd[n].Status, b.Status)
		}
		if b, ok := bwd[n]; ok && c.Kind != gen.Cert && b.Details != fwd[n].Details {
			return "lint-order-details|" + n, fmt.Sprintf("%s says %q when the lints run in the registry's order and %q when they run in reverse order (each on a fresh parse)", n, short(fwd[n].Details, 120), short(b.Details, 120))
		}
	}
	return "", ""
}

func TestC07(t *testing.T) {
	rec := newRec(t, "C07")
	hm := homeObjects()
	reg := registryLints(lint.GlobalRegistry())
	sort.Slice(reg, func(i, j int) bool { return reg[i].Name < reg[j].Name })
	K := stats.Scale(2, 1000)
	k := 0
	for _, l := range reg {
		hs := hm[l.Name]
		step := len(hs)/K + 1
		for hi := int(verifSeed()) % step; hi < len(hs); hi += step {
			k++
			if !stats.Mine(k) {
				continue
			}
			o := kindObjs(l.Kind)[hs[hi]]
			c := c07Case{Case: engine.Case{Kind: o.Kind, DER: o.DER, Base: o.Name, Filters: []engine.FilterSpec{{IncludeNames: []string{l.Name}}}}, SameObject: k % 3}
			rec.Eval()
			rec.Class("lint_alone")
			if sig, msg := judgeC07(rec, c); msg != "" {
				if rec.Report("c07", sig, msg, c) {
					t.Fatalf("c07 %s alone on %s: %s: %s", l.Name, o.Name, sig, msg)
				}
			}
		}
	}
	rec.Exhaustive("every lint alone on its home objects (K per lint)", true)
	// lint order: the corpus (enumerated), structured certificates, and - for certificates that carry an OID no
	// home object has, plus every lint's home objects - one mutant in eight of the single-edit neighbourhood
	g := lint.GlobalRegistry()
	for ci, o := range gen.LoadCorpus().Certs {
		if !stats.Mine(ci) {
			continue
		}
		c := engine.Case{Kind: gen.Cert, DER: o.DER, Base: o.Name, Note: "lint-order"}
		rec.Eval()
		rec.Class("order_corpus")
		if sig, msg := judgeOrder(rec, c, g); msg != "" {
			if rec.Report("c07-order", sig, msg, c) {
				t.Fatalf("c07 %s: %s: %s", o.Name, sig, msg)
			}
		}
	}
	// ... revocation lists and OCSP responses too: the corpus, the synthetic rich ones, and revocation lists whose
	// entries carry different offending reason codes in every serial-number order (a lint that tidies the entry list
	// up for itself changes what the next one finds first)
	{
		var objs []gen.Obj
		co := gen.LoadCorpus()
		objs = append(append(append(append(objs, co.CRLs...), co.OCSPs...), gen.RichCRLs()...), gen.RichOCSPs()...)
		objs = append(append(objs, gen.ReasonCodeCRLs()...), gen.LargeCRLs()...)
		for oi, o := range objs {
			if !stats.Mine(oi) {
				continue
			}
			c := engine.Case{Kind: o.Kind, DER: o.DER, Base: o.Name, Note: "lint-order"}
			rec.Eval()
			rec.Class("order_crl_ocsp")
			if sig, msg := judgeOrder(rec, c, g); msg != "" {
				if rec.Report("c07-order", sig, msg, c) {
					t.Fatalf("c07 %s: %s: %s", o.Name, sig, msg)
				}
			}
			// and every lint of the kind alone vs the full run
			for _, l := range registryLints(g) {
				if string(o.Kind) != l.Kind {
					continue
				}
				c1 := c07Case{Case: engine.Case{Kind: o.Kind, DER: o.DER, Base: o.Name, Filters: []engine.FilterSpec{{IncludeNames: []string{l.Name}}}}}
				rec.Eval()
				if sig, msg := judgeC07(rec, c1); msg != "" {
					if rec.Report("c07", sig, msg, c1) {
						t.Fatalf("c07 %s alone on %s: %s: %s", l.Name, o.Name, sig, msg)
					}
				}
			}
		}
	}
	// ... and the corpus with its lists lengthened (slices with spare capacity: an append to "a copy" of one lands in
	// the certificate, where the next lint finds it)
	for ci, o := range gen.LoadCorpus().Certs {
		if !stats.Mine(ci) {
			continue
		}
		der, ok := paddedCert(o.DER, ci%2)
		if !ok {
			continue
		}
		c := engine.Case{Kind: gen.Cert, DER: der, Base: o.Name, Note: "lint-order", Ops: []string{fmt.Sprintf("pad-lists(%d)", ci%2)}}
		rec.Eval()
		rec.Class("order_corpus_padded")
		if sig, msg := judgeOrder(rec, c, g); msg != "" {
			if rec.Report("c07-order", sig, msg, c) {
				t.Fatalf("c07 %s with padded lists: %s: %s", o.Name, sig, msg)
			}
		}
	}
	{
		share := uint64(stats.Scale(4, 1))
		if v := getenv("VERIF_C07_ORDER_SHARE"); v != "" {
			share = 1
		}
		cover := homeCover(2)
		var bases []sweepBase
		hc := map[string]bool{}
		for _, b := range append(append([]sweepBase{}, cover...), featureCover(cover)...) {
			if b.Obj.Kind != gen.Cert || hc[b.Obj.Name] {
				continue
			}
			hc[b.Obj.Name] = true
			// every lint whose body runs on the base (not only the ones it was chosen for): they are the ones that can meet
			var ls []string
			for i, o := range gen.LoadCorpus().Certs {
				if o.Name != b.Obj.Name {
					continue
				}
				for _, l := range registryLints(g) {
					if l.Kind == "cert" && homeClass[l.Name][i] >= 1 && l.Name != "e_rsa_fermat_factorization" {
						ls = append(ls, l.Name)
					}
				}
				break
			}
			if len(ls) > 1 {
				bases = append(bases, sweepBase{Obj: b.Obj, Lints: ls, Under: b.Under})
			}
		}
		gen.OIDFamilyMode = !stats.Thorough()
		// every mutant is linted once, in the registry's order. The reverse-order run follows when that run left
		// the parsed object different from a freshly parsed twin (a lint wrote into it: whoever reads that field
		// later sees another certificate - the way one lint's verdict comes to depend on which others ran), and for
		// a fixed share of all mutants besides (state kept anywhere else).
		sweepBases(rec, bases, nil, false, "c07-order", func(ec engine.Case, run *engine.Run) (string, string) {
			if !run.Parsed {
				return "", ""
			}
			rec.Class("order_sweep")
			if run.Panic != "" || run.Hang || run.Cert == nil {
				return "", ""
			}
			written := diffExported(reflect.ValueOf(run.Cert), reflect.ValueOf(parseOnly(ec.Kind, ec.DER)), string(ec.Kind), 0) != ""
			if written {
				rec.Class("order_sweep_object_written")
			} else if (stats.Hash(ec.DER)+verifSeed())%share != 0 {
				return "", ""
			}
			rec.Class("order_sweep_reversed")
			return judgeOrderAfter(rec, ec, run.Reg, run.RS)
		}, func(s string) { t.Fatalf("%s", s) })
		gen.OIDFamilyMode = false
	}
	// long echoes: many lints quote the value they object to. Certificates whose common name and dNSName are a few
	// bytes either side of 2^k bytes long, with a multi-byte character walking across the boundary, make those details
	// cross any size limit somebody may put on them: each quoting lint alone must say exactly what it says in the full run
	{
		_, tls := structBases()
		bounds := []int{1024, 4096}
		if stats.Thorough() {
			bounds = []int{256, 1024, 2048, 4096, 8192, 65536}
		}
		longCert := func(base gen.Obj, B, off int) ([]byte, bool) {
			v, err := gen.ViewCert(base.DER)
			if err != nil {
				return nil, false
			}
			v.SetCN([]byte(strings.Repeat("a", B+off)+"\u20ac"+strings.Repeat("b", 300)), 12)
			v.SetSAN(false, gen.GNDNS([]byte("example.com")), gen.GNDNS([]byte("x_"+strings.Repeat("y", B+104)+".example.com")), gen.GNDNS([]byte(strings.Repeat("z", B+off)+"\u00e9"+strings.Repeat("w", 200)+".example.org")))
			return v.DER(), true
		}
		quotingOn := func(der []byte, B int) []string {
			var q []string
			if f, ok := lintObj(gen.Cert, der); ok {
				for n, r := range f(g).Results {
					if r != nil && len(r.Details) > B/2 {
						q = append(q, n)
					}
				}
			}
			sort.Strings(q)
			return q
		}
		// the bases: of the first 40 TLS bases (their dates decide which lints are in force) the two on which most
		// lints quote at length, with different sets
		type lb struct {
			obj gen.Obj
			q   []string
		}
		var best []lb
		for bi := 0; bi < len(tls) && bi < 40; bi++ {
			o := gen.LoadCorpus().Certs[tls[bi]]
			if der, ok := longCert(o, 1024, 0); ok {
				q := quotingOn(der, 1024)
				dup := false
				for _, b := range best {
					dup = dup || strings.Join(b.q, ",") == strings.Join(q, ",")
				}
				if !dup && len(q) > 0 {
					best = append(best, lb{o, q})
				}
			}
		}
		sort.SliceStable(best, func(a, b int) bool { return len(best[a].q) > len(best[b].q) })
		if len(best) > 2 {
			best = best[:2]
		}
		kk := 0
		for _, b := range best {
			base := b.obj
			for _, B := range bounds {
				der0, ok := longCert(base, B, 0)
				if !ok {
					continue
				}
				quoting := quotingOn(der0, B)
				rec.ClassN(fmt.Sprintf("quoting_lints_at_%d", B), int64(len(quoting)))
				for off := -150; off <= 6; off++ {
					kk++
					if !stats.Mine(kk) {
						continue
					}
					der, ok := longCert(base, B, off)
					if !ok {
						continue
					}
					for qi, q := range quoting {
						fs := []engine.FilterSpec{{IncludeNames: []string{q}}}
						if qi > 0 {
							fs = append(fs, engine.FilterSpec{ExcludeNames: []string{quoting[0]}})
						}
						for _, f := range fs {
							c := c07Case{Case: engine.Case{Kind: gen.Cert, DER: der, Base: base.Name, Ops: []string{fmt.Sprintf("long echo: values of 2^k%+d bytes (2^k=%d) with a multi-byte character at the end", off, B)}, Filters: []engine.FilterSpec{f}}, SameObject: (kk + qi) % 3}
							rec.Eval()
							rec.Class("long_echo")
							if sig, msg := judgeC07(rec, c); msg != "" {
								if rec.Report("c07", sig, msg, c) {
									t.Fatalf("c07 long echo (bound %d, offset %d, %v): %s: %s", B, off, f, sig, msg)
								}
							}
						}
					}
				}
			}
		}
	}
	rapidRun(t, "order-structured", perShard(stats.Scale(3000, 100000)), func(rt *rapid.T) {
		sc, ok := drawAnyStructured(rt)
		if !ok {
			return
		}
		c := engine.Case{Kind: gen.Cert, DER: sc.DER, Base: sc.Base, Ops: append([]string{"structured:" + sc.Fam}, sc.Desc...), Note: "lint-order"}
		rec.Eval()
		rec.Class("order_structured")
		if sig, msg := judgeOrder(rec, c, g); msg != "" {
			fail(rt, rec, "c07-order", sig, msg, c)
		}
	})
	// configuration set on the parent before filtering (inherited by the filtered registry)
	sens := sensitiveObjects()
	cis := engine.Configurables()
	rapidRun(t, "inherited-config", perShard(stats.Scale(1500, 60000)), func(rt *rapid.T) {
		ci := cis[rapid.IntRange(0, len(cis)-1).Draw(rt, "lint")]
		ss := sens[ci.Name]
		if len(ss) == 0 {
			return
		}
		o := ss[rapid.IntRange(0, len(ss)-1).Draw(rt, "obj")]
		doc := altDocs[ci.Name]
		oc := engine.Case{Kind: o.Kind, DER: o.DER, Base: o.Name}
		if rapid.IntRange(0, 2).Draw(rt, "illtyped") == 0 {
			// a section that cannot be applied: that lint reports fatal in the full run - the other
			// lints' verdicts and flags must not notice, whether or not the selection contains it;
			// any generated object of the lint's kind, so that other findings are present
			doc, _ = engine.IllTypedSection(rt, ci)
			if g := drawObject(rt, 2, true); g.Kind == o.Kind && rapid.Bool().Draw(rt, "anyobj") {
				oc = g
			}
		}
		var f engine.FilterSpec
		switch rapid.IntRange(0, 5).Draw(rt, "fshape") {
		case 4:
			f = engine.FilterSpec{ExcludeNames: []string{ci.Name}}
		case 5:
			f = engine.FilterSpec{ExcludeSources: []string{lintSourceOf(ci.Name)}}
		case 0:
			f = engine.FilterSpec{IncludeNames: []string{ci.Name}}
		case 1:
			f = engine.FilterSpec{IncludeNames: []string{ci.Name, globalNames()[rapid.IntRange(0, len(globalNames())-1).Draw(rt, "other")]}}
		case 2:
			f = engine.FilterSpec{ExcludeNames: []string{"e_ca_country_name_missing"}}
		default:
			f = engine.DrawValidFilter(rt, globalNames())
		}
		oc.Filters = []engine.FilterSpec{f}
		c := c07Case{Case: oc, SameObject: rapid.IntRange(0, 2).Draw(rt, "same"), ParentConfig: &doc}
		if rapid.IntRange(0, 2).Draw(rt, "dirty") == 0 {
			// the parent keeps its default configuration; an earlier, equal Filter result was reconfigured
			c.ParentConfig = nil
			c.DirtyConfig = &doc
		}
		rec.Eval()
		rec.Class("inherited_config")
		if sig, msg := judgeC07(rec, c); msg != "" {
			fail(rt, rec, "c07", sig, msg, c)
		}
	})
	rapidRun(t, "random", perShard(stats.Scale(6000, 300000)), func(rt *rapid.T) {
		ec := drawObject(rt, 3, true)
		ec.Filters = []engine.FilterSpec{engine.DrawValidFilter(rt, globalNames())}
		if rapid.IntRange(0, 4).Draw(rt, "chain") == 0 {
			if o, err := ec.Filters[0].Options(); err == nil {
				if r1, err := lint.GlobalRegistry().Filter(o); err == nil && len(r1.Names()) > 0 {
					ec.Filters = append(ec.Filters, engine.DrawValidFilter(rt, r1.Names()))
				}
			}
		}
		c := c07Case{Case: ec, SameObject: rapid.IntRange(0, 2).Draw(rt, "same")}
		rec.Eval()
		rec.Class("random")
		if sig, msg := judgeC07(rec, c); msg != "" {
			fail(rt, rec, "c07", sig, msg, c)
		}
		if rec.WantSample() && len(ec.Ops) > 0 {
			rec.Sample(sampleCase(ec, map[string]interface{}{"same_object": c.SameObject}))
		}
	})
	// the same relation through the command line tool: a narrowed run (any selection flag) under -config gives each
	// selected lint what the library gives it under that configuration and selection
	if p := getenv("VERIF_CLI"); p != "" {
		cliConfigMatrix(t, rec, p, 1, "")
	}
}

func init() {
	registerReplayer("c07-order", func(rec *stats.Rec, raw json.RawMessage) (string, string) {
		var c engine.Case
		if err := json.Unmarshal(raw, &c); err != nil {
			return "decode", err.Error()
		}
		reg, _, restore, err := engine.BuildRegistry(c)
		defer restore()
		if err != nil {
			return "", ""
		}
		return judgeOrder(rec, c, reg)
	})
	registerReplayer("c07", func(rec *stats.Rec, raw json.RawMessage) (string, string) {
		var c c07Case
		if err := json.Unmarshal(raw, &c); err != nil {
			return "decode", err.Error()
		}
		return judgeC07(rec, c)
	})
}
