package props

import (
	"bufio"
	"bytes"
	"encoding/json"
	"fmt"
	"os"
	"sort"
	"strings"
	"sync"
	"testing"
	"time"
	"unicode/utf8"

	"github.com/zmap/zlint/v3"
	"github.com/zmap/zlint/v3/formattedoutput"
	"github.com/zmap/zlint/v3/lint"
	"pgregory.net/rapid"

	"verifharness/engine"
	"verifharness/gen"
	"verifharness/stats"
)

// documented labels of the eight status values
var statusLabels = map[lint.LintStatus]string{
	lint.Reserved: "reserved", lint.NA: "NA", lint.NE: "NE", lint.Pass: "pass",
	lint.Notice: "info", lint.Warn: "warn", lint.Error: "error", lint.Fatal: "fatal",
}

// jsonString is what a details text must look like after a JSON round trip:
// every byte that is not part of valid UTF-8 becomes U+FFFD.
func jsonString(s string) string {
	if utf8.ValidString(s) {
		return s
	}
	var b strings.Builder
	for i := 0; i < len(s); {
		r, sz := utf8.DecodeRuneInString(s[i:])
		if r == utf8.RuneError && sz == 1 {
			b.WriteRune('�')
		} else {
			b.WriteString(s[i : i+sz])
		}
		i += sz
	}
	return b.String()
}

type c14Case struct {
	What    string             `json:"what"` // resultset | synthetic | status-int | status-label | writejson
	Case    *engine.Case       `json:"case,omitempty"`
	Details []byte             `json:"details,omitempty"`
	Status  int                `json:"status,omitempty"`
	Label   string             `json:"label,omitempty"`
	Filter  *engine.FilterSpec `json:"filter,omitempty"`
	// SameName: the case presumes the harness lints registered under one name for all three kinds
	SameName bool `json:"same_name,omitempty"`
	// Late: the case presumes the first n late-registered harness lints (replays register them too)
	Late int `json:"late,omitempty"`
}

func roundTripRS(rs *zlint.ResultSet) (string, string) {
	b, err := json.Marshal(rs)
	if err != nil {
		return "marshal-error", err.Error()
	}
	var back zlint.ResultSet
	if err := json.Unmarshal(b, &back); err != nil {
		return "unmarshal-error", "cannot decode own output: " + err.Error()
	}
	if len(back.Results) != len(rs.Results) {
		return "keys", fmt.Sprintf("%d results encoded, %d decoded", len(rs.Results), len(back.Results))
	}
	for n, r := range rs.Results {
		d, ok := back.Results[n]
		if !ok || d == nil {
			return "keys|" + n, "result lost in the round trip"
		}
		if d.Status != r.Status {
			return "status|" + n, fmt.Sprintf("status %s decoded as %s", r.Status, d.Status)
		}
		if d.Details != jsonString(r.Details) {
			return "details|" + n, fmt.Sprintf("details %q decoded as %q", short(r.Details, 100), short(d.Details, 100))
		}
	}
	if back.NoticesPresent != rs.NoticesPresent || back.WarningsPresent != rs.WarningsPresent || back.ErrorsPresent != rs.ErrorsPresent || back.FatalsPresent != rs.FatalsPresent {
		return "flags", "presence flags changed in the round trip"
	}
	if back.Version != rs.Version || back.Timestamp != rs.Timestamp {
		return "version-timestamp", "version / timestamp changed in the round trip"
	}
	// also the shape the CLI prints: the bare Results map
	b2, err := json.Marshal(rs.Results)
	if err != nil {
		return "marshal-error", err.Error()
	}
	var m map[string]*lint.LintResult
	if err := json.Unmarshal(b2, &m); err != nil || len(m) != len(rs.Results) {
		return "results-map", fmt.Sprintf("Results map does not round trip: %v", err)
	}
	// key names of the documented wire format
	var raw map[string]json.RawMessage
	_ = json.Unmarshal(b, &raw)
	for _, k := range []string{"version", "timestamp", "lints", "notices_present", "warnings_present", "errors_present", "fatals_present"} {
		if _, ok := raw[k]; !ok {
			return "field|" + k, "result set JSON lacks field " + k
		}
	}
	return "", ""
}

func judgeC14(rec *stats.Rec, c c14Case) (string, string) {
	return apiGuard(func() (string, string) { return judgeC14Inner(rec, c) })
}

func judgeC14Inner(rec *stats.Rec, c c14Case) (string, string) {
	switch c.What {
	case "resultset":
		run := engine.Execute(*c.Case, false)
		if !run.Parsed || run.RS == nil || run.SetupErr != "" {
			rec.Class("void")
			return "", ""
		}
		nd := 0
		var h []byte
		for _, n := range run.Names {
			if r := run.RS.Results[n]; r != nil && r.Details != "" {
				nd++
				h = append(h, r.Details...)
			}
		}
		if nd > 0 {
			rec.NT(stats.Hash(h))
			for _, r := range run.RS.Results {
				if !utf8.ValidString(r.Details) {
					rec.Class("details_invalid_utf8")
					break
				}
			}
		}
		return roundTripRS(run.RS)
	case "synthetic":
		rs := &zlint.ResultSet{Version: 3, Timestamp: 12345, Results: map[string]*lint.LintResult{}}
		st := lint.LintStatus(c.Status)
		rs.Results["e_verif_synthetic"] = &lint.LintResult{Status: st, Details: string(c.Details)}
		rs.Results["w_verif_other"] = &lint.LintResult{Status: lint.Pass}
		switch st {
		case lint.Notice:
			rs.NoticesPresent = true
		case lint.Warn:
			rs.WarningsPresent = true
		case lint.Error:
			rs.ErrorsPresent = true
		case lint.Fatal:
			rs.FatalsPresent = true
		}
		rec.NT(stats.Hash(c.Details, []byte{byte(c.Status)}))
		return roundTripRS(rs)
	case "status-int":
		st := lint.LintStatus(c.Status)
		b, err := json.Marshal(st)
		if err != nil {
			return "status-marshal", err.Error()
		}
		want, defined := statusLabels[st]
		var lbl string
		_ = json.Unmarshal(b, &lbl)
		var back lint.LintStatus
		uerr := json.Unmarshal(b, &back)
		if defined {
			if lbl != want || st.String() != want {
				return "label|" + want, fmt.Sprintf("status %d has label %q, documented %q", c.Status, lbl, want)
			}
			if uerr != nil || back != st {
				return "label-roundtrip|" + want, fmt.Sprintf("status %d (%q) decodes to %d, %v", c.Status, lbl, back, uerr)
			}
		} else if uerr == nil && back >= lint.Reserved && back <= lint.Fatal {
			if _, isLabel := labelSet()[lbl]; !isLabel || true {
				return "undefined-status-decodes", fmt.Sprintf("out-of-range status %d encodes as %q and decodes to defined status %d", c.Status, lbl, back)
			}
		}
		rec.NT(stats.HashS("int", fmt.Sprint(c.Status)))
	case "status-label":
		b, _ := json.Marshal(c.Label)
		var st lint.LintStatus
		err := json.Unmarshal(b, &st)
		_, isLabel := labelSet()[c.Label]
		if isLabel && (err != nil || statusLabels[st] != c.Label) {
			return "label-rejected|" + c.Label, fmt.Sprintf("documented label %q decodes to %d, %v", c.Label, st, err)
		}
		if !isLabel && err == nil {
			return "unknown-label-accepted", fmt.Sprintf("string %q is accepted as status %d", c.Label, st)
		}
		// inside a result object too
		var res lint.LintResult
		err = json.Unmarshal([]byte(`{"result":`+string(b)+`}`), &res)
		if !isLabel && err == nil {
			return "unknown-label-accepted", fmt.Sprintf("result object with status %q is accepted", c.Label)
		}
		rec.NT(stats.HashS("label", c.Label))
	case "status-token":
		// any JSON value in the place of a status label: decoding must fail cleanly (an error, never a
		// panic) or, if it is accepted, yield one of the defined statuses
		try := func(doc string, into interface{}, get func() lint.LintStatus) (sig, msg string) {
			defer func() {
				if p := recover(); p != nil {
					sig, msg = "decode-panic", fmt.Sprintf("decoding %s panics: %v", short(doc, 80), p)
				}
			}()
			if err := json.Unmarshal([]byte(doc), into); err == nil {
				if st := get(); st < lint.Reserved || st > lint.Fatal {
					return "unknown-label-accepted", fmt.Sprintf("%s is accepted as status %d", short(doc, 80), st)
				}
				var sv string
				isLabel := json.Unmarshal([]byte(c.Label), &sv) == nil && labelSet()[sv]
				if !isLabel && strings.TrimSpace(c.Label) != "null" {
					return "unknown-label-accepted", fmt.Sprintf("%s is accepted as a status (%d) although it is not one of the labels", short(doc, 80), get())
				}
			}
			return "", ""
		}
		if !json.Valid([]byte(c.Label)) {
			return "", ""
		}
		var st lint.LintStatus
		if sig, msg := try(c.Label, &st, func() lint.LintStatus { return st }); msg != "" {
			return sig, msg
		}
		var res lint.LintResult
		if sig, msg := try(`{"result":`+c.Label+`,"details":"x"}`, &res, func() lint.LintStatus { return res.Status }); msg != "" {
			return sig, msg
		}
		var rs zlint.ResultSet
		if sig, msg := try(`{"version":3,"timestamp":1,"lints":{"e_x":{"result":`+c.Label+`}}}`, &rs, func() lint.LintStatus {
			if r := rs.Results["e_x"]; r != nil {
				return r.Status
			}
			return lint.Pass
		}); msg != "" {
			return sig, msg
		}
		rec.NT(stats.HashS("token", c.Label))
	case "writejson":
		if c.SameName {
			registerSameName()
		}
		if c.Late > 0 {
			registerLate(c.Late)
		}
		var reg lint.Registry = lint.GlobalRegistry()
		if c.Filter != nil {
			o, err := c.Filter.Options()
			if err != nil {
				return "", ""
			}
			r, err := reg.Filter(o)
			if err != nil {
				return "", ""
			}
			reg = r
		}
		var buf bytes.Buffer
		reg.WriteJSON(&buf)
		// one line per registered lint of any kind: the multiset of decoded (name, description, citation,
		// source) tuples equals the multiset over the three per-kind listings (a name may be registered once
		// per kind)
		key := func(m lint.LintMetadata) string {
			return m.Name + "\x00" + jsonString(m.Description) + "\x00" + jsonString(m.Citation) + "\x00" + string(m.Source)
		}
		want := map[string]int{}
		wantName := map[string]bool{}
		total := 0
		for _, l := range registryLints(reg) {
			want[key(l.Meta)]++
			wantName[l.Name] = true
			total++
		}
		if c.Filter == nil {
			// the model of what has been registered late: each of those lints is in the per-kind listings
			for j := 0; j < c.Late && j < len(lateKinds); j++ {
				if !wantName[lateName(j)] {
					return "late-unlisted|" + lateKinds[j], lateName(j) + " was registered through the public API and is in no per-kind listing"
				}
			}
		}
		sc := bufio.NewScanner(&buf)
		sc.Buffer(make([]byte, 1<<20), 1<<20)
		lines := 0
		for sc.Scan() {
			ln := sc.Text()
			lines++
			dec := json.NewDecoder(strings.NewReader(ln))
			dec.DisallowUnknownFields()
			var m lint.LintMetadata
			if err := dec.Decode(&m); err != nil {
				return "writejson-line", fmt.Sprintf("line %d does not decode to lint metadata: %v (%s)", lines, err, short(ln, 120))
			}
			if !wantName[m.Name] {
				return "writejson-unknown|" + m.Name, "listing names a lint that is not in the registry"
			}
			if want[key(m)] == 0 {
				return "writejson-meta|" + m.Name, "listing line does not decode to the description / citation / source of a registered lint of that name (or lists it once too often)"
			}
			want[key(m)]--
		}
		if lines != total {
			return "writejson-count", fmt.Sprintf("%d lines for %d registered lints", lines, total)
		}
		for k, n := range want {
			if n != 0 {
				return "writejson-multiset|" + strings.SplitN(k, "\x00", 2)[0], "a registered lint is missing from the listing"
			}
		}
		b, _ := json.Marshal(c.Filter)
		rec.NT(stats.Hash([]byte("wj"), b))
	}
	return "", ""
}

func statusLabelList() []string {
	var out []string
	for _, l := range statusLabels {
		out = append(out, l)
	}
	sort.Strings(out)
	return out
}

func labelSet() map[string]bool {
	m := map[string]bool{}
	for _, l := range statusLabels {
		m[l] = true
	}
	return m
}

// hostileStrings end up in details through subject / SAN contents.
var hostileDetail = [][]byte{[]byte("100%25 real"), []byte("%s%d%v"), []byte("%!(EXTRA)"), []byte("%"), []byte("%%"), []byte("%+q"), []byte("\xe2\x80\xa8"), []byte("</script>"), []byte("\\u0041"), {0xff}, {0xc2}, []byte("\"quoted\""), []byte("<a&b>"), []byte("  "), {0}, []byte("a\\b"), {0xe2, 0x80}, []byte("\x7f\x1b[0m"), []byte("é\xe9")}

func TestC14(t *testing.T) {
	rec := newRec(t, "C14")
	// enumerated: statuses -3..12, the 8 labels distinct and non-empty
	seen := map[string]bool{}
	for s, l := range statusLabels {
		if l == "" || seen[l] {
			if rec.Report("c14", "label-distinct", fmt.Sprintf("label %q of status %d empty or shared", l, s), c14Case{What: "status-int", Status: int(s)}) {
				t.Errorf("label %q not distinct", l)
			}
		}
		seen[l] = true
	}
	if len(lint.StatusLabelToLintStatus) != 8 {
		if rec.Report("c14", "label-table", fmt.Sprintf("label table has %d entries, want 8 distinct labels", len(lint.StatusLabelToLintStatus)), c14Case{What: "status-int", Status: 0}) {
			t.Errorf("label table has %d entries", len(lint.StatusLabelToLintStatus))
		}
	}
	for s := -3; s <= 12; s++ {
		c := c14Case{What: "status-int", Status: s}
		rec.Eval()
		if sig, msg := judgeC14(rec, c); msg != "" {
			if rec.Report("c14", sig, msg, c) {
				t.Errorf("c14: %s: %s", sig, msg)
			}
		}
	}
	for l := range labelSet() {
		c := c14Case{What: "status-label", Label: l}
		rec.Eval()
		if sig, msg := judgeC14(rec, c); msg != "" {
			if rec.Report("c14", sig, msg, c) {
				t.Errorf("c14: %s: %s", sig, msg)
			}
		}
	}
	c := c14Case{What: "writejson"}
	rec.Eval()
	if sig, msg := judgeC14(rec, c); msg != "" {
		if rec.Report("c14", sig, msg, c) {
			t.Errorf("c14: %s: %s", sig, msg)
		}
	}
	for _, tok := range []string{"0", "1", "7", "8", "9", "-1", "12", "3.5", "1e3", "null", "true", "false", "[]", "{}", `""`, `"\""`, `[ "pass" ]`, `{"result":"pass"}`, `"p"`, `"\u0070ass"`, ` "pass" `, `"pass\n"`} {
		c := c14Case{What: "status-token", Label: tok}
		rec.Eval()
		if sig, msg := judgeC14(rec, c); msg != "" {
			if rec.Report("c14", sig, msg, c) {
				t.Errorf("c14 status token %s: %s: %s", tok, sig, msg)
			}
		}
	}
	rec.Exhaustive("status values -3..12, the 8 labels, WriteJSON of the global registry", true)

	co := gen.LoadCorpus()
	cli := os.Getenv("VERIF_CLI")
	cliBudget := stats.Scale(40, 1500)
	rapidRun(t, "resultsets", perShard(stats.Scale(12000, 300000)), func(rt *rapid.T) {
		ec := drawObject(rt, 3, true)
		// bias: plant hostile bytes into string leaves so details carry them
		if ec.Kind == gen.Cert && rapid.Bool().Draw(rt, "plant") {
			o := co.Certs[rapid.IntRange(0, len(co.Certs)-1).Draw(rt, "pbase")]
			if v, err := gen.ViewCert(o.DER); err == nil {
				h := hostileDetail[rapid.IntRange(0, len(hostileDetail)-1).Draw(rt, "hostile")]
				val := append(append([]byte("a"), h...), []byte(".example.com")...)
				switch rapid.IntRange(0, 2).Draw(rt, "where") {
				case 0:
					v.SetSAN(false, gen.GNDNS(val))
				case 1:
					v.SetCN(val, 12)
				default:
					v.SetSAN(false, gen.GNURI(append([]byte("http://"), val...)), gen.GNEmail(append([]byte("u@"), val...)))
				}
				if pc, ok := gen.ParseCert(o.DER); ok && pc.SelfSigned {
					v.SelfSign()
				}
				ec = engine.Case{Kind: gen.Cert, DER: v.DER(), Base: o.Name, Ops: []string{"plant-hostile-string"}}
			}
		}
		if rapid.IntRange(0, 4).Draw(rt, "filtered") == 0 {
			drawRegistry(rt, &ec)
		}
		c := c14Case{What: "resultset", Case: &ec}
		rec.Eval()
		rec.Class("resultset")
		if sig, msg := judgeC14(rec, c); msg != "" {
			fail(rt, rec, "c14", sig, msg, c)
		}
		// the same result set as the command line tool prints it (default and -pretty): when the
		// details carry anything beyond plain words, the printed JSON must decode to the same texts
		if cli != "" && cliBudget > 0 && ec.Kind != gen.OCSP && len(ec.Filters) <= 1 && ec.Config == nil && !ec.NilReg {
			if run := engine.Execute(ec, false); run.Parsed && run.RS != nil {
				special := false
				for _, r := range run.RS.Results {
					if strings.ContainsAny(r.Details, "%\\\"<>&\x00\x7f") || !utf8.ValidString(r.Details) || strings.Contains(r.Details, "\u2028") {
						special = true
						break
					}
				}
				if special {
					cliBudget--
					cc := c15Case{Inputs: []c15Input{{Kind: ec.Kind, DER: ec.DER, Encoding: "pem", Delivery: "file", Base: ec.Base}}, Format: "pem",
						Output: rapid.SampledFrom([]string{"default", "default", "pretty"}).Draw(rt, "clioutput")}
					if len(ec.Filters) == 1 {
						cc.Filter = &ec.Filters[0]
					}
					if dir, err := os.MkdirTemp("", "verif-c14-"); err == nil {
						sig, msg := judgeC15(rec, cc, cli, dir)
						os.RemoveAll(dir)
						rec.Class("cli_special_details")
						if msg != "" {
							fail(rt, rec, "c15", "cli-output|"+sig, msg, cc)
						}
					}
				}
			}
		}
	})
	rapidRun(t, "synthetic", perShard(stats.Scale(8000, 200000)), func(rt *rapid.T) {
		var c c14Case
		switch rapid.IntRange(0, 4).Draw(rt, "what") {
		case 4:
			tok := rapid.OneOf(rapid.Map(rapid.IntRange(-20, 300), func(i int) string { return fmt.Sprint(i) }),
				rapid.SampledFrom([]string{"null", "true", "false", "[]", "{}", `""`, "[1]", `{"a":1}`, "0.0", "-0", "1E2"}),
				rapid.Map(rapid.String(), func(s string) string { b, _ := json.Marshal(s); return string(b) }),
				rapid.Map(rapid.SampledFrom(statusLabelList()), func(s string) string { b, _ := json.Marshal(s); return string(b) })).Draw(rt, "token")
			c = c14Case{What: "status-token", Label: tok}
		case 0, 1:
			c = c14Case{What: "synthetic", Status: rapid.IntRange(0, 7).Draw(rt, "status"),
				Details: rapid.OneOf(rapid.SliceOfN(rapid.Byte(), 0, 24), rapid.Map(rapid.String(), func(s string) []byte { return []byte(s) })).Draw(rt, "details")}
		case 2:
			lbl := rapid.OneOf(rapid.SampledFrom([]string{"", "PASS", "Pass", "na", "ne", "Error", "warning", "notice", "info ", " info", "fat", "reserved ", "3", "null", "true"}),
				rapid.StringMatching(`[a-zA-Z]{1,8}`), rapid.String()).Draw(rt, "label")
			c = c14Case{What: "status-label", Label: lbl}
		default:
			f := engine.DrawValidFilter(rt, globalNames())
			c = c14Case{What: "writejson", Filter: &f}
		}
		rec.Eval()
		rec.Class(c.What)
		if sig, msg := judgeC14(rec, c); msg != "" {
			fail(rt, rec, "c14", sig, msg, c)
		}
		if rec.WantSample() && rapid.IntRange(0, 40).Draw(rt, "smp") == 0 {
			rec.Sample(c)
		}
	})
	_ = sort.Strings
	// the library's own summary printer runs in this process, then everything is decoded again: printing is not
	// allowed to touch the tables that decoding uses
	{
		if o := co.Certs; len(o) > 0 {
			if pc, ok := gen.ParseCert(o[0].DER); ok {
				rs := zlint.LintCertificate(pc)
				var sink bytes.Buffer
				old := os.Stdout
				if rp, wp, err := os.Pipe(); err == nil {
					os.Stdout = wp
					formattedoutput.OutputSummary(rs, false)
					formattedoutput.OutputSummary(rs, true)
					wp.Close()
					os.Stdout = old
					_, _ = sink.ReadFrom(rp)
				}
				for st := -3; st <= 12; st++ {
					c := c14Case{What: "status-int", Status: st}
					rec.Eval()
					if sig, msg := judgeC14(rec, c); msg != "" {
						if rec.Report("c14", "after-summary|"+sig, msg, c) {
							t.Errorf("c14 after OutputSummary: %s: %s", sig, msg)
						}
					}
				}
				ec := engine.Case{Kind: gen.Cert, DER: o[0].DER, Base: o[0].Name}
				c := c14Case{What: "resultset", Case: &ec}
				if sig, msg := judgeC14(rec, c); msg != "" {
					if rec.Report("c14", "after-summary|"+sig, msg, c) {
						t.Errorf("c14 after OutputSummary: %s: %s", sig, msg)
					}
				}
			}
		}
	}
	// what MarshalJSON / MarshalText-style methods hand out belongs to the caller: appending to it (the usual way
	// of building a line of output) must not reach anything another call will hand out
	{
		first := map[int]string{}
		for st := -3; st <= 12; st++ {
			if b, err := lint.LintStatus(st).MarshalJSON(); err == nil {
				first[st] = string(b)
			}
		}
		for round := 0; round < 2; round++ {
			for st := -3; st <= 12; st++ {
				b, err := lint.LintStatus(st).MarshalJSON()
				if err != nil {
					continue
				}
				b = append(b, ",\n"...)
				b = append(b, bytes.Repeat([]byte{'Z'}, 96)...)
				_ = b
			}
			for st := -3; st <= 12; st++ {
				rec.Eval()
				rec.Class("append_to_marshalled_status")
				b, err := lint.LintStatus(st).MarshalJSON()
				want, had := first[st]
				if (err == nil) != had || (had && string(b) != want) {
					c := c14Case{What: "status-int", Status: st}
					if rec.Report("c14", "marshal-aliases|status", fmt.Sprintf("status %d encoded as %q before and %q (err %v) after callers appended to earlier MarshalJSON results", st, want, b, err), c) {
						t.Errorf("c14: MarshalJSON of status %d changes after appending to earlier results: %q -> %q (%v)", st, want, b, err)
					}
				}
			}
		}
	}
	// after additions: lints of every kind are registered one at a time while the registry is in use (listed, filtered,
	// linted with ... between two registrations); after each one the listing has a line for every registered lint
	// (the first six late lints: the later ones carry no source at all, and a listing line without a known source
	// is not among the lines the statement speaks of)
	if sh, _ := stats.Shard(); sh == 0 {
		for i := 0; i < 6 && i < len(lateKinds); i++ {
			registerLate(i + 1)
			for _, f := range []*engine.FilterSpec{nil, {IncludeNames: []string{lateName(i)}}, {ExcludeNames: []string{"e_ca_country_name_missing"}}} {
				c := c14Case{What: "writejson", Filter: f, Late: i + 1}
				rec.Eval()
				rec.Class("writejson_after_addition")
				if sig, msg := judgeC14(rec, c); msg != "" {
					if rec.Report("c14", "after-addition|"+sig, msg, c) {
						t.Errorf("c14 listing after registering %s: %s: %s", lateName(i), sig, msg)
					}
				}
			}
		}
	}
	// one name registered once per kind (names are unique per kind only): the listing has a line for each
	registerSameName()
	for _, f := range []*engine.FilterSpec{nil, {IncludeNames: []string{"e_verif_same_name"}}, {ExcludeNames: []string{"e_ca_country_name_missing"}}, {IncludeSources: []string{"RFC5280", "RFC6960"}}} {
		c := c14Case{What: "writejson", Filter: f, SameName: true}
		rec.Eval()
		rec.Class("writejson_same_name")
		if sig, msg := judgeC14(rec, c); msg != "" {
			if rec.Report("c14", sig, msg, c) {
				t.Errorf("c14 listing with one name registered for three kinds: %s: %s", sig, msg)
			}
		}
	}
}

var sameNameOnce sync.Once

func registerSameName() {
	sameNameOnce.Do(func() {
		lint.RegisterCertificateLint(&lint.CertificateLint{LintMetadata: lint.LintMetadata{Name: "e_verif_same_name", Description: "the certificate lint of that name", Citation: "cert", Source: lint.Community},
			Lint: func() lint.CertificateLintInterface { return lateLint{} }})
		lint.RegisterRevocationListLint(&lint.RevocationListLint{LintMetadata: lint.LintMetadata{Name: "e_verif_same_name", Description: "the CRL lint of that name", Citation: "crl", Source: lint.RFC5280},
			Lint: func() lint.RevocationListLintInterface { return lateCRL{} }})
		lint.RegisterOcspResponseLint(&lint.OcspResponseLint{LintMetadata: lint.LintMetadata{Name: "e_verif_same_name", Description: "the OCSP lint of that name", Citation: "ocsp", Source: lint.RFC6960},
			Lint: func() lint.OcspResponseLintInterface { return lateOCSP{} }})
		// lints whose window uses sentinel dates far outside the calendar of X.509 (year 10000, before year 0, the largest Unix time)
		for i, d := range [][2]time.Time{{time.Date(10000, 1, 1, 0, 0, 0, 0, time.UTC), {}}, {{}, time.Unix(1<<62, 0)}, {time.Date(-1, 1, 1, 0, 0, 0, 0, time.UTC), time.Date(12000, 1, 1, 0, 0, 0, 0, time.UTC)}} {
			lint.RegisterCertificateLint(&lint.CertificateLint{LintMetadata: lint.LintMetadata{Name: fmt.Sprintf("e_verif_far_dates_%d", i), Description: "far dates", Citation: "x", Source: lint.Community, EffectiveDate: d[0], IneffectiveDate: d[1]},
				Lint: func() lint.CertificateLintInterface { return lateLint{} }})
		}
	})
}

func init() {
	registerReplayer("c14", func(rec *stats.Rec, raw json.RawMessage) (string, string) {
		var c c14Case
		if err := json.Unmarshal(raw, &c); err != nil {
			return "decode", err.Error()
		}
		return judgeC14(rec, c)
	})
}
