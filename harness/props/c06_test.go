package props

import (
	"encoding/json"
	"fmt"
	"reflect"
	"sort"
	"strings"
	"testing"
	"time"

	"github.com/zmap/zlint/v3/lint"
	"pgregory.net/rapid"

	"verifharness/engine"
	"verifharness/gen"
	"verifharness/model"
	"verifharness/stats"

	dt "verifharness/dertree"
)

// allowedFor returns whether status s is open to a lint with this name.
func severityAllowed(name string, s lint.LintStatus) (bool, string) {
	pfx := 0
	for _, p := range []string{"e_", "w_", "n_"} {
		if strings.HasPrefix(name, p) {
			pfx++
		}
	}
	if pfx != 1 {
		return false, "name does not carry exactly one of the e_/w_/n_ prefixes"
	}
	switch s {
	case lint.Pass, lint.NA, lint.NE, lint.Fatal:
		return true, ""
	case lint.Error:
		return strings.HasPrefix(name, "e_"), ""
	case lint.Warn:
		return strings.HasPrefix(name, "w_"), ""
	case lint.Notice:
		return strings.HasPrefix(name, "n_"), ""
	}
	return false, "undefined status"
}

// judgeC06 tallies lint x status over one lint run.
func judgeC06(rec *stats.Rec, c engine.Case) (string, string) {
	return judgeC06Run(rec, c, engine.Execute(c, false))
}

func judgeC06Run(rec *stats.Rec, c engine.Case, run *engine.Run) (string, string) {
	if !run.Parsed {
		rec.Class("parse_rejected")
		return "", ""
	}
	if run.SetupErr != "" || run.RS == nil {
		rec.Class("void")
		return "", ""
	}
	v := engine.Verdicts(run.RS)
	names := make([]string, 0, len(v))
	for n := range v {
		names = append(names, n)
	}
	sort.Strings(names)
	var firstSig, firstMsg string
	for _, n := range names {
		x := v[n]
		ok, why := severityAllowed(n, x.Status)
		if x.Status > lint.Pass {
			rec.NT(stats.HashS(n, x.Status.String()))
			rec.Class("seen:" + n + "=" + x.Status.String())
		}
		if !ok {
			sig := "severity|" + n + "|" + x.Status.String()
			msg := fmt.Sprintf("lint %s reported %s (%s) %s", n, x.Status, short(x.Details, 120), why)
			if stats.IsKnown("C06", sig) {
				rec.Known(sig)
				continue
			}
			if firstMsg == "" {
				firstSig, firstMsg = sig, msg
			}
		}
	}
	return firstSig, firstMsg
}

// directedEdit mutates a leaf inside the extensions / names of a home object.
func TestC06(t *testing.T) {
	rec := newRec(t, "C06")
	// every registered name carries exactly one prefix (enumerated)
	for _, l := range registryLints(lint.GlobalRegistry()) {
		rec.Eval()
		if ok, why := severityAllowed(l.Name, lint.Pass); !ok {
			if rec.Report("c06", "prefix|"+l.Name, why, engine.Case{Note: "prefix:" + l.Name}) {
				t.Errorf("c06: %s: %s", l.Name, why)
			}
		}
	}
	co := gen.LoadCorpus()
	idx := 0
	for _, objs := range [][]gen.Obj{co.Certs, co.CRLs, co.OCSPs} {
		for _, o := range objs {
			idx++
			if !stats.Mine(idx) {
				continue
			}
			c := engine.Case{Kind: o.Kind, DER: o.DER, Base: o.Name}
			rec.Eval()
			if sig, msg := judgeC06(rec, c); msg != "" {
				if rec.Report("c06", sig, msg, c) {
					t.Errorf("c06 corpus %s: %s: %s", o.Name, sig, msg)
				}
			}
		}
	}
	// boundary objects: every dated lint's home objects re-dated to its boundaries +-1 s
	forEachBoundaryCase(rec, stats.Scale(2, 8), []gen.TimeForm{gen.UTCZ}, func(k int, l regLint, o gen.Obj, at time.Time, fi int, f gen.TimeForm) {
		c, ok := redatedCase(o, at, f)
		if !ok {
			return
		}
		c.Note = "boundary of " + l.Name
		rec.Eval()
		rec.Class("boundary")
		if sig, msg := judgeC06(rec, c); msg != "" {
			if rec.Report("c06", sig, msg, c) {
				t.Fatalf("c06 boundary %s on %s at %s: %s: %s", l.Name, o.Name, at.UTC().Format(time.RFC3339), sig, msg)
			}
		}
	})
	// home sweep: every lint's own single-edit neighbourhood (enumerated)
	homeSweep(rec, 2, false, "c06", func(c engine.Case, run *engine.Run) (string, string) {
		return judgeC06Run(rec, c, run)
	}, func(s string) { t.Fatalf("%s", s) })
	// directed: home objects of each lint x single leaf edits inside extensions and names
	hm := homeObjects()
	reg := registryLints(lint.GlobalRegistry())
	sort.Slice(reg, func(i, j int) bool { return reg[i].Name < reg[j].Name })
	rapidRun(t, "directed", perShard(stats.Scale(25000, 1000000)), func(rt *rapid.T) {
		l := reg[rapid.IntRange(0, len(reg)-1).Draw(rt, "lint")]
		hs := hm[l.Name]
		if len(hs) == 0 {
			return
		}
		o := kindObjs(l.Kind)[hs[rapid.IntRange(0, len(hs)-1).Draw(rt, "home")]]
		root, err := dt.Parse(o.DER)
		if err != nil {
			return
		}
		var ops []string
		for i, n := 0, rapid.IntRange(1, 2).Draw(rt, "nedits"); i < n; i++ {
			ops = append(ops, gen.RandomEdit(rt, root))
		}
		if o.Kind == gen.Cert {
			if pc, ok := gen.ParseCert(o.DER); ok && pc.SelfSigned {
				if v, err := gen.ViewCertTree(root); err == nil {
					v.SelfSign()
				}
			}
		}
		c := engine.Case{Kind: o.Kind, DER: root.Encode(), Base: o.Name, Ops: ops, Note: "home of " + l.Name}
		rec.Eval()
		rec.Class("directed")
		if sig, msg := judgeC06(rec, c); msg != "" {
			fail(rt, rec, "c06", sig, msg, c)
		}
	})
	// enumerated: revocation lists over the calendar x the CRL lint's option
	forEachCalendarCRL(func(c engine.Case) {
		rec.Eval()
		rec.Class("calendar_crl")
		if sig, msg := judgeC06(rec, c); msg != "" {
			if rec.Report("c06", sig, msg, c) {
				t.Fatalf("c06 %v: %s: %s", c.Ops, sig, msg)
			}
		}
	})
	// enumerated: sections that cannot be applied (the framework itself then answers for the lint, and what it answers
	// is open to every lint only if it is fatal) x the configurable lints x objects they run on
	{
		sens := sensitiveObjects()
		k := 0
		for _, ci := range engine.Configurables() {
			docs := []string{ci.Name + " = 5\n", ci.Name + " = \"x\"\n", ci.Name + " = [1, 2]\n", "[[" + ci.Name + "]]\nx = 1\n", ci.Name + " = 1979-05-27T07:32:00Z\n"}
			for _, f := range ci.Fields {
				bad := `"notatype"`
				if f.Type.Kind() == reflect.String {
					bad = "[1]"
				}
				docs = append(docs, fmt.Sprintf("[%s]\n%s = %s\n", ci.Name, f.Name, bad), fmt.Sprintf("[%s.%s]\nx = 1\n", ci.Name, f.Name))
			}
			objs := sens[ci.Name]
			if hs := homeObjects()[ci.Name]; len(hs) > 0 {
				objs = append(append([]gen.Obj{}, objs...), kindObjs(lintKindOf(ci.Name))[hs[0]])
			}
			for _, o := range objs {
				for _, d := range docs {
					k++
					if !stats.Mine(k) {
						continue
					}
					d := d
					c := engine.Case{Kind: o.Kind, DER: o.DER, Base: o.Name, Config: &d, Note: "ill-typed section"}
					rec.Eval()
					rec.Class("ill_typed")
					if sig, msg := judgeC06(rec, c); msg != "" {
						if rec.Report("c06", sig, msg, c) {
							t.Fatalf("c06 %s under %q: %s: %s", o.Name, d, sig, msg)
						}
					}
				}
			}
		}
	}
	// under well-typed configurations (severity must match the name whatever option is set), and under ill-typed ones
	rapidRun(t, "configured", perShard(stats.Scale(12000, 400000)), func(rt *rapid.T) {
		c, _ := drawConfiguredCase(rt)
		if rapid.IntRange(0, 4).Draw(rt, "ill") == 0 {
			drawConfig(rt, &c, true)
		}
		rec.Eval()
		rec.Class("configured")
		if sig, msg := judgeC06(rec, c); msg != "" {
			fail(rt, rec, "c06", sig, msg, c)
		}
	})
	rapidRun(t, "generated", perShard(stats.Scale(25000, 1000000)), func(rt *rapid.T) {
		c := drawObject(rt, 4, true)
		rec.Eval()
		rec.Class("generated")
		if sig, msg := judgeC06(rec, c); msg != "" {
			fail(rt, rec, "c06", sig, msg, c)
		}
		if rec.WantSample() && len(c.Ops) > 0 {
			r := engine.Execute(c, false)
			if r.Parsed && r.RS != nil {
				f := findings(engine.Verdicts(r.RS))
				sort.Strings(f)
				if len(f) > 0 {
					rec.Sample(sampleCase(c, map[string]interface{}{"findings": f}))
				}
			}
		}
	})
	_ = model.PanicMarker
}

func init() {
	registerReplayer("c06", func(rec *stats.Rec, raw json.RawMessage) (string, string) {
		var c engine.Case
		if err := json.Unmarshal(raw, &c); err != nil {
			return "decode", err.Error()
		}
		if strings.HasPrefix(c.Note, "prefix:") {
			n := strings.TrimPrefix(c.Note, "prefix:")
			if ok, why := severityAllowed(n, lint.Pass); !ok {
				return "prefix|" + n, why
			}
			return "", ""
		}
		return judgeC06(rec, c)
	})
}
