package props

import (
	"encoding/json"
	"os"
	"path/filepath"
	"testing"

	"verifharness/gen"
	"verifharness/stats"

	dt "verifharness/dertree"
)

// TestEmitRegress writes the committed regress/ replay files for repaired
// defects whose cases are built rather than found (run by hand:
// VERIF_EMIT=/verif/regress go test ./props -run TestEmitRegress).
func TestEmitRegress(t *testing.T) {
	root := os.Getenv("VERIF_EMIT")
	if root == "" {
		t.Skip("VERIF_EMIT not set")
	}
	write := func(prop, name, oracle, sig, msg string, c interface{}) {
		b, _ := json.Marshal(c)
		v := stats.Violation{Property: prop, Oracle: oracle, Signature: sig, Message: msg, Case: b}
		vb, _ := json.MarshalIndent(v, "", " ")
		_ = os.MkdirAll(filepath.Join(root, prop), 0o755)
		if err := os.WriteFile(filepath.Join(root, prop, name+".json"), vb, 0o644); err != nil {
			t.Fatal(err)
		}
	}
	// D6: SAN order [localhost, a_b.com] vs [a_b.com, localhost] on a TLS subscriber certificate
	_, tls := structBases()
	co := gen.LoadCorpus()
	o := co.Certs[tls[0]]
	mk := func(names ...string) []byte {
		v, _ := gen.ViewCert(o.DER)
		var g []*dt.Node
		for _, n := range names {
			g = append(g, gen.GNDNS([]byte(n)))
		}
		v.SetSAN(false, g...)
		v.RemoveCN()
		return v.DER()
	}
	write("C17", "d6-unparseable-name-first", "c17", "san-order|e_rfc_dnsname_underscore_in_sld|NA-vs-error", "D6: NA at the first unparseable SAN entry",
		c17Case{DER: mk("a_b.com", "localhost"), DER2: mk("localhost", "a_b.com"), What: "san", Base: o.Name, Names: []string{"a_b.com", "localhost"}, Perm: []int{1, 0}})
	// D7: same URI in SAN and IAN
	for i, u := range []string{"urn:x:y", "http://[::1]/", "mailto:a@b.com"} {
		v, _ := gen.ViewCert(o.DER)
		v.SetSAN(false, gen.GNURI([]byte(u)))
		v.SetIAN(gen.GNURI([]byte(u)))
		write("C20", "d7-san-ian-uri-"+string(rune('a'+i)), "c20", "twin|e_ext_san_uri_host_not_fqdn_or_ip|e_ext_ian_uri_host_not_fqdn_or_ip", "D7: IAN copy contradicts SAN copy on "+u,
			c20Case{DER: v.DER(), Base: o.Name, Fam: "san-ian", Desc: []string{"uri:" + u}})
	}
	// D4: super-nets of 127/8
	for _, p := range []int{4, 5, 6, 7} {
		write("C19", "d4-supernet-of-loopback-"+string(rune('0'+p)), "c19", "contains-reserved", "D4: network contains 127.0.0.1 but does not intersect",
			c19Case{What: "net", IP: "127.0.0.1", Prefix: p})
		write("C19", "d4-supernet-of-loopback-mapped-"+string(rune('0'+p)), "c19", "contains-reserved", "D4 (IPv4-mapped form)",
			c19Case{What: "net", IP: "127.0.0.1", Prefix: p, Mapped: true})
	}
	// D5c: EV certificate with three .onion names and a descriptor for the first only
	{
		v, _ := gen.ViewCert(o.DER)
		names := []string{"www.aaaaaaaaaaaaaaab.onion", "www.aaaaaaaaaaaaaaac.onion", "www.aaaaaaaaaaaaaaad.onion"}
		var g []*dt.Node
		for _, n := range names {
			g = append(g, gen.GNDNS([]byte(n)))
		}
		v.SetSAN(false, g...)
		v.RemoveCN()
		v.SetPolicies([]int{2, 23, 140, 1, 1})
		v.SetEKU(gen.EKUServerAuth)
		hash := append([]byte{0}, make([]byte, 32)...)
		desc := dt.Seq(dt.Prim(0, 12, []byte("https://aaaaaaaaaaaaaaab.onion")), gen.AlgID([]int{2, 16, 840, 1, 101, 3, 4, 2, 1}, false), dt.Prim(0, 3, hash))
		v.SetExt([]int{2, 23, 140, 1, 31}, false, dt.Seq(desc))
		c := c05Case{Reps: 40}
		c.Kind, c.DER, c.Base = gen.Cert, v.DER(), o.Name
		write("C05", "d5c-tor-descriptor-map-order", "c05", "repeat-details|e_ext_tor_service_descriptor_hash_invalid", "D5c: first .onion name lacking a descriptor chosen in map order", c)
	}
	// D5a: key usage order (any certificate with the strictPurpose finding; repetition oracle)
	hm := homeObjects()
	for _, i := range hm["e_key_usage_and_extended_key_usage_inconsistent"] {
		c := c05Case{Reps: 40}
		c.Kind, c.DER, c.Base = gen.Cert, co.Certs[i].DER, co.Certs[i].Name
		if sig, _ := judgeC05Repeat(stats.New("C05"), c); sig == "" {
			r, _, _ := lintCase(c.Case)
			if r != nil && r.Results["e_key_usage_and_extended_key_usage_inconsistent"].Details != "" {
				write("C05", "d5a-key-usage-order", "c05", "repeat-details|e_key_usage_and_extended_key_usage_inconsistent", "D5a: details named key usages in map order", c)
				break
			}
		}
	}
}
