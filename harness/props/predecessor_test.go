package props

import (
	"encoding/json"
	"fmt"
	"go/ast"
	"go/parser"
	"go/token"
	"os"
	"path/filepath"
	"sort"
	"strconv"
	"strings"
	"sync"
	"time"

	"github.com/zmap/zlint/v3/lint"

	"verifharness/gen"
	"verifharness/model"
	"verifharness/stats"
)

// The predecessor sweep (C05: "whatever was linted before it in the process"). State that one run of a lint
// leaves behind for the next one - a recycled decoding target, a one-entry memo, a scratch buffer - travels from
// a run of lint L to the next run of the same L. So, for every lint L: every corpus object on which L reports
// (and a few on which its body runs and passes) is the *predecessor* of every object of L's kind in turn:
//
//	L(source); L(victim)   must say about the victim what   L(victim)   says after any other predecessor.
//
// Enumerated: lints x (up to 5 sources) x (all corpus objects of the kind + synthetic rich CRLs / OCSP responses).
// The lint is run directly (its own Execute: configuration, applicability, window, body), on fresh parses.

type c05PredCase struct {
	Lint       string   `json:"lint"`
	Kind       gen.Kind `json:"kind"`
	Source     []byte   `json:"source"`
	Victim     []byte   `json:"victim"`
	SourceBase string   `json:"source_base,omitempty"`
	VictimBase string   `json:"victim_base,omitempty"`
}

// runOne executes one lint on a parsed object of its kind (nil result: panic or no such lint).
func runOne(name string, kind gen.Kind, obj interface{}) (v model.Verdict, ok bool) {
	g := lint.GlobalRegistry()
	cfg := g.GetConfiguration()
	defer func() {
		if r := recover(); r != nil {
			v, ok = model.Verdict{Status: lint.Fatal, Details: fmt.Sprint("panic: ", r)}, true
		}
	}()
	var r *lint.LintResult
	switch kind {
	case gen.Cert:
		if l := g.CertificateLints().ByName(name); l != nil {
			r = l.Execute(obj.(*zx509Cert), cfg)
		}
	case gen.CRL:
		if l := g.RevocationListLints().ByName(name); l != nil {
			r = l.Execute(obj.(*zx509CRL), cfg)
		}
	default:
		if l := g.OcspResponseLints().ByName(name); l != nil {
			r = l.Execute(obj.(*ocspResp), cfg)
		}
	}
	if r == nil {
		return model.Verdict{}, false
	}
	return model.Verdict{Status: r.Status, Details: r.Details}, true
}

func parsedOf(kind gen.Kind, der []byte) (interface{}, bool) {
	switch kind {
	case gen.Cert:
		c, ok := gen.ParseCert(der)
		return c, ok
	case gen.CRL:
		c, ok := gen.ParseCRL(der)
		return c, ok
	}
	c, ok := gen.ParseOCSP(der)
	return c, ok
}

// judgePred: the victim alone (twice, so that the victim is its own predecessor too), then after the source.
func judgePred(c c05PredCase) (string, string) {
	v1, ok1 := parsedOf(c.Kind, c.Victim)
	v2, ok2 := parsedOf(c.Kind, c.Victim)
	v3, ok3 := parsedOf(c.Kind, c.Victim)
	s, oks := parsedOf(c.Kind, c.Source)
	if !ok1 || !ok2 || !ok3 || !oks {
		return "", ""
	}
	runOne(c.Lint, c.Kind, v1)
	alone, ok := runOne(c.Lint, c.Kind, v2)
	if !ok {
		return "", ""
	}
	runOne(c.Lint, c.Kind, s)
	after, ok := runOne(c.Lint, c.Kind, v3)
	if !ok {
		return "", ""
	}
	return cmpPred(c, alone, after)
}

func cmpPred(c c05PredCase, alone, after model.Verdict) (string, string) {
	if alone.Status != after.Status {
		return "predecessor-status|" + c.Lint, fmt.Sprintf("%s says %s about %s when it has just judged %s, and %s otherwise", c.Lint, after.Status, c.VictimBase, c.SourceBase, alone.Status)
	}
	if alone.Details != after.Details && !timeNowLints[c.Lint] {
		return "predecessor-details|" + c.Lint, fmt.Sprintf("%s: details about %s are %q when it has just judged %s, and %q otherwise", c.Lint, c.VictimBase, short(after.Details, 140), c.SourceBase, short(alone.Details, 140))
	}
	return "", ""
}

var timeNowLints = map[string]bool{"w_sub_cert_aia_contains_internal_names": true, "w_smime_aia_contains_internal_names": true}

func predecessorSweep(rec *stats.Rec, onViolation func(string)) {
	homeObjects()
	maxSources := stats.Scale(5, 12)
	type parsed struct {
		obj  interface{}
		name string
		der  []byte
	}
	pools := map[string][]parsed{}
	for _, k := range []string{"cert", "crl", "ocsp"} {
		objs := append([]gen.Obj{}, kindObjs(k)...)
		switch k {
		case "crl":
			objs = append(objs, gen.RichCRLs()...)
		case "ocsp":
			objs = append(objs, gen.RichOCSPs()...)
		}
		for _, o := range objs {
			if p, ok := parsedOf(o.Kind, o.DER); ok {
				pools[k] = append(pools[k], parsed{p, o.Name, o.DER})
			}
		}
	}
	lints := registryLints(lint.GlobalRegistry())
	sort.Slice(lints, func(i, j int) bool { return lints[i].Name < lints[j].Name })
	pairs := int64(0)
	for li, l := range lints {
		if !stats.Mine(li) {
			continue
		}
		kind := map[string]gen.Kind{"cert": gen.Cert, "crl": gen.CRL, "ocsp": gen.OCSP}[l.Kind]
		pool := pools[l.Kind]
		// reference: every victim after its neighbour in the pool (parsed objects are read-only for lints - judged elsewhere)
		ref := make([]model.Verdict, len(pool))
		have := make([]bool, len(pool))
		for i, p := range pool {
			ref[i], have[i] = runOne(l.Name, kind, p.obj)
		}
		// sources: objects on which the lint reports first, then objects on which its body runs and passes
		var sources []int
		for _, want := range []lint.LintStatus{lint.Error, lint.Warn, lint.Notice, lint.Fatal, lint.Pass} {
			n := 0
			for i := range pool {
				if have[i] && ref[i].Status == want && n < (maxSources+1)/2 && len(sources) < maxSources {
					// spread over the pool rather than the first few files
					sources = append(sources, i)
					n++
				}
			}
		}
		for _, si := range sources {
			src := pool[si]
			for vi, vic := range pool {
				if !have[vi] {
					continue
				}
				runOne(l.Name, kind, src.obj)
				after, ok := runOne(l.Name, kind, vic.obj)
				pairs++
				if !ok {
					continue
				}
				c := c05PredCase{Lint: l.Name, Kind: kind, Source: src.der, Victim: vic.der, SourceBase: src.name, VictimBase: vic.name}
				if sig, msg := cmpPred(c, ref[vi], after); msg != "" {
					// confirm on fresh parses (that is also what a replay does)
					if s2, m2 := judgePred(c); m2 != "" {
						sig, msg = s2, m2
					} else {
						msg += " (seen in the sweep on shared parsed objects; not reproduced by the three-step replay on fresh parses)"
					}
					if rec.Report("c05-pred", sig, msg, c) {
						onViolation(fmt.Sprintf("c05 predecessor sweep: %s: %s", sig, msg))
						return
					}
				}
			}
			rec.NT(stats.HashS("pred", l.Name, src.name))
		}
	}
	rec.EvalN(pairs)
	rec.ClassN("predecessor_pairs", pairs)
	rec.Exhaustive("predecessor sweep: every lint x its reporting corpus objects as predecessor x every corpus object of the kind", true)
}

func init() {
	registerReplayer("c05-pred", func(rec *stats.Rec, raw json.RawMessage) (string, string) {
		var c c05PredCase
		if err := json.Unmarshal(raw, &c); err != nil {
			return "decode", err.Error()
		}
		return judgePred(c)
	})
}

// harvestedDates: every time.Date(...) literal with constant year / month / day in zlint's util, lint and lints
// packages (read with go/parser from the tree under test) - the instants at which some rule changes its mind, whether
// it says so in its metadata or in its body.
func harvestedDates() []time.Time {
	dateOnce.Do(func() {
		seen := map[int64]bool{}
		months := map[string]int{"January": 1, "February": 2, "March": 3, "April": 4, "May": 5, "June": 6, "July": 7, "August": 8, "September": 9, "October": 10, "November": 11, "December": 12}
		num := func(e ast.Expr) (int, bool) {
			switch x := e.(type) {
			case *ast.BasicLit:
				n, err := strconv.Atoi(x.Value)
				return n, err == nil
			case *ast.SelectorExpr:
				if id, ok := x.X.(*ast.Ident); ok && id.Name == "time" {
					m, ok := months[x.Sel.Name]
					return m, ok
				}
			}
			return 0, false
		}
		_ = filepath.Walk(gen.RepoV3(), func(p string, info os.FileInfo, err error) error {
			if err != nil || info.IsDir() || !strings.HasSuffix(p, ".go") || strings.HasSuffix(p, "_test.go") {
				return nil
			}
			rel, _ := filepath.Rel(gen.RepoV3(), p)
			if !(strings.HasPrefix(rel, "util/") || strings.HasPrefix(rel, "lints/") || strings.HasPrefix(rel, "lint/")) {
				return nil
			}
			af, err := parser.ParseFile(token.NewFileSet(), p, nil, 0)
			if err != nil {
				return nil
			}
			ast.Inspect(af, func(n ast.Node) bool {
				call, ok := n.(*ast.CallExpr)
				if !ok || len(call.Args) < 3 {
					return true
				}
				sel, ok := call.Fun.(*ast.SelectorExpr)
				if !ok || sel.Sel.Name != "Date" {
					return true
				}
				if id, ok := sel.X.(*ast.Ident); !ok || id.Name != "time" {
					return true
				}
				y, ok1 := num(call.Args[0])
				m, ok2 := num(call.Args[1])
				d, ok3 := num(call.Args[2])
				if ok1 && ok2 && ok3 && y >= 1990 && y <= 2045 {
					t := time.Date(y, time.Month(m), d, 0, 0, 0, 0, time.UTC)
					if !seen[t.Unix()] {
						seen[t.Unix()] = true
						dates = append(dates, t)
					}
				}
				return true
			})
			return nil
		})
		sort.Slice(dates, func(i, j int) bool { return dates[i].Before(dates[j]) })
	})
	return dates
}

var (
	dateOnce sync.Once
	dates    []time.Time
)

// datedPredecessors: the predecessor sweep again with predecessors that the corpus does not hold - every lint's
// home objects re-dated to one second before each harvested date (the interval between two consecutive dates is
// where a rule's body may take a branch of its own); victims are the lint's home objects as they are.
func datedPredecessors(rec *stats.Rec, onViolation func(string)) {
	hm := homeObjects()
	ds := harvestedDates()
	rec.ClassN("harvested_dates", int64(len(ds)))
	lints := registryLints(lint.GlobalRegistry())
	sort.Slice(lints, func(i, j int) bool { return lints[i].Name < lints[j].Name })
	type key struct {
		obj  int
		kind string
		at   int64
	}
	cache := map[key]interface{}{}
	cacheDER := map[key][]byte{}
	pairs := int64(0)
	for li, l := range lints {
		if !stats.Mine(li) || l.Kind == "ocsp" {
			continue
		}
		kind := map[string]gen.Kind{"cert": gen.Cert, "crl": gen.CRL}[l.Kind]
		homes := hm[l.Name]
		if len(homes) == 0 {
			continue
		}
		objs := kindObjs(l.Kind)
		nv := len(homes)
		if nv > 12 {
			nv = 12
		}
		type vic struct {
			obj  interface{}
			o    gen.Obj
			ref  model.Verdict
			have bool
		}
		var victims []vic
		for _, hi := range homes[:nv] {
			if p, ok := parsedOf(kind, objs[hi].DER); ok {
				v := vic{obj: p, o: objs[hi]}
				v.ref, v.have = runOne(l.Name, kind, p)
				victims = append(victims, v)
			}
		}
		ns := 2
		if len(homes) < ns {
			ns = len(homes)
		}
		for _, hi := range homes[:ns] {
			for _, d := range ds {
				at := d.Add(-time.Second)
				k := key{hi, l.Kind, at.Unix()}
				src, ok := cache[k]
				if !ok {
					if c, good := redatedCase(objs[hi], at, gen.TimeForm(0)); good {
						if p, pok := parsedOf(kind, c.DER); pok {
							src = p
							cacheDER[k] = c.DER
						}
					}
					cache[k] = src
				}
				if src == nil {
					continue
				}
				for _, v := range victims {
					if !v.have {
						continue
					}
					runOne(l.Name, kind, src)
					after, ok := runOne(l.Name, kind, v.obj)
					pairs++
					if !ok {
						continue
					}
					c := c05PredCase{Lint: l.Name, Kind: kind, Source: cacheDER[k], Victim: v.o.DER, SourceBase: objs[hi].Name + " re-dated to " + at.Format(time.RFC3339), VictimBase: v.o.Name}
					if sig, msg := cmpPred(c, v.ref, after); msg != "" {
						if s2, m2 := judgePred(c); m2 != "" {
							sig, msg = s2, m2
						} else {
							msg += " (seen in the sweep on shared parsed objects; not reproduced by the three-step replay on fresh parses)"
						}
						if rec.Report("c05-pred", sig, msg, c) {
							onViolation(fmt.Sprintf("c05 dated predecessors: %s: %s", sig, msg))
							return
						}
					}
				}
			}
		}
	}
	rec.EvalN(pairs)
	rec.ClassN("dated_predecessor_pairs", pairs)
}
