package props

import (
	"encoding/json"
	"fmt"
	"sort"

	"github.com/zmap/zlint/v3/lint"

	"verifharness/gen"
	"verifharness/model"
	"verifharness/stats"
)

// The predecessor sweep (C05: "whatever was linted before it in the process"). State that one run of a lint
// leaves behind for the next one - a recycled decoding target, a one-entry memo, a scratch buffer - travels from
// a run of lint L to the next run of the same L. So, for every lint L: every corpus object on which L reports
// (and a few on which its body runs and passes) is the *predecessor* of every object of L's kind in turn:
//
//	L(source); L(victim)   must say about the victim what   L(victim)   says after any other predecessor.
//
// Enumerated: lints x (up to 5 sources) x (all corpus objects of the kind + synthetic rich CRLs / OCSP responses).
// The lint is run directly (its own Execute: configuration, applicability, window, body), on fresh parses.

type c05PredCase struct {
	Lint       string   `json:"lint"`
	Kind       gen.Kind `json:"kind"`
	Source     []byte   `json:"source"`
	Victim     []byte   `json:"victim"`
	SourceBase string   `json:"source_base,omitempty"`
	VictimBase string   `json:"victim_base,omitempty"`
}

// runOne executes one lint on a parsed object of its kind (nil result: panic or no such lint).
func runOne(name string, kind gen.Kind, obj interface{}) (v model.Verdict, ok bool) {
	g := lint.GlobalRegistry()
	cfg := g.GetConfiguration()
	defer func() {
		if r := recover(); r != nil {
			v, ok = model.Verdict{Status: lint.Fatal, Details: fmt.Sprint("panic: ", r)}, true
		}
	}()
	var r *lint.LintResult
	switch kind {
	case gen.Cert:
		if l := g.CertificateLints().ByName(name); l != nil {
			r = l.Execute(obj.(*zx509Cert), cfg)
		}
	case gen.CRL:
		if l := g.RevocationListLints().ByName(name); l != nil {
			r = l.Execute(obj.(*zx509CRL), cfg)
		}
	default:
		if l := g.OcspResponseLints().ByName(name); l != nil {
			r = l.Execute(obj.(*ocspResp), cfg)
		}
	}
	if r == nil {
		return model.Verdict{}, false
	}
	return model.Verdict{Status: r.Status, Details: r.Details}, true
}

func parsedOf(kind gen.Kind, der []byte) (interface{}, bool) {
	switch kind {
	case gen.Cert:
		c, ok := gen.ParseCert(der)
		return c, ok
	case gen.CRL:
		c, ok := gen.ParseCRL(der)
		return c, ok
	}
	c, ok := gen.ParseOCSP(der)
	return c, ok
}

// judgePred: the victim alone (twice, so that the victim is its own predecessor too), then after the source.
func judgePred(c c05PredCase) (string, string) {
	v1, ok1 := parsedOf(c.Kind, c.Victim)
	v2, ok2 := parsedOf(c.Kind, c.Victim)
	v3, ok3 := parsedOf(c.Kind, c.Victim)
	s, oks := parsedOf(c.Kind, c.Source)
	if !ok1 || !ok2 || !ok3 || !oks {
		return "", ""
	}
	runOne(c.Lint, c.Kind, v1)
	alone, ok := runOne(c.Lint, c.Kind, v2)
	if !ok {
		return "", ""
	}
	runOne(c.Lint, c.Kind, s)
	after, ok := runOne(c.Lint, c.Kind, v3)
	if !ok {
		return "", ""
	}
	return cmpPred(c, alone, after)
}

func cmpPred(c c05PredCase, alone, after model.Verdict) (string, string) {
	if alone.Status != after.Status {
		return "predecessor-status|" + c.Lint, fmt.Sprintf("%s says %s about %s when it has just judged %s, and %s otherwise", c.Lint, after.Status, c.VictimBase, c.SourceBase, alone.Status)
	}
	if alone.Details != after.Details && !timeNowLints[c.Lint] {
		return "predecessor-details|" + c.Lint, fmt.Sprintf("%s: details about %s are %q when it has just judged %s, and %q otherwise", c.Lint, c.VictimBase, short(after.Details, 140), c.SourceBase, short(alone.Details, 140))
	}
	return "", ""
}

var timeNowLints = map[string]bool{"w_sub_cert_aia_contains_internal_names": true, "w_smime_aia_contains_internal_names": true}

func predecessorSweep(rec *stats.Rec, onViolation func(string)) {
	homeObjects()
	maxSources := stats.Scale(5, 12)
	type parsed struct {
		obj  interface{}
		name string
		der  []byte
	}
	pools := map[string][]parsed{}
	for _, k := range []string{"cert", "crl", "ocsp"} {
		objs := append([]gen.Obj{}, kindObjs(k)...)
		switch k {
		case "crl":
			objs = append(objs, gen.RichCRLs()...)
		case "ocsp":
			objs = append(objs, gen.RichOCSPs()...)
		}
		for _, o := range objs {
			if p, ok := parsedOf(o.Kind, o.DER); ok {
				pools[k] = append(pools[k], parsed{p, o.Name, o.DER})
			}
		}
	}
	lints := registryLints(lint.GlobalRegistry())
	sort.Slice(lints, func(i, j int) bool { return lints[i].Name < lints[j].Name })
	pairs := int64(0)
	for li, l := range lints {
		if !stats.Mine(li) {
			continue
		}
		kind := map[string]gen.Kind{"cert": gen.Cert, "crl": gen.CRL, "ocsp": gen.OCSP}[l.Kind]
		pool := pools[l.Kind]
		// reference: every victim after its neighbour in the pool (parsed objects are read-only for lints - judged elsewhere)
		ref := make([]model.Verdict, len(pool))
		have := make([]bool, len(pool))
		for i, p := range pool {
			ref[i], have[i] = runOne(l.Name, kind, p.obj)
		}
		// sources: objects on which the lint reports first, then objects on which its body runs and passes
		var sources []int
		for _, want := range []lint.LintStatus{lint.Error, lint.Warn, lint.Notice, lint.Fatal, lint.Pass} {
			n := 0
			for i := range pool {
				if have[i] && ref[i].Status == want && n < (maxSources+1)/2 && len(sources) < maxSources {
					// spread over the pool rather than the first few files
					sources = append(sources, i)
					n++
				}
			}
		}
		for _, si := range sources {
			src := pool[si]
			for vi, vic := range pool {
				if !have[vi] {
					continue
				}
				runOne(l.Name, kind, src.obj)
				after, ok := runOne(l.Name, kind, vic.obj)
				pairs++
				if !ok {
					continue
				}
				c := c05PredCase{Lint: l.Name, Kind: kind, Source: src.der, Victim: vic.der, SourceBase: src.name, VictimBase: vic.name}
				if sig, msg := cmpPred(c, ref[vi], after); msg != "" {
					// confirm on fresh parses (that is also what a replay does)
					if s2, m2 := judgePred(c); m2 != "" {
						sig, msg = s2, m2
					} else {
						msg += " (seen in the sweep on shared parsed objects; not reproduced by the three-step replay on fresh parses)"
					}
					if rec.Report("c05-pred", sig, msg, c) {
						onViolation(fmt.Sprintf("c05 predecessor sweep: %s: %s", sig, msg))
						return
					}
				}
			}
			rec.NT(stats.HashS("pred", l.Name, src.name))
		}
	}
	rec.EvalN(pairs)
	rec.ClassN("predecessor_pairs", pairs)
	rec.Exhaustive("predecessor sweep: every lint x its reporting corpus objects as predecessor x every corpus object of the kind", true)
}

func init() {
	registerReplayer("c05-pred", func(rec *stats.Rec, raw json.RawMessage) (string, string) {
		var c c05PredCase
		if err := json.Unmarshal(raw, &c); err != nil {
			return "decode", err.Error()
		}
		return judgePred(c)
	})
}
