package props

import (
	"bufio"
	"bytes"
	"encoding/json"
	"fmt"
	"math/big"
	"os"
	"os/exec"
	"path/filepath"
	"reflect"
	"regexp"
	"sort"
	"strings"
	"testing"

	"github.com/zmap/zlint/v3"
	"github.com/zmap/zlint/v3/lint"
	"pgregory.net/rapid"

	"verifharness/engine"
	"verifharness/gen"
	"verifharness/model"
	"verifharness/stats"

	dt "verifharness/dertree"
)

type c05Case struct {
	engine.Case
	Reps int `json:"reps"`
}

func lintCase(c engine.Case) (*zlint.ResultSet, interface{}, bool) {
	reg, _, restore, err := engine.BuildRegistry(c)
	defer restore()
	if err != nil {
		return nil, nil, false
	}
	switch c.Kind {
	case gen.Cert:
		o, ok := gen.ParseCert(c.DER)
		if !ok {
			return nil, nil, false
		}
		return zlint.LintCertificateEx(o, reg), o, true
	case gen.CRL:
		o, ok := gen.ParseCRL(c.DER)
		if !ok {
			return nil, nil, false
		}
		return zlint.LintRevocationListEx(o, reg), o, true
	default:
		o, ok := gen.ParseOCSP(c.DER)
		if !ok {
			return nil, nil, false
		}
		return zlint.LintOcspResponseEx(o, reg), o, true
	}
}

func parseOnly(k gen.Kind, der []byte) interface{} {
	switch k {
	case gen.Cert:
		o, _ := gen.ParseCert(der)
		return o
	case gen.CRL:
		o, _ := gen.ParseCRL(der)
		return o
	default:
		o, _ := gen.ParseOCSP(der)
		return o
	}
}

// diffExported walks two values and returns the path of the first difference
// among exported fields ("" if none).
func diffExported(a, b reflect.Value, path string, depth int) string {
	if depth > 12 {
		return ""
	}
	if a.IsValid() != b.IsValid() {
		return path + " (validity)"
	}
	if !a.IsValid() {
		return ""
	}
	if a.Type() != b.Type() {
		return path + " (type)"
	}
	// big.Int by value
	if a.Type() == reflect.TypeOf(big.Int{}) {
		x, y := a.Interface().(big.Int), b.Interface().(big.Int)
		if x.Cmp(&y) != 0 {
			return path
		}
		return ""
	}
	switch a.Kind() {
	case reflect.Ptr, reflect.Interface:
		if a.IsNil() != b.IsNil() {
			return path + " (nil-ness)"
		}
		if a.IsNil() {
			return ""
		}
		return diffExported(a.Elem(), b.Elem(), path, depth+1)
	case reflect.Struct:
		for i := 0; i < a.NumField(); i++ {
			f := a.Type().Field(i)
			if f.PkgPath != "" {
				continue // unexported
			}
			if d := diffExported(a.Field(i), b.Field(i), path+"."+f.Name, depth+1); d != "" {
				return d
			}
		}
		return ""
	case reflect.Slice:
		if a.IsNil() != b.IsNil() || a.Len() != b.Len() {
			return fmt.Sprintf("%s (len %d vs %d)", path, a.Len(), b.Len())
		}
		// fast paths: byte, int and string slices are compared without per-element reflection
		switch a.Type().Elem().Kind() {
		case reflect.Uint8:
			if a.Type().Elem() == reflect.TypeOf(byte(0)) && a.CanInterface() {
				x, y := a.Bytes(), b.Bytes()
				if bytes.Equal(x, y) {
					return ""
				}
				for i := range x {
					if x[i] != y[i] {
						return fmt.Sprintf("%s[%d]", path, i)
					}
				}
			}
		case reflect.Int:
			if x, ok := a.Interface().([]int); ok {
				y := b.Interface().([]int)
				for i := range x {
					if x[i] != y[i] {
						return fmt.Sprintf("%s[%d]", path, i)
					}
				}
				return ""
			}
		case reflect.String:
			if x, ok := a.Interface().([]string); ok {
				y := b.Interface().([]string)
				for i := range x {
					if x[i] != y[i] {
						return fmt.Sprintf("%s[%d]", path, i)
					}
				}
				return ""
			}
		}
		for i := 0; i < a.Len(); i++ {
			if d := diffExported(a.Index(i), b.Index(i), fmt.Sprintf("%s[%d]", path, i), depth+1); d != "" {
				return d
			}
		}
		return ""
	case reflect.Array:
		for i := 0; i < a.Len(); i++ {
			if d := diffExported(a.Index(i), b.Index(i), fmt.Sprintf("%s[%d]", path, i), depth+1); d != "" {
				return d
			}
		}
		return ""
	case reflect.Map:
		if a.Len() != b.Len() {
			return path + " (map size)"
		}
		for _, k := range a.MapKeys() {
			bv := b.MapIndex(k)
			if !bv.IsValid() {
				return fmt.Sprintf("%s[%v] (missing)", path, k)
			}
			if d := diffExported(a.MapIndex(k), bv, fmt.Sprintf("%s[%v]", path, k), depth+1); d != "" {
				return d
			}
		}
		return ""
	case reflect.Func, reflect.Chan, reflect.UnsafePointer:
		return ""
	default:
		if a.CanInterface() && b.CanInterface() {
			if !reflect.DeepEqual(a.Interface(), b.Interface()) {
				return path
			}
		}
		return ""
	}
}

// judgeC05Repeat: R repetitions on fresh parses give identical results; the
// linted object keeps every exported field.
func judgeC05Repeat(rec *stats.Rec, c c05Case) (string, string) {
	first, obj, ok := lintCase(c.Case)
	if !ok || first == nil {
		rec.Class("parse_rejected")
		return "", ""
	}
	twin := parseOnly(c.Kind, c.DER)
	if d := diffExported(reflect.ValueOf(obj), reflect.ValueOf(twin), string(c.Kind), 0); d != "" {
		return "mutated|" + regexp.MustCompile(`\[\d+\]`).ReplaceAllString(d, "[]"), "linting changed exported field " + d + " of the linted object"
	}
	v0 := engine.Verdicts(first)
	nd := 0
	for _, x := range v0 {
		if x.Status > lint.Pass && x.Details != "" {
			nd++
		}
	}
	if nd > 0 {
		rec.NT(caseHash(c.Case))
	}
	for r := 1; r < c.Reps; r++ {
		rs, _, ok := lintCase(c.Case)
		if !ok {
			return "", ""
		}
		v := engine.Verdicts(rs)
		names := make([]string, 0, len(v0))
		for n := range v0 {
			names = append(names, n)
		}
		sort.Strings(names)
		for _, n := range names {
			if v[n].Status != v0[n].Status {
				return "repeat-status|" + n, fmt.Sprintf("repetition %d: %s, first run: %s", r, v[n], v0[n])
			}
			if v[n].Details != v0[n].Details {
				return "repeat-details|" + n, fmt.Sprintf("repetition %d details %q, first run %q", r, short(v[n].Details, 150), short(v0[n].Details, 150))
			}
		}
		if len(v) != len(v0) {
			return "repeat-keys", "result key set differs between repetitions"
		}
	}
	return "", ""
}

// paddedCert: the certificate with its list-valued parts lengthened (gen.PadLists); self-signed bases are signed again.
func paddedCert(der []byte, variant int) ([]byte, bool) {
	v, err := gen.ViewCert(der)
	if err != nil {
		return nil, false
	}
	self := false
	if pc, ok := gen.ParseCert(der); ok {
		self = pc.SelfSigned
	} else {
		return nil, false
	}
	if !v.PadLists(variant) {
		return nil, false
	}
	if self {
		v.SelfSign()
	}
	out := v.DER()
	if _, ok := gen.ParseCert(out); !ok {
		return nil, false
	}
	return out, true
}

// ---- oneshot / strace ---------------------------------------------------------

func oneshotPath(t *testing.T) string {
	p := os.Getenv("VERIF_ONESHOT")
	if p == "" {
		p = "/verif/.build/oneshot"
	}
	if _, err := os.Stat(p); err != nil {
		t.Skipf("oneshot binary %s not built (run through ./check)", p)
	}
	return p
}

func runOneshot(bin, bundle string, env []string, dir string, extra ...string) (map[string]string, map[string]bool, string, error) {
	args := append([]string{"-bundle", bundle}, extra...)
	cmd := exec.Command(bin, args...)
	cmd.Env = env
	cmd.Dir = dir
	var se strings.Builder
	cmd.Stderr = &se
	out, err := cmd.Output()
	if err != nil {
		return nil, nil, se.String(), err
	}
	dig, unstable := map[string]string{}, map[string]bool{}
	for _, ln := range strings.Split(string(out), "\n") {
		f := strings.Fields(ln)
		if len(f) == 3 {
			dig[f[0]] = f[1]
			unstable[f[0]] = f[2] == "true"
		}
	}
	return dig, unstable, se.String(), nil
}

var forbiddenSyscall = regexp.MustCompile(`^(open|openat|openat2|creat|stat|lstat|fstatat|newfstatat|statx|access|faccessat|faccessat2|readlink|readlinkat|unlink|unlinkat|mkdir|mkdirat|rmdir|rename|renameat|renameat2|chdir|fchdir|getcwd|chmod|fchmod|chown|truncate|ftruncate|getdents|getdents64|socket|connect|bind|listen|accept|accept4|sendto|recvfrom|sendmsg|recvmsg|sendmmsg|recvmmsg|getsockopt|setsockopt|getsockname|getpeername|execve|execveat|fork|vfork|pipe|pipe2|read|pread64|readv|write|pwrite64|writev|sendfile|ioctl|inotify_init|inotify_init1|kill|ptrace|mount|umount2|symlink|symlinkat|link|linkat|mknod|utimensat|uname|sysinfo|getrandom)$`)

type syscallHit struct {
	Line string `json:"line"`
	Name string `json:"name"`
}

// analyseStrace returns the forbidden system calls started inside the marked window.
func analyseStrace(path string) (hits []syscallHit, window int, found bool, err error) {
	f, err := os.Open(path)
	if err != nil {
		return nil, 0, false, err
	}
	defer f.Close()
	sc := bufio.NewScanner(f)
	sc.Buffer(make([]byte, 1<<22), 1<<22)
	in := false
	// descriptors the Go runtime creates for its own scheduler wake-ups
	// (eventfd2 / pipe2 of the netpoller): reads and writes on them are not I/O
	// of the linted code
	runtimeFD := map[string]bool{}
	evRe := regexp.MustCompile(`eventfd.*=\s+(\d+)\s*$`)
	pipeRe := regexp.MustCompile(`pipe2?.*\[(\d+), (\d+)\]`)
	fdRe := regexp.MustCompile(`^\s*(\d+)[,)]`)
	lineRe := regexp.MustCompile(`^(?:\[pid\s+\d+\]\s+|\d+\s+)?([a-z_0-9]+)\((.*)$`)
	for sc.Scan() {
		ln := sc.Text()
		if m := evRe.FindStringSubmatch(ln); m != nil && !in {
			runtimeFD[m[1]] = true
		}
		if m := pipeRe.FindStringSubmatch(ln); m != nil && !in {
			runtimeFD[m[1]], runtimeFD[m[2]] = true, true
		}
		if strings.Contains(ln, "VERIF-MARK-BEGIN") {
			in, found = true, true
			continue
		}
		if strings.Contains(ln, "VERIF-MARK-END") {
			in = false
			continue
		}
		if !in {
			continue
		}
		m := lineRe.FindStringSubmatch(ln)
		if m == nil {
			continue // "<... resumed>", signals, exits
		}
		window++
		name, args := m[1], m[2]
		if name == "clone" || name == "clone3" {
			if !strings.Contains(args, "CLONE_THREAD") {
				hits = append(hits, syscallHit{ln, name})
			}
			continue
		}
		if name == "read" || name == "write" {
			if m := fdRe.FindStringSubmatch(args); m != nil && runtimeFD[m[1]] {
				continue
			}
		}
		if forbiddenSyscall.MatchString(name) {
			hits = append(hits, syscallHit{ln, name})
		}
	}
	return hits, window, found, nil
}

func buildBundle(t *testing.T, dir string, items []engine.BundleItem) string {
	p := filepath.Join(dir, "bundle.jsonl")
	if err := engine.WriteBundle(p, items); err != nil {
		t.Fatalf("bundle: %v", err)
	}
	return p
}

func TestC05(t *testing.T) {
	rec := newRec(t, "C05")
	co := gen.LoadCorpus()
	shard, nshards := stats.Shard()
	R := stats.Scale(12, 40)

	// (1)+(3) repetition and read-only on the corpus (enumerated) ...
	idx := 0
	for _, objs := range [][]gen.Obj{co.Certs, co.CRLs, co.OCSPs, gen.ReasonCodeCRLs(), gen.LargeCRLs()} {
		for _, o := range objs {
			idx++
			if !stats.Mine(idx) {
				continue
			}
			c := c05Case{Case: engine.Case{Kind: o.Kind, DER: o.DER, Base: o.Name}, Reps: stats.Scale(4, 12)}
			rec.Eval()
			rec.Class("corpus")
			if sig, msg := judgeC05Repeat(rec, c); msg != "" {
				if rec.Report("c05", sig, msg, c) {
					t.Errorf("c05 corpus %s: %s: %s", o.Name, sig, msg)
				}
			}
		}
	}
	// ... and on the corpus with its lists lengthened (enumerated): a parser builds the slices for SAN entries, policies,
	// key purposes and subject attributes by repeated append, so 3, 5, 6, 7 ... entries leave spare capacity - and an
	// append to, or an in-place edit of, "a copy" of such a slice writes into the certificate itself
	for ci, o := range co.Certs {
		if !stats.Mine(ci) {
			continue
		}
		for variant := 0; variant < 2; variant++ {
			der, ok := paddedCert(o.DER, variant)
			if !ok {
				continue
			}
			c := c05Case{Case: engine.Case{Kind: gen.Cert, DER: der, Base: o.Name, Ops: []string{fmt.Sprintf("pad-lists(%d)", variant)}}, Reps: 2}
			rec.Eval()
			rec.Class("corpus_padded")
			if sig, msg := judgeC05Repeat(rec, c); msg != "" {
				if rec.Report("c05", sig, msg, c) {
					t.Errorf("c05 corpus %s with padded lists: %s: %s", o.Name, sig, msg)
				}
			}
		}
	}
	// ... and on generated objects
	rapidRun(t, "repeat", perShard(stats.Scale(1500, 30000)), func(rt *rapid.T) {
		ec := drawObject(rt, 3, true)
		if rapid.IntRange(0, 3).Draw(rt, "withreg") == 0 {
			drawRegistry(rt, &ec)
		}
		c := c05Case{Case: ec, Reps: R}
		rec.Eval()
		rec.Class("generated")
		if sig, msg := judgeC05Repeat(rec, c); msg != "" {
			fail(rt, rec, "c05", sig, msg, c)
		}
		if rec.WantSample() && len(ec.Ops) > 0 && rapid.IntRange(0, 30).Draw(rt, "smp") == 0 {
			rec.Sample(sampleCase(ec, map[string]interface{}{"reps": R}))
		}
	})
	// ... and over the home sweep (every lint's own single-edit neighbourhood; repetitions on one mutant in twelve per seed in
	// quick, all in thorough): three runs on fresh parses agree in status and details, and the linted
	// object equals an unlinted twin in every exported field
	{
		repShare := uint64(stats.Scale(12, 1))
		homeSweep(rec, 2, false, "c05", func(ec engine.Case, run *engine.Run) (string, string) {
			if !run.Parsed || run.RS == nil || run.Panic != "" {
				return "", ""
			}
			var obj interface{}
			switch ec.Kind {
			case gen.Cert:
				obj = run.Cert
			case gen.CRL:
				obj = run.CRL
			default:
				obj = run.OCSP
			}
			if d := diffExported(reflect.ValueOf(obj), reflect.ValueOf(parseOnly(ec.Kind, ec.DER)), string(ec.Kind), 0); d != "" {
				return "mutated|" + regexp.MustCompile(`\[\d+\]`).ReplaceAllString(d, "[]"), "linting changed exported field " + d + " of the linted object"
			}
			v0 := engine.Verdicts(run.RS)
			// the read-only oracle sees every mutant; the repetitions one mutant in twelve (all in thorough)
			for r := 1; r < 3 && (stats.Hash(ec.DER)+verifSeed())%repShare == 0; r++ {
				r2 := engine.ExecuteReg(ec, run.Reg, run.Cfg, false)
				if r2.RS == nil {
					return "", ""
				}
				v := engine.Verdicts(r2.RS)
				names := make([]string, 0, len(v0))
				for n := range v0 {
					names = append(names, n)
				}
				sort.Strings(names)
				for _, n := range names {
					if v[n] != v0[n] {
						return "repeat-details|" + n, fmt.Sprintf("repetition %d: %s, first run: %s", r, v[n], v0[n])
					}
				}
			}
			for _, x := range v0 {
				if x.Status > lint.Pass && x.Details != "" {
					rec.NT(caseHash(ec))
					break
				}
			}
			return "", ""
		}, func(s string) { t.Fatalf("%s", s) })
	}
	// enumerated: every pair and triple of the key purposes zlint knows x every key usage of one to three named bits
	// (of the first five), on a subscriber certificate, linted sixteen times with the lints that read both
	// extensions - rule tables held in maps must not let iteration order reach the verdict
	{
		kuLints := []string{"e_key_usage_and_extended_key_usage_inconsistent"}
		for _, l := range registryLints(lint.GlobalRegistry()) {
			if l.Kind == "cert" && (strings.Contains(l.Name, "key_usage") || strings.Contains(l.Name, "_eku_")) && l.Name != kuLints[0] {
				kuLints = append(kuLints, l.Name)
			}
		}
		hs := homeObjects()[kuLints[0]]
		if reg, err := lint.GlobalRegistry().Filter(lint.FilterOptions{IncludeNames: kuLints}); err == nil && len(hs) > 0 {
			o := co.Certs[hs[0]]
			purposes := [][]int{gen.EKUServerAuth, gen.EKUClientAuth, gen.EKUCodeSign, gen.EKUEmail, gen.EKUTimeStamp, gen.EKUOCSP}
			var sets [][][]int
			for a := 0; a < len(purposes); a++ {
				for b := a + 1; b < len(purposes); b++ {
					sets = append(sets, [][]int{purposes[a], purposes[b]}, [][]int{purposes[b], purposes[a]})
					for c := b + 1; c < len(purposes); c++ {
						sets = append(sets, [][]int{purposes[a], purposes[b], purposes[c]})
					}
				}
			}
			k := 0
			for _, set := range sets {
				for m := 1; m < 32; m++ {
					nb := 0
					for x := m; x > 0; x >>= 1 {
						nb += x & 1
					}
					if nb > 3 {
						continue
					}
					k++
					if !stats.Mine(k) {
						continue
					}
					v, err := gen.ViewCert(o.DER)
					if err != nil {
						continue
					}
					v.SetEKU(set...)
					mask := uint16(m) << 11 // bits 0..4: digitalSignature, contentCommitment, keyEncipherment, dataEncipherment, keyAgreement
					v.SetExt([]int{2, 5, 29, 15}, true, gen.KeyUsageBits(mask))
					ec := engine.Case{Kind: gen.Cert, DER: v.DER(), Base: o.Name, Filters: []engine.FilterSpec{{IncludeNames: kuLints}}, Ops: []string{fmt.Sprintf("ekus=%v keyUsage=%05b", set, m)}}
					var first map[string]model.Verdict
					for r := 0; r < 16; r++ {
						pc, ok := gen.ParseCert(ec.DER)
						if !ok {
							break
						}
						vd := engine.Verdicts(zlint.LintCertificateEx(pc, reg))
						if r == 0 {
							first = vd
							continue
						}
						for n, x := range first {
							if vd[n].Status != x.Status {
								c := c05Case{Case: ec, Reps: 40}
								if rec.Report("c05", "repeat-status|"+n, fmt.Sprintf("repetition %d: %s, first run: %s (%v)", r, vd[n], x, ec.Ops), c) {
									t.Fatalf("c05 EKU x KU %v: %s gives %s then %s", ec.Ops, n, x, vd[n])
								}
							}
						}
					}
					rec.Eval()
					rec.Class("eku_ku_enumerated")
				}
			}
		}
	}
	// directed: map-iteration-prone shapes (several duplicated extensions; several EV .onion names without descriptor)
	rapidRun(t, "directed", perShard(stats.Scale(300, 6000)), func(rt *rapid.T) {
		o := co.Certs[rapid.IntRange(0, len(co.Certs)-1).Draw(rt, "base")]
		v, err := gen.ViewCert(o.DER)
		if err != nil || v.Extensions() == nil {
			return
		}
		pc, _ := gen.ParseCert(o.DER)
		what := rapid.IntRange(0, 1).Draw(rt, "what")
		if what == 0 {
			ex := v.Extensions()
			k := rapid.IntRange(2, 4).Draw(rt, "ndup")
			for i := 0; i < k && i < len(ex.Children); i++ {
				ex.Children = append(ex.Children, ex.Children[rapid.IntRange(0, len(ex.Children)-1).Draw(rt, "dup")].Clone())
			}
		} else {
			var gns []*dt.Node
			var names []string
			for i, k := 0, rapid.IntRange(3, 6).Draw(rt, "nonion"); i < k; i++ {
				n := fmt.Sprintf("www.%s%c.onion", strings.Repeat("a", 15), 'b'+i)
				names = append(names, n)
				gns = append(gns, gen.GNDNS([]byte(n)))
			}
			v.SetSAN(false, gns...)
			v.RemoveCN()
			v.SetPolicies([]int{2, 23, 140, 1, 1})
			v.SetEKU(gen.EKUServerAuth)
			// TorServiceDescriptor extension with a well-formed descriptor for the first name only:
			// every other EV .onion name lacks one
			hash := append([]byte{0}, make([]byte, 32)...)
			desc := dt.Seq(dt.Prim(0, 12, []byte("https://"+strings.TrimPrefix(names[0], "www."))), gen.AlgID([]int{2, 16, 840, 1, 101, 3, 4, 2, 1}, false), dt.Prim(0, 3, hash))
			v.SetExt([]int{2, 23, 140, 1, 31}, false, dt.Seq(desc))
		}
		if pc != nil && pc.SelfSigned {
			v.SelfSign()
		}
		c := c05Case{Case: engine.Case{Kind: gen.Cert, DER: v.DER(), Base: o.Name, Ops: []string{[]string{"duplicate-extensions", "ev-onion-names"}[what]}}, Reps: 24}
		rec.Eval()
		rec.Class("directed")
		if sig, msg := judgeC05Repeat(rec, c); msg != "" {
			fail(rt, rec, "c05", sig, msg, c)
		}
	})

	// (2c) the corpus in another order: every shard lints the whole corpus (full registry, fresh parses) in an order of
	// its own, derived from the seed; each object's verdicts must be those of the first pass (file-name order) - state
	// that travels from one object to the next through *any* lint or helper shows when the neighbours change
	{
		type ref struct {
			dig string
			v   map[string]model.Verdict
		}
		var all []gen.Obj
		all = append(append(append(all, co.Certs...), co.CRLs...), co.OCSPs...)
		first := make([]ref, len(all))
		for i, o := range all {
			if rs, _, ok := lintCase(engine.Case{Kind: o.Kind, DER: o.DER}); ok && rs != nil {
				first[i] = ref{engine.Digest(rs), engine.Verdicts(rs)}
			}
		}
		perm := make([]int, len(all))
		for i := range perm {
			perm[i] = i
		}
		x := uint64(shard)*0x9e3779b97f4a7c15 + verifSeed()*0xbf58476d1ce4e5b9 + 1
		for i := len(perm) - 1; i > 0; i-- {
			x = x*6364136223846793005 + 1442695040888963407
			j := int((x >> 33) % uint64(i+1))
			perm[i], perm[j] = perm[j], perm[i]
		}
		prev := ""
		for _, i := range perm {
			o := all[i]
			if first[i].v == nil {
				continue
			}
			rs, _, ok := lintCase(engine.Case{Kind: o.Kind, DER: o.DER})
			rec.Eval()
			rec.Class("corpus_permuted")
			if ok && rs != nil && engine.Digest(rs) != first[i].dig {
				v := engine.Verdicts(rs)
				for n, a := range first[i].v {
					if b := v[n]; (b.Status != a.Status || b.Details != a.Details) && !timeNowLints[n] {
						c := c05Case{Case: engine.Case{Kind: o.Kind, DER: o.DER, Base: o.Name, Note: "linted after " + prev}, Reps: 2}
						if rec.Report("c05", "order-of-objects|"+n, fmt.Sprintf("%s says %s about %s when it is linted after %s, and %s in file-name order", n, b, o.Name, prev, a), c) {
							t.Fatalf("c05 corpus in permuted order: %s on %s after %s", n, o.Name, prev)
						}
					}
				}
			}
			prev = o.Name
		}
	}
	// (2'') the predecessor sweep: every lint x its reporting objects as predecessor x every object of the kind
	predecessorSweep(rec, func(s string) { t.Fatalf("%s", s) })
	datedPredecessors(rec, func(s string) { t.Fatalf("%s", s) })
	// (2') the soak history: an object met again after many distinct others gets its first verdict
	soakHistory(rec, stats.Scale(1600, 12000), soakVisitC05, func(s string) { t.Fatalf("%s", s) })
	// (2) history independence: stateful, model = memo of the first verdict per (DER, selection, config)
	rapidRun(t, "histories", perShard(stats.Scale(300, 5000)), func(rt *rapid.T) {
		var hc c05HistoryCase
		if rapid.Bool().Draw(rt, "twins") {
			// near-twins of one object: whatever identifies "the same object" to a hidden cache
			// (serial, dates, names, key, signature ...) is shared by several different objects
			hc.Pool = drawTwins(rt)
		}
		for i, n := 0, rapid.IntRange(2, 5).Draw(rt, "nobj"); i < n && len(hc.Pool) < 6; i++ {
			hc.Pool = append(hc.Pool, drawObject(rt, 2, true))
		}
		// objects whose verdict depends on the configuration make leaks between runs visible
		sens := sensitiveObjects()
		hc.CfgDocs = []string{""}
		for _, ci := range engine.Configurables() {
			if ss := sens[ci.Name]; len(ss) > 0 {
				o := ss[rapid.IntRange(0, len(ss)-1).Draw(rt, "sens")]
				hc.Pool = append(hc.Pool, engine.Case{Kind: o.Kind, DER: o.DER, Base: o.Name})
				hc.CfgDocs = append(hc.CfgDocs, altDocs[ci.Name])
			}
		}
		h := newC05History(hc.Pool, hc.CfgDocs)
		defer h.close()
		rt.Repeat(map[string]func(*rapid.T){
			"lint": func(rt *rapid.T) {
				op := c05Op{Op: "lint", Obj: rapid.IntRange(0, len(hc.Pool)-1).Draw(rt, "obj"), Reg: rapid.IntRange(0, len(h.regs)-1).Draw(rt, "reg"), Reuse: rapid.Bool().Draw(rt, "reuse-parsed")}
				if sig, msg := h.step(op); msg != "" {
					hc.Ops = h.ops
					fail(rt, rec, "c05-history", sig, msg, hc)
				}
			},
			"filter": func(rt *rapid.T) {
				if len(h.regs) >= 4 {
					rt.Skip("enough")
				}
				f := engine.DrawValidFilter(rt, globalNames())
				h.step(c05Op{Op: "filter", Filter: &f})
			},
			"setConfiguration": func(rt *rapid.T) {
				// another configuration (or an equal one again) is part of the history; the memo is
				// keyed by the configuration a registry holds, so coming back to an earlier
				// configuration must give the earlier verdicts
				h.step(c05Op{Op: "set", Reg: rapid.IntRange(0, len(h.regs)-1).Draw(rt, "reg"), Cfg: rapid.IntRange(0, len(hc.CfgDocs)-1).Draw(rt, "cfg")})
			},
		})
		rec.Eval()
		rec.Class("history")
		if len(h.ops) >= 3 && len(h.touched) >= 2 {
			rec.NT(stats.HashS(h.text()...))
		}
		if rec.WantSample() && len(h.ops) > 5 && len(h.touched) >= 2 {
			rec.Sample(map[string]interface{}{"history": h.text()})
		}
	})

	// (4) fresh-process comparison, environment perturbation, system-call window: only on shard 0 .. 3 (process spawns)
	if shard >= 4 {
		return
	}
	oneshot := oneshotPath(t)
	dir, err := os.MkdirTemp("", "verif-c05-")
	if err != nil {
		t.Fatalf("tempdir: %v", err)
	}
	defer os.RemoveAll(dir)
	var items []engine.BundleItem
	want := map[string]string{}
	add := func(c engine.Case) {
		rs, _, ok := lintCase(c)
		if !ok || rs == nil {
			return
		}
		id := fmt.Sprintf("o%d", len(items))
		items = append(items, engine.BundleItem{Case: c, ID: id})
		want[id] = engine.Digest(rs)
	}
	all := append(append(append([]gen.Obj{}, co.Certs...), co.CRLs...), co.OCSPs...)
	for i, o := range all {
		if i%4 == shard%4 || nshards < 4 {
			add(engine.Case{Kind: o.Kind, DER: o.DER, Base: o.Name})
		}
	}
	nGen := stats.Scale(500, 12000)
	rapidRun(t, "bundle", nGen, func(rt *rapid.T) {
		c := drawObject(rt, 3, true)
		if rapid.IntRange(0, 4).Draw(rt, "flt") == 0 {
			c.Filters = []engine.FilterSpec{engine.DrawValidFilter(rt, globalNames())}
		}
		add(c)
	})
	bundle := buildBundle(t, dir, items)
	rec.ClassN("bundle_objects", int64(len(items)))
	baseEnv := []string{"PATH=/usr/bin:/bin", "HOME=/root"}
	compare := func(label string, env []string, cwd string, extra ...string) {
		dig, unstable, stderr, err := runOneshot(oneshot, bundle, env, cwd, extra...)
		if err != nil {
			rec.Class("oneshot_failed")
			t.Logf("oneshot (%s) failed: %v %s", label, err, short(stderr, 300))
			return
		}
		rec.EvalN(int64(len(dig)))
		rec.Class("fresh_process_runs")
		for id, w := range want {
			if d, ok := dig[id]; !ok || d != w {
				c := map[string]interface{}{"label": label, "env": env, "cwd": cwd, "id": id}
				for _, it := range items {
					if it.ID == id {
						c["case"] = it.Case
					}
				}
				if rec.Report("c05-env", "fresh-process|"+label, fmt.Sprintf("object %s: digest in a fresh process (%s) %s differs from in-process digest %s", id, label, d, w), c) {
					t.Errorf("c05 fresh process (%s): object %s differs", label, id)
				}
				return
			}
			if unstable[id] {
				if rec.Report("c05-env", "unstable-in-fresh-process", "repetitions differ inside the fresh process for "+id, map[string]interface{}{"label": label, "id": id}) {
					t.Errorf("c05: unstable in fresh process: %s", id)
				}
				return
			}
		}
	}
	compare("plain", baseEnv, dir, "-reps", "2")
	// environment variables named by string literals in zlint's own sources: os.Getenv is
	// not a system call, so every upper-case identifier-like literal in the lint, util and
	// framework packages is set (two different values) and the verdicts must not move
	if names := harvestEnvNames(); len(names) > 0 {
		rec.ClassN("harvested_env_names", int64(len(names)))
		for _, val := range []string{"1", "/nonexistent/verif"} {
			env := append([]string{}, baseEnv...)
			for _, n := range names {
				env = append(env, n+"="+val)
			}
			compare("harvested-names="+val, env, dir)
		}
	}
	// enumerated: the zones furthest from UTC on both sides (any instant's calendar date differs from its UTC date in
	// one of them) and two with odd offsets / DST - a verdict or a details text that consults local time moves
	for _, z := range []string{"Pacific/Kiritimati", "Etc/GMT+12", "Asia/Kathmandu", "America/New_York"} {
		compare("TZ="+z, append(append([]string{}, baseEnv...), "TZ="+z), dir)
	}
	zonesEnv := []string{"UTC", "Asia/Kolkata", "America/New_York", "Pacific/Kiritimati", "Antarctica/Troll", ":/nonexistent", ""}
	rapidRun(t, "environments", stats.Scale(6, 40), func(rt *rapid.T) {
		env := []string{"PATH=/usr/bin:/bin"}
		if rapid.Bool().Draw(rt, "tz") {
			env = append(env, "TZ="+rapid.SampledFrom(zonesEnv).Draw(rt, "zone"))
		}
		if rapid.Bool().Draw(rt, "lang") {
			l := rapid.SampledFrom([]string{"C", "tr_TR.UTF-8", "de_DE.ISO-8859-1", "ja_JP.UTF-8", "POSIX"}).Draw(rt, "locale")
			env = append(env, "LANG="+l, "LC_ALL="+l)
		}
		if rapid.Bool().Draw(rt, "home") {
			env = append(env, "HOME="+rapid.SampledFrom([]string{"/", "/nonexistent", dir}).Draw(rt, "homedir"))
		}
		if rapid.Bool().Draw(rt, "tmp") {
			env = append(env, "TMPDIR="+rapid.SampledFrom([]string{"/nonexistent", dir}).Draw(rt, "tmpdir"))
		}
		for _, k := range []string{"ZLINT_CONFIG", "SSL_CERT_FILE", "SSL_CERT_DIR", "GODEBUG", "http_proxy", "RES_OPTIONS", "LOCALDOMAIN", "ZLINT", "DEBUG"} {
			if rapid.IntRange(0, 3).Draw(rt, "var"+k) == 0 {
				val := rapid.SampledFrom([]string{"1", "/nonexistent", "x509negativeserial=1", "http://127.0.0.1:1/"}).Draw(rt, "val"+k)
				if k == "GODEBUG" {
					val = "x509negativeserial=1"
				}
				env = append(env, k+"="+val)
			}
		}
		cwd := rapid.SampledFrom([]string{dir, "/", "/usr"}).Draw(rt, "cwd")
		if rapid.IntRange(0, 5).Draw(rt, "emptyenv") == 0 {
			env = []string{}
		}
		compare(fmt.Sprintf("env=%v cwd=%s", env, cwd), env, cwd)
		rec.NT(stats.HashS(append(env, cwd)...))
	})
	// system-call window
	if _, err := exec.LookPath("strace"); err != nil {
		rec.Class("strace_unavailable")
		return
	}
	logp := filepath.Join(dir, "strace.log")
	cmd := exec.Command("strace", "-f", "-qq", "-o", logp, oneshot, "-bundle", bundle, "-mark")
	cmd.Env = baseEnv
	cmd.Dir = dir
	if out, err := cmd.CombinedOutput(); err != nil {
		rec.Class("strace_failed")
		t.Logf("strace run failed (not a verdict): %v %s", err, short(string(out), 300))
		return
	}
	hits, window, found, err := analyseStrace(logp)
	if err != nil || !found {
		rec.Class("strace_no_window")
		t.Logf("strace log unusable (not a verdict): %v", err)
		return
	}
	rec.EvalN(int64(len(items)))
	rec.ClassN("strace_window_syscalls", int64(window))
	rec.Class("strace_sessions")
	rec.Note("strace_window", fmt.Sprintf("%d objects linted inside the marked window, %d system calls seen there, %d forbidden", len(items), window, len(hits)))
	if len(hits) > 0 {
		names := map[string]bool{}
		for _, h := range hits {
			names[h.Name] = true
		}
		var ns []string
		for n := range names {
			ns = append(ns, n)
		}
		sort.Strings(ns)
		if rec.Report("c05-io", "syscall|"+strings.Join(ns, ","), fmt.Sprintf("linting performed I/O system calls: %v; first: %s", ns, short(hits[0].Line, 200)), map[string]interface{}{"hits": hits[:min(len(hits), 10)]}) {
			t.Errorf("c05: I/O during linting: %v", ns)
		}
	}
}

var envNameRe = regexp.MustCompile(`^[A-Z][A-Z0-9_]{2,40}$`)

// harvestEnvNames collects string literals that look like environment
// variable names from the non-test sources of zlint's library packages.
func harvestEnvNames() []string {
	seen := map[string]bool{}
	root := gen.RepoV3()
	_ = filepath.Walk(root, func(p string, info os.FileInfo, err error) error {
		if err != nil {
			return nil
		}
		if info.IsDir() {
			b := filepath.Base(p)
			if b == "testdata" || b == "cmd" || b == "integration" || b == "test" {
				return filepath.SkipDir
			}
			return nil
		}
		if !strings.HasSuffix(p, ".go") || strings.HasSuffix(p, "_test.go") || strings.HasSuffix(p, "gtld_map.go") {
			return nil
		}
		b, err := os.ReadFile(p)
		if err != nil {
			return nil
		}
		for _, m := range regexp.MustCompile("\"([A-Za-z0-9_]{3,41})\"").FindAllSubmatch(b, -1) {
			if envNameRe.Match(m[1]) {
				seen[string(m[1])] = true
			}
		}
		return nil
	})
	var out []string
	for n := range seen {
		out = append(out, n)
	}
	sort.Strings(out)
	return out
}

// drawTwins draws a base object and 2-4 objects that differ from it in one respect only: the validity
// re-encoded (same instants, other ASN.1 time type / zone form), one DER-tree edit, other signature bits,
// another subject or another SAN under the same serial, dates and key.
func drawTwins(rt *rapid.T) []engine.Case {
	base := drawObject(rt, 1, true)
	out := []engine.Case{base}
	n := rapid.IntRange(2, 4).Draw(rt, "ntwins")
	for i := 0; i < n; i++ {
		tw := engine.Case{Kind: base.Kind, Base: base.Base}
		how := rapid.IntRange(0, 5).Draw(rt, "twinkind")
		if base.Kind != gen.Cert {
			how = 1
		}
		switch how {
		case 0: // same instants, other encoding
			v, err := gen.ViewCert(base.DER)
			pc, ok := gen.ParseCert(base.DER)
			if err != nil || !ok {
				continue
			}
			f := gen.TimeForm(rapid.IntRange(0, 3).Draw(rt, "form"))
			if pc.NotBefore.Year() < 1951 || pc.NotAfter.Year() > 2048 {
				f = gen.GenZ
			}
			v.SetValidity(pc.NotBefore, pc.NotAfter, f)
			tw.DER, tw.Ops = v.DER(), append(append([]string{}, base.Ops...), "twin:validity-as-"+f.String())
		case 1: // one edit
			root, err := dt.Parse(base.DER)
			if err != nil {
				continue
			}
			op := gen.RandomEdit(rt, root)
			tw.DER, tw.Ops = root.Encode(), append(append([]string{}, base.Ops...), "twin:"+op)
		case 2: // other signature bits
			v, err := gen.ViewCert(base.DER)
			if err != nil {
				continue
			}
			b := append([]byte{}, v.Signature().Body()...)
			for j := 1; j < len(b); j++ {
				b[j] = 0
			}
			v.Root.Children[2] = dt.Prim(0, 3, b)
			tw.DER, tw.Ops = v.DER(), append(append([]string{}, base.Ops...), "twin:zero-signature")
		case 3: // other subject, same serial / dates / key
			v, err := gen.ViewCert(base.DER)
			if err != nil {
				continue
			}
			v.SetCN([]byte(rapid.SampledFrom([]string{"twin.example.com", "other_name.example.com", "*.example.org", "10.0.0.1"}).Draw(rt, "twincn")), 12)
			tw.DER, tw.Ops = v.DER(), append(append([]string{}, base.Ops...), "twin:other-cn")
		case 4: // other SAN
			v, err := gen.ViewCert(base.DER)
			if err != nil {
				continue
			}
			g, d := gen.DrawGN(rt)
			v.SetSAN(false, g)
			tw.DER, tw.Ops = v.DER(), append(append([]string{}, base.Ops...), "twin:san="+d)
		default: // validity shortened to seconds-free / extended forms via the edit table on a time leaf
			root, err := dt.Parse(base.DER)
			if err != nil {
				continue
			}
			var times []*dt.Node
			for _, l := range root.Leaves() {
				if l.Class == 0 && (l.Tag == 23 || l.Tag == 24) {
					times = append(times, l)
				}
			}
			if len(times) == 0 {
				continue
			}
			l := times[rapid.IntRange(0, len(times)-1).Draw(rt, "timeleaf")]
			// drop or add the seconds, keep the instant where possible
			c := string(l.Content)
			switch {
			case l.Tag == 23 && len(c) == 13 && strings.HasSuffix(c, "00Z"):
				l.Content = []byte(c[:10] + "Z")
			case l.Tag == 23 && len(c) == 13:
				l.Tag, l.Content = 24, []byte(centuryOf(c)+c)
			case l.Tag == 24 && len(c) == 15:
				l.Content = []byte(c[:14] + ".0Z")
			}
			tw.DER, tw.Ops = root.Encode(), append(append([]string{}, base.Ops...), "twin:time-respelled")
		}
		if tw.DER != nil {
			out = append(out, tw)
		}
	}
	return out
}

func centuryOf(utc string) string {
	if utc >= "50" {
		return "19"
	}
	return "20"
}

// ---- lint histories (replayable) -------------------------------------------------

type c05Op struct {
	Op     string             `json:"op"` // lint | filter | set
	Obj    int                `json:"obj,omitempty"`
	Reg    int                `json:"reg,omitempty"`
	Reuse  bool               `json:"reuse_parsed,omitempty"`
	Filter *engine.FilterSpec `json:"filter,omitempty"`
	Cfg    int                `json:"cfg,omitempty"`
}

type c05HistoryCase struct {
	Pool    []engine.Case `json:"pool"`
	CfgDocs []string      `json:"cfg_docs"`
	Ops     []c05Op       `json:"ops"`
}

type c05MemoKey struct{ obj, reg, cfg int }

type c05History struct {
	pool    []engine.Case
	docs    []string
	regs    []lint.Registry
	regCfg  []int
	desc    []string
	parsed  map[int]interface{}
	memo    map[c05MemoKey]map[string]model.Verdict
	touched map[int]bool
	ops     []c05Op
	old     lint.Configuration
}

func newC05History(pool []engine.Case, docs []string) *c05History {
	g := lint.GlobalRegistry()
	h := &c05History{pool: pool, docs: docs, old: g.GetConfiguration(), parsed: map[int]interface{}{}, memo: map[c05MemoKey]map[string]model.Verdict{}, touched: map[int]bool{}}
	g.SetConfiguration(lint.NewEmptyConfig())
	h.regs, h.regCfg, h.desc = []lint.Registry{g}, []int{0}, []string{"global"}
	return h
}

func (h *c05History) close() { lint.GlobalRegistry().SetConfiguration(h.old) }

func (h *c05History) text() []string {
	var out []string
	for _, o := range h.ops {
		switch o.Op {
		case "lint":
			out = append(out, fmt.Sprintf("lint(obj%d,reg%d,reuse=%v)", o.Obj, o.Reg, o.Reuse))
		case "filter":
			b, _ := json.Marshal(o.Filter)
			out = append(out, "filter:"+short(string(b), 60))
		default:
			out = append(out, fmt.Sprintf("setConfig(reg%d,cfg%d)", o.Reg, o.Cfg))
		}
	}
	return out
}

func (h *c05History) step(op c05Op) (string, string) {
	switch op.Op {
	case "filter":
		o, err := op.Filter.Options()
		if err != nil {
			return "", ""
		}
		r, err := h.regs[0].Filter(o)
		if err != nil {
			return "", ""
		}
		h.regs = append(h.regs, r)
		h.regCfg = append(h.regCfg, h.regCfg[0]) // Filter copies the source registry's configuration
		h.desc = append(h.desc, "filtered")
	case "set":
		if op.Reg >= len(h.regs) || op.Cfg >= len(h.docs) {
			return "", ""
		}
		cfg, err := lint.NewConfigFromString(h.docs[op.Cfg])
		if err != nil {
			return "", ""
		}
		h.regs[op.Reg].SetConfiguration(cfg)
		h.regCfg[op.Reg] = op.Cfg
	case "lint":
		if op.Reg >= len(h.regs) || op.Obj >= len(h.pool) {
			return "", ""
		}
		c := h.pool[op.Obj]
		var obj interface{}
		if op.Reuse && h.parsed[op.Obj] != nil {
			obj = h.parsed[op.Obj]
		} else {
			obj = parseOnly(c.Kind, c.DER)
			if reflect.ValueOf(obj).IsNil() {
				return "", ""
			}
			h.parsed[op.Obj] = obj
		}
		h.ops = append(h.ops, op)
		v := engine.Verdicts(lintParsed(c.Kind, obj, h.regs[op.Reg]))
		k := c05MemoKey{op.Obj, op.Reg, h.regCfg[op.Reg]}
		h.touched[op.Reg] = true
		if m, ok := h.memo[k]; ok {
			names := make([]string, 0, len(m))
			for n := range m {
				names = append(names, n)
			}
			sort.Strings(names)
			for _, n := range names {
				if v[n] != m[n] {
					return "history|" + n, fmt.Sprintf("after %v: %s now %s, first time (same object, registry and configuration) %s", h.text(), n, v[n], m[n])
				}
			}
		} else {
			h.memo[k] = v
		}
		return "", ""
	}
	h.ops = append(h.ops, op)
	return "", ""
}

func lintParsed(k gen.Kind, obj interface{}, reg lint.Registry) *zlint.ResultSet {
	switch k {
	case gen.Cert:
		return zlint.LintCertificateEx(obj.(*zx509Cert), reg)
	case gen.CRL:
		return zlint.LintRevocationListEx(obj.(*zx509CRL), reg)
	default:
		return zlint.LintOcspResponseEx(obj.(*ocspResp), reg)
	}
}

func init() {
	registerReplayer("c05", func(rec *stats.Rec, raw json.RawMessage) (string, string) {
		var c c05Case
		if err := json.Unmarshal(raw, &c); err != nil {
			return "decode", err.Error()
		}
		if c.Reps < 40 {
			c.Reps = 40
		}
		return judgeC05Repeat(rec, c)
	})
	registerReplayer("c05-history", func(rec *stats.Rec, raw json.RawMessage) (string, string) {
		var c c05HistoryCase
		if err := json.Unmarshal(raw, &c); err != nil {
			return "decode", err.Error()
		}
		h := newC05History(c.Pool, c.CfgDocs)
		defer h.close()
		for _, op := range c.Ops {
			if sig, msg := h.step(op); msg != "" {
				return sig, msg
			}
		}
		return "", ""
	})
	registerReplayer("c05-env", func(rec *stats.Rec, raw json.RawMessage) (string, string) {
		var c struct {
			Label string       `json:"label"`
			Env   []string     `json:"env"`
			Cwd   string       `json:"cwd"`
			Case  *engine.Case `json:"case"`
		}
		if err := json.Unmarshal(raw, &c); err != nil || c.Case == nil {
			return "", ""
		}
		rs, _, ok := lintCase(*c.Case)
		if !ok {
			return "", ""
		}
		want := engine.Digest(rs)
		dir, err := os.MkdirTemp("", "verif-c05r-")
		if err != nil {
			return "", ""
		}
		defer os.RemoveAll(dir)
		bundle := filepath.Join(dir, "bundle.jsonl")
		if engine.WriteBundle(bundle, []engine.BundleItem{{Case: *c.Case, ID: "o0"}}) != nil {
			return "", ""
		}
		bin := "/verif/.build/oneshot"
		if p := getenv("VERIF_ONESHOT"); p != "" {
			bin = p
		}
		cwd := c.Cwd
		if _, err := os.Stat(cwd); err != nil {
			cwd = dir
		}
		dig, _, _, err := runOneshot(bin, bundle, c.Env, cwd)
		if err != nil {
			return "", ""
		}
		if dig["o0"] != want {
			return "fresh-process|" + c.Label, fmt.Sprintf("digest in a fresh process %s differs from in-process digest %s", dig["o0"], want)
		}
		return "", ""
	})
	// c05-io: the system-call window is a property of a whole traced run; replaying means running the check
	registerReplayer("c05-io", func(rec *stats.Rec, raw json.RawMessage) (string, string) { return "", "" })
}
