package props

import (
	"encoding/json"
	"fmt"
	"reflect"
	"sort"
	"testing"

	"github.com/zmap/zlint/v3"
	"github.com/zmap/zlint/v3/lint"
	"pgregory.net/rapid"

	"verifharness/engine"
	"verifharness/gen"
	"verifharness/model"
	"verifharness/stats"
)

// judgeC01 checks the result-set invariants of C01 on one case.
// Returns (signature, message) of the first violation, or "", "".
func judgeC01(rec *stats.Rec, c engine.Case) (string, string, *engine.Run) {
	return judgeC01Run(rec, c, engine.Execute(c, false))
}

func judgeC01Run(rec *stats.Rec, c engine.Case, run *engine.Run) (string, string, *engine.Run) {
	if !run.Parsed {
		rec.Class("parse_rejected")
		return "", "", run
	}
	if run.SetupErr != "" {
		rec.Class("setup_void")
		return "", "", run
	}
	if run.Hang {
		return "hang|" + string(c.Kind), fmt.Sprintf("lint call did not return within %s", engine.HangLimit), run
	}
	if run.Panic != "" {
		return "panic-escapes|" + string(c.Kind) + "|" + model.TopZlintFrame(run.Stack), "panic reached the caller: " + run.Panic, run
	}
	rs := run.RS
	if rs == nil {
		return "nil-resultset", "Lint*Ex returned nil for a non-nil object", run
	}
	want := map[string]bool{}
	for _, n := range run.Names {
		want[n] = true
	}
	for n := range rs.Results {
		if !want[n] {
			return "extra-result|" + n, "result for a lint that is not of the matching kind in the registry used", run
		}
	}
	for _, n := range run.Names {
		r, ok := rs.Results[n]
		if !ok {
			return "missing-result|" + n, "no result for a lint of the matching kind in the registry", run
		}
		if r == nil {
			return "nil-result|" + n, "nil result", run
		}
		if !reflect.DeepEqual(r.LintMetadata, run.Metas[n]) {
			return "metadata|" + n, fmt.Sprintf("result carries metadata of %q", r.LintMetadata.Name), run
		}
		if r.Status < lint.NA || r.Status > lint.Fatal {
			return "status-range|" + n, fmt.Sprintf("status %d is not one of the seven defined statuses", int(r.Status)), run
		}
	}
	var hn, hw, he, hf bool
	for _, r := range rs.Results {
		switch r.Status {
		case lint.Notice:
			hn = true
		case lint.Warn:
			hw = true
		case lint.Error:
			he = true
		case lint.Fatal:
			hf = true
		}
	}
	if rs.NoticesPresent != hn {
		return "flag|notices", fmt.Sprintf("NoticesPresent=%v but a notice result exists=%v", rs.NoticesPresent, hn), run
	}
	if rs.WarningsPresent != hw {
		return "flag|warnings", fmt.Sprintf("WarningsPresent=%v but a warn result exists=%v", rs.WarningsPresent, hw), run
	}
	if rs.ErrorsPresent != he {
		return "flag|errors", fmt.Sprintf("ErrorsPresent=%v but an error result exists=%v", rs.ErrorsPresent, he), run
	}
	if rs.FatalsPresent != hf {
		return "flag|fatals", fmt.Sprintf("FatalsPresent=%v but a fatal result exists=%v", rs.FatalsPresent, hf), run
	}
	if rs.Version != majorVersion() {
		return "version", fmt.Sprintf("Version=%d, module major version is %d", rs.Version, majorVersion()), run
	}
	return "", "", run
}

func kindOfLate(k string) gen.Kind {
	switch k {
	case "cert":
		return gen.Cert
	case "crl":
		return gen.CRL
	}
	return gen.OCSP
}

func TestC01(t *testing.T) {
	rec := newRec(t, "C01")
	// fixed: nil objects give nil, for every kind and registry
	rec.Eval()
	if zlint.LintCertificateEx(nil, nil) != nil || zlint.LintRevocationListEx(nil, lint.GlobalRegistry()) != nil || zlint.LintOcspResponseEx(nil, nil) != nil ||
		zlint.LintCertificate(nil) != nil || zlint.LintRevocationList(nil) != nil || zlint.LintOcspResponse(nil) != nil {
		if rec.Report("c01", "nil-object", "nil object does not give a nil result set", engine.Case{Note: "nil object"}) {
			t.Errorf("nil object does not give nil")
		}
	}
	// corpus under the default registry (enumerated; trivial by the NT rule)
	co := gen.LoadCorpus()
	idx := 0
	for _, objs := range [][]gen.Obj{co.Certs, co.CRLs, co.OCSPs, gen.ReasonCodeCRLs(), gen.LargeCRLs()} {
		for _, o := range objs {
			idx++
			if !stats.Mine(idx) {
				continue
			}
			c := engine.Case{Kind: o.Kind, DER: o.DER, Base: o.Name}
			rec.Eval()
			rec.Class("corpus_default")
			if sig, msg, _ := judgeC01(rec, c); msg != "" {
				if rec.Report("c01", sig, msg, c) {
					t.Errorf("c01 corpus %s: %s: %s", o.Name, sig, msg)
				}
			}
		}
	}
	// home sweep: every lint's own single-edit neighbourhood through the framework path
	homeSweep(rec, stats.Scale(2, 3), false, "c01", func(c engine.Case, run *engine.Run) (string, string) {
		sig, msg, _ := judgeC01Run(rec, c, run)
		if msg == "" && run.Parsed && run.RS != nil {
			for _, r := range run.RS.Results {
				if r.Status > lint.Pass {
					rec.NT(caseHash(c))
					break
				}
			}
		}
		return sig, msg
	}, func(s string) { t.Fatalf("%s", s) })
	// after additions: lints of every kind are registered one at a time while the registry is in use (every kind of
	// use, lint runs included, between two registrations - and registrations the library refuses); after each one a
	// certificate, a revocation list and an OCSP response are linted through the global registry, explicitly and as the
	// default: one result for every lint of the kind, the late ones included
	if sh, _ := stats.Shard(); sh == 0 {
		for i := range lateKinds {
			registerLate(i + 1)
			for _, objs := range [][]gen.Obj{co.Certs, co.CRLs, co.OCSPs, gen.ReasonCodeCRLs(), gen.LargeCRLs()} {
				for k := 0; k < 2 && k < len(objs); k++ {
					o := objs[(k*7+i)%len(objs)]
					c := engine.Case{Kind: o.Kind, DER: o.DER, Base: o.Name, NilReg: k == 1, Late: i + 1, Note: fmt.Sprintf("after %d late registrations", i+1)}
					rec.Eval()
					rec.Class("after_addition")
					rec.NT(stats.HashS("after-addition", lateName(i), string(o.Kind), fmt.Sprint(k)))
					sig, msg, run := judgeC01(rec, c)
					if msg == "" && run.Parsed && run.RS != nil {
						// the model of what has been registered: every late lint of this kind so far has a result
						for j := 0; j <= i; j++ {
							if kindOfLate(lateKinds[j]) == o.Kind {
								if _, ok := run.RS.Results[lateName(j)]; !ok {
									sig, msg = "missing-result|late", fmt.Sprintf("%s was registered through the public API, the registry was used again, and a %s lint run has no result for it", lateName(j), o.Kind)
								}
							}
						}
					}
					if msg != "" {
						if rec.Report("c01", "after-addition|"+sig, msg, c) {
							t.Errorf("c01 after registering %s: %s: %s", lateName(i), sig, msg)
						}
					}
				}
			}
		}
	}
	rapidRun(t, "generated", perShard(stats.Scale(40000, 1500000)), func(rt *rapid.T) {
		c := drawObject(rt, 4, true)
		drawRegistry(rt, &c)
		cfgKind := drawConfig(rt, &c, true)
		rec.Eval()
		sig, msg, run := judgeC01(rec, c)
		if msg != "" {
			fail(rt, rec, "c01", sig, msg, c)
			return
		}
		if !run.Parsed || run.SetupErr != "" {
			return
		}
		rec.Class("kind_" + string(c.Kind))
		rec.Class("cfg_" + cfgKind)
		rec.Class(fmt.Sprintf("filters_%d", len(c.Filters)))
		v := engine.Verdicts(run.RS)
		above := 0
		for _, x := range v {
			if x.Status > lint.Pass {
				above++
			}
		}
		generated := len(c.Ops) > 0 || len(c.Filters) > 0 || c.Config != nil
		if above > 0 && generated {
			rec.NT(caseHash(c))
			if rec.WantSample() {
				f := findings(v)
				sort.Strings(f)
				rec.Sample(sampleCase(c, map[string]interface{}{"results": len(v), "statuses": statusCounts(v), "findings": f}))
			}
		}
	})
}

func init() {
	registerReplayer("c01", func(rec *stats.Rec, raw json.RawMessage) (string, string) {
		var c engine.Case
		if err := json.Unmarshal(raw, &c); err != nil {
			return "decode", err.Error()
		}
		if c.Note == "nil object" {
			if zlint.LintCertificateEx(nil, nil) != nil || zlint.LintRevocationListEx(nil, nil) != nil || zlint.LintOcspResponseEx(nil, nil) != nil {
				return "nil-object", "nil object does not give a nil result set"
			}
			return "", ""
		}
		if c.Late > 0 {
			registerLate(c.Late)
		}
		sig, msg, run := judgeC01(rec, c)
		if msg == "" && run.Parsed && run.RS != nil {
			for j := 0; j < c.Late && j < len(lateKinds); j++ {
				if _, ok := run.RS.Results[lateName(j)]; !ok && kindOfLate(lateKinds[j]) == c.Kind {
					return "missing-result|late", lateName(j) + " was registered through the public API and has no result"
				}
			}
		}
		return sig, msg
	})
}
