package props

import (
	"bytes"
	"encoding/json"
	"fmt"
	"go/ast"
	"go/parser"
	"go/token"
	"os"
	"path/filepath"
	"sort"
	"strconv"
	"strings"
	"testing"
	"time"

	"github.com/zmap/zlint/v3"
	"github.com/zmap/zlint/v3/lint"
	"pgregory.net/rapid"

	"verifharness/gen"
	"verifharness/stats"
)

var _ = zlint.Version // default build: links every lint package zlint.go imports

type censusEntry struct {
	Name string `json:"name"`
	Kind string `json:"kind"` // cert / crl / ocsp
	Dir  string `json:"dir"`
	File string `json:"file"`
}

type census struct {
	Entries     []censusEntry
	LintTypes   map[string]string   // "dir.Type" -> file, receiver types with CheckApplies+Execute
	Constructed map[string]struct{} // "dir.Type" composite-literal'd inside a registered constructor
	Dirs        []string
	BadNames    []string // registrations whose Name is not a string literal
}

// takeCensus parses every non-test .go file of every directory under
// <repo>/v3/lints and collects the registration calls syntactically.
func takeCensus() (*census, error) {
	root := filepath.Join(gen.RepoV3(), "lints")
	dirs, err := os.ReadDir(root)
	if err != nil {
		return nil, err
	}
	cs := &census{LintTypes: map[string]string{}, Constructed: map[string]struct{}{}}
	for _, d := range dirs {
		if !d.IsDir() {
			continue
		}
		dir := d.Name()
		fset := token.NewFileSet()
		files, _ := filepath.Glob(filepath.Join(root, dir, "*.go"))
		sort.Strings(files)
		type ctorRef struct{ name string }
		var ctorNames []string
		var pendingLits []ast.Node
		funcBodies := map[string]*ast.FuncDecl{}
		has := map[string]map[string]bool{} // type -> method set
		typeFile := map[string]string{}
		any := false
		for _, f := range files {
			if strings.HasSuffix(f, "_test.go") {
				continue
			}
			af, err := parser.ParseFile(fset, f, nil, 0)
			if err != nil {
				return nil, fmt.Errorf("parse %s: %v", f, err)
			}
			for _, decl := range af.Decls {
				fd, ok := decl.(*ast.FuncDecl)
				if !ok {
					continue
				}
				if fd.Recv == nil {
					funcBodies[fd.Name.Name] = fd
					continue
				}
				if len(fd.Recv.List) == 1 {
					tn := recvType(fd.Recv.List[0].Type)
					if tn != "" && (fd.Name.Name == "CheckApplies" || fd.Name.Name == "Execute") {
						if has[tn] == nil {
							has[tn] = map[string]bool{}
						}
						has[tn][fd.Name.Name] = true
						typeFile[tn] = filepath.Base(f)
					}
				}
			}
			ast.Inspect(af, func(n ast.Node) bool {
				call, ok := n.(*ast.CallExpr)
				if !ok {
					return true
				}
				sel, ok := call.Fun.(*ast.SelectorExpr)
				if !ok {
					return true
				}
				pkg, ok := sel.X.(*ast.Ident)
				if !ok || pkg.Name != "lint" {
					return true
				}
				kind := ""
				switch sel.Sel.Name {
				case "RegisterLint", "RegisterCertificateLint":
					kind = "cert"
				case "RegisterRevocationListLint":
					kind = "crl"
				case "RegisterOcspResponseLint":
					kind = "ocsp"
				default:
					return true
				}
				any = true
				name, okName := "", false
				for _, a := range call.Args {
					ast.Inspect(a, func(m ast.Node) bool {
						kv, ok := m.(*ast.KeyValueExpr)
						if !ok {
							return true
						}
						k, ok := kv.Key.(*ast.Ident)
						if !ok {
							return true
						}
						if k.Name == "Name" && !okName {
							if bl, ok := kv.Value.(*ast.BasicLit); ok && bl.Kind == token.STRING {
								if s, err := strconv.Unquote(bl.Value); err == nil {
									name, okName = s, true
								}
							}
						}
						if k.Name == "Lint" {
							switch v := kv.Value.(type) {
							case *ast.Ident:
								ctorNames = append(ctorNames, v.Name)
							case *ast.FuncLit:
								pendingLits = append(pendingLits, v.Body)
							}
						}
						return true
					})
				}
				if !okName {
					cs.BadNames = append(cs.BadNames, fmt.Sprintf("%s/%s", dir, filepath.Base(f)))
				}
				cs.Entries = append(cs.Entries, censusEntry{Name: name, Kind: kind, Dir: dir, File: filepath.Base(f)})
				return true
			})
		}
		// constructors may delegate to other package-level functions: follow
		// plain calls transitively.
		seen := map[string]bool{}
		var follow func(body ast.Node)
		follow = func(body ast.Node) {
			collectComposite(body, dir, cs.Constructed)
			ast.Inspect(body, func(n ast.Node) bool {
				if call, ok := n.(*ast.CallExpr); ok {
					if id, ok := call.Fun.(*ast.Ident); ok && !seen[id.Name] {
						seen[id.Name] = true
						if fd := funcBodies[id.Name]; fd != nil && fd.Body != nil {
							follow(fd.Body)
						}
					}
				}
				return true
			})
		}
		for _, b := range pendingLits {
			follow(b)
		}
		for _, cn := range ctorNames {
			if fd := funcBodies[cn]; fd != nil && fd.Body != nil && !seen[cn] {
				seen[cn] = true
				follow(fd.Body)
			}
		}
		for tn, ms := range has {
			if ms["CheckApplies"] && ms["Execute"] {
				cs.LintTypes[dir+"."+tn] = typeFile[tn]
			}
		}
		if any {
			cs.Dirs = append(cs.Dirs, dir)
		}
	}
	return cs, nil
}

func recvType(e ast.Expr) string {
	switch v := e.(type) {
	case *ast.StarExpr:
		return recvType(v.X)
	case *ast.Ident:
		return v.Name
	}
	return ""
}

func collectComposite(body ast.Node, dir string, into map[string]struct{}) {
	ast.Inspect(body, func(n ast.Node) bool {
		switch v := n.(type) {
		case *ast.CompositeLit:
			if id, ok := v.Type.(*ast.Ident); ok {
				into[dir+"."+id.Name] = struct{}{}
			}
		case *ast.CallExpr: // new(T)
			if id, ok := v.Fun.(*ast.Ident); ok && id.Name == "new" && len(v.Args) == 1 {
				if t, ok := v.Args[0].(*ast.Ident); ok {
					into[dir+"."+t.Name] = struct{}{}
				}
			}
		}
		return true
	})
}

// knownSources harvests the LintSource constants from lint/source.go.
func knownSources() (map[string]bool, error) {
	fset := token.NewFileSet()
	af, err := parser.ParseFile(fset, filepath.Join(gen.RepoV3(), "lint", "source.go"), nil, 0)
	if err != nil {
		return nil, err
	}
	out := map[string]bool{}
	for _, d := range af.Decls {
		gd, ok := d.(*ast.GenDecl)
		if !ok || gd.Tok != token.CONST {
			continue
		}
		for _, sp := range gd.Specs {
			vs := sp.(*ast.ValueSpec)
			if id, ok := vs.Type.(*ast.Ident); !ok || id.Name != "LintSource" {
				continue
			}
			for _, v := range vs.Values {
				if bl, ok := v.(*ast.BasicLit); ok {
					if s, err := strconv.Unquote(bl.Value); err == nil {
						out[s] = true
					}
				}
			}
		}
	}
	return out, nil
}

type regLint struct {
	Name string
	Kind string
	Meta lint.LintMetadata
	Nil  bool
}

func registryLints(r lint.Registry) []regLint {
	var out []regLint
	for _, l := range r.CertificateLints().Lints() {
		out = append(out, regLint{l.Name, "cert", l.LintMetadata, l.Lint == nil || l.Lint() == nil})
	}
	for _, l := range r.RevocationListLints().Lints() {
		out = append(out, regLint{l.Name, "crl", l.LintMetadata, l.Lint == nil || l.Lint() == nil})
	}
	for _, l := range r.OcspResponseLints().Lints() {
		out = append(out, regLint{l.Name, "ocsp", l.LintMetadata, l.Lint == nil || l.Lint() == nil})
	}
	return out
}

type c12Case struct {
	What string `json:"what"`
	Name string `json:"name,omitempty"`
}

// checkRegistryConsistency is shared by C12 (global) and by the generated
// filtered-registry lookups.
func checkRegistryConsistency(r lint.Registry, bad func(sig, msg string)) {
	if sig, msg := apiGuard(func() (string, string) { checkRegistryConsistencyInner(r, bad); return "", "" }); msg != "" {
		bad(sig, msg)
	}
}

func checkRegistryConsistencyInner(r lint.Registry, bad func(sig, msg string)) {
	names := r.Names()
	for i := 1; i < len(names); i++ {
		if !(names[i-1] < names[i]) {
			bad("names-order|"+names[i], fmt.Sprintf("Names() not strictly increasing at %q, %q", names[i-1], names[i]))
		}
	}
	all := registryLints(r)
	cnt := map[string]int{}
	for _, l := range all {
		cnt[l.Name]++
	}
	for n, k := range cnt {
		if k != 1 {
			bad("duplicate|"+n, fmt.Sprintf("lint %q appears %d times across the per-kind listings", n, k))
		}
	}
	if len(all) != len(names) {
		bad("names-vs-lints", fmt.Sprintf("Names() has %d entries, listings have %d lints", len(names), len(all)))
	}
	nameSet := map[string]bool{}
	for _, n := range names {
		nameSet[n] = true
	}
	srcSeen := map[lint.LintSource]bool{}
	for _, l := range all {
		if !nameSet[l.Name] {
			bad("unlisted|"+l.Name, "lint in listing but not in Names()")
		}
		hits := 0
		if x := r.CertificateLints().ByName(l.Name); x != nil {
			hits++
			if x.Name != l.Name || l.Kind != "cert" {
				bad("byname|"+l.Name, "certificate ByName answers with another lint/kind")
			}
		}
		if x := r.RevocationListLints().ByName(l.Name); x != nil {
			hits++
			if x.Name != l.Name || l.Kind != "crl" {
				bad("byname|"+l.Name, "CRL ByName answers with another lint/kind")
			}
		}
		if x := r.OcspResponseLints().ByName(l.Name); x != nil {
			hits++
			if x.Name != l.Name || l.Kind != "ocsp" {
				bad("byname|"+l.Name, "OCSP ByName answers with another lint/kind")
			}
		}
		if hits != 1 {
			bad("byname-hits|"+l.Name, fmt.Sprintf("%d kinds answer ByName(%q), want exactly 1", hits, l.Name))
		}
		if l.Kind == "cert" {
			if d := r.ByName(l.Name); d == nil || d.Name != l.Name {
				bad("deprecated-byname|"+l.Name, "Registry.ByName does not return the certificate lint")
			}
		}
		srcSeen[l.Meta.Source] = true
	}
	// BySource partitions Lints() per kind.
	srcs := r.Sources()
	srcSet := map[lint.LintSource]bool{}
	for _, s := range srcs {
		if srcSet[s] {
			bad("sources-dup|"+string(s), "Sources() lists a source twice")
		}
		srcSet[s] = true
	}
	for s := range srcSeen {
		if !srcSet[s] {
			bad("sources-missing|"+string(s), "a lint's source is missing from Sources()")
		}
	}
	for s := range srcSet {
		if !srcSeen[s] {
			bad("sources-extra|"+string(s), "Sources() lists a source no lint has")
		}
	}
	perSrc := map[string]int{}
	for s := range srcSet {
		for _, l := range r.CertificateLints().BySource(s) {
			if l == nil || l.Source != s || r.CertificateLints().ByName(l.Name) != l {
				bad("bysource|"+string(s), "certificate BySource returns a foreign lint")
			} else {
				perSrc["cert|"+l.Name]++
			}
		}
		for _, l := range r.RevocationListLints().BySource(s) {
			if l == nil || l.Source != s || r.RevocationListLints().ByName(l.Name) != l {
				bad("bysource|"+string(s), "CRL BySource returns a foreign lint")
			} else {
				perSrc["crl|"+l.Name]++
			}
		}
		for _, l := range r.OcspResponseLints().BySource(s) {
			if l == nil || l.Source != s || r.OcspResponseLints().ByName(l.Name) != l {
				bad("bysource|"+string(s), "OCSP BySource returns a foreign lint")
			} else {
				perSrc["ocsp|"+l.Name]++
			}
		}
		if len(r.BySource(s)) != len(r.CertificateLints().BySource(s)) {
			bad("deprecated-bysource|"+string(s), "Registry.BySource disagrees with CertificateLints().BySource")
		}
	}
	for _, l := range all {
		if perSrc[l.Kind+"|"+l.Name] != 1 {
			bad("bysource-partition|"+l.Name, fmt.Sprintf("lint reached %d times through BySource, want 1", perSrc[l.Kind+"|"+l.Name]))
		}
	}
	// each per-kind lookup: its own Names() is sorted and is exactly the names of its own lints
	for kind, ns := range map[string][]string{"cert": r.CertificateLints().Names(), "crl": r.RevocationListLints().Names(), "ocsp": r.OcspResponseLints().Names()} {
		for i := 1; i < len(ns); i++ {
			if !(ns[i-1] < ns[i]) {
				bad("kind-names-order|"+kind, fmt.Sprintf("per-kind Names() not strictly increasing at %q, %q", ns[i-1], ns[i]))
			}
		}
		want := 0
		for _, l := range all {
			if l.Kind == kind {
				want++
			}
		}
		if len(ns) != want {
			bad("kind-names-count|"+kind, fmt.Sprintf("per-kind Names() has %d entries, the listing %d lints", len(ns), want))
		}
	}
	// each per-kind lookup: its own Sources() is exactly the set of sources of its own lints
	kindSources := map[string]lint.SourceList{"cert": r.CertificateLints().Sources(), "crl": r.RevocationListLints().Sources(), "ocsp": r.OcspResponseLints().Sources()}
	for kind, sl := range kindSources {
		have := map[lint.LintSource]bool{}
		for _, l := range all {
			if l.Kind == kind {
				have[l.Meta.Source] = true
			}
		}
		listed := map[lint.LintSource]bool{}
		for _, s := range sl {
			if listed[s] {
				bad("kind-sources-dup|"+kind+"|"+string(s), "per-kind Sources() lists a source twice")
			}
			listed[s] = true
			if !have[s] {
				bad("kind-sources-extra|"+kind+"|"+string(s), "per-kind Sources() lists a source none of that kind's lints has")
			}
		}
		for s := range have {
			if !listed[s] {
				bad("kind-sources-missing|"+kind+"|"+string(s), "per-kind Sources() misses the source of one of its lints")
			}
		}
	}
	// the full listing (WriteJSON): one line per lint of any kind, each naming a listed lint once
	var buf bytes.Buffer
	r.WriteJSON(&buf)
	listed := map[string]int{}
	for _, ln := range strings.Split(strings.TrimRight(buf.String(), "\n"), "\n") {
		if ln == "" {
			continue
		}
		var m struct {
			Name string `json:"name"`
		}
		if err := json.Unmarshal([]byte(ln), &m); err != nil {
			bad("listing-line", "WriteJSON line does not decode: "+short(ln, 80))
			continue
		}
		listed[m.Name]++
	}
	for _, l := range all {
		if listed[l.Name] != 1 {
			bad("listing|"+l.Name, fmt.Sprintf("lint appears %d times in the WriteJSON listing, want 1", listed[l.Name]))
		}
	}
	for n := range listed {
		if !nameSet[n] {
			bad("listing-extra|"+n, "WriteJSON lists a name that Names() does not")
		}
	}
}

// c12Static runs the enumerative part and calls bad for every inconsistency.
func c12Static(rec *stats.Rec, bad func(sig, msg string)) error {
	cs, err := takeCensus()
	if err != nil {
		return fmt.Errorf("census: %v", err)
	}
	srcConst, err := knownSources()
	if err != nil {
		return fmt.Errorf("sources: %v", err)
	}
	g := lint.GlobalRegistry()
	reg := registryLints(g)

	// 1. census multiset == registry contents
	type key struct{ name, kind string }
	cen := map[key]int{}
	for _, e := range cs.Entries {
		cen[key{e.Name, e.Kind}]++
		rec.Eval()
		rec.NT(stats.HashS("census", e.Name, e.Kind))
		rec.Sample(e)
	}
	for _, b := range cs.BadNames {
		bad("census-name-not-literal|"+b, "registration whose Name is not a string literal")
	}
	got := map[key]int{}
	for _, l := range reg {
		got[key{l.Name, l.Kind}]++
	}
	for k, n := range cen {
		if n != 1 {
			bad("registered-twice-in-source|"+k.name, fmt.Sprintf("%d registrations of %q (%s) in the sources", n, k.name, k.kind))
		}
		if got[k] != n {
			bad("not-registered|"+k.name, fmt.Sprintf("source registers %q (%s) %d time(s); default-build registry has it %d time(s)", k.name, k.kind, n, got[k]))
		}
	}
	for k := range got {
		if cen[k] == 0 {
			bad("registered-not-in-census|"+k.name, fmt.Sprintf("registry has %q (%s) with no registration call under lints/", k.name, k.kind))
		}
	}
	if len(reg) != len(cs.Entries) {
		bad("count", fmt.Sprintf("registered lints %d != registrations in sources %d", len(reg), len(cs.Entries)))
	}
	// every lint type defined is constructed by some registered constructor
	for tn, f := range cs.LintTypes {
		rec.Eval()
		if _, ok := cs.Constructed[tn]; !ok {
			bad("lint-type-never-registered|"+tn, fmt.Sprintf("type %s (%s) has CheckApplies+Execute but no registration constructs it", tn, f))
		}
	}
	rec.ClassN("census_registrations", int64(len(cs.Entries)))
	rec.ClassN("census_lint_types", int64(len(cs.LintTypes)))
	rec.ClassN("census_dirs", int64(len(cs.Dirs)))
	rec.ClassN("registry_lints", int64(len(reg)))

	// 2. lookups agree with each other
	checkRegistryConsistency(g, bad)

	// 3. metadata well-formed
	for _, l := range reg {
		rec.Eval()
		rec.NT(stats.HashS("meta", l.Name))
		n := l.Name
		pfx := 0
		for _, p := range []string{"e_", "w_", "n_"} {
			if strings.HasPrefix(n, p) {
				pfx++
			}
		}
		if pfx != 1 || len(n) <= 2 {
			bad("name-prefix|"+n, "name lacks a single e_/w_/n_ prefix followed by a non-empty rest")
		}
		if n != strings.ToLower(n) || strings.ContainsAny(n, " \t\r\n") || strings.TrimSpace(n) != n {
			bad("name-case|"+n, "name is not lower-case / contains blanks")
		}
		if strings.TrimSpace(l.Meta.Description) == "" {
			bad("description|"+n, "empty description")
		}
		if !srcConst[string(l.Meta.Source)] || l.Meta.Source == lint.UnknownLintSource {
			bad("source|"+n, fmt.Sprintf("source %q is not a known LintSource constant", l.Meta.Source))
		}
		// "known" to the library itself, by each of its own recognisers: the source parser and JSON decoding
		var viaString lint.LintSource
		viaString.FromString(string(l.Meta.Source))
		if viaString != l.Meta.Source {
			bad("source-parser|"+n, fmt.Sprintf("LintSource.FromString(%q) gives %q: the lint's source is not one the source parser knows", l.Meta.Source, viaString))
		}
		if b, err := json.Marshal(l.Meta.Source); err == nil {
			var viaJSON lint.LintSource
			if err := json.Unmarshal(b, &viaJSON); err != nil || viaJSON != l.Meta.Source {
				bad("source-json|"+n, fmt.Sprintf("the lint's source %q does not survive JSON decoding (%q, %v): not a source the library knows", l.Meta.Source, viaJSON, err))
			}
		}
		if l.Nil {
			bad("nil-impl|"+n, "nil constructor or nil implementation")
		}
		if !l.Meta.EffectiveDate.IsZero() && !l.Meta.IneffectiveDate.IsZero() && !l.Meta.EffectiveDate.Before(l.Meta.IneffectiveDate) {
			bad("dates|"+n, fmt.Sprintf("effective %s does not precede ineffective %s", l.Meta.EffectiveDate.Format(time.RFC3339), l.Meta.IneffectiveDate.Format(time.RFC3339)))
		}
	}
	rec.Exhaustive("census+registry+metadata", true)
	return nil
}

func TestC12(t *testing.T) {
	rec := newRec(t, "C12")
	bad := func(sig, msg string) {
		if rec.Report("c12", sig, msg, c12Case{What: sig}) {
			t.Errorf("c12: %s: %s", sig, msg)
		}
	}
	if err := c12Static(rec, bad); err != nil {
		t.Fatal(err)
	}
	srcConst, _ := knownSources()
	g := lint.GlobalRegistry()

	// 4. generated lookups: near-miss names and sources find nothing; filtered
	// registries stay self-consistent.
	names := g.Names()
	nameSet := map[string]bool{}
	for _, n := range names {
		nameSet[n] = true
	}
	// enumerated: every listed name under every other severity prefix, without one, with the prefix in capitals, with
	// '-' for '_' and with one inner letter changed is not a name (unless listed itself); a name that is found is
	// found as itself
	for _, n := range names {
		var qs []string
		if len(n) > 2 && n[1] == '_' {
			for _, pfx := range []string{"e_", "w_", "n_", "", "E_", "W_", "i_", "f_"} {
				qs = append(qs, pfx+n[2:])
			}
			qs = append(qs, n[:1]+"-"+n[2:], strings.Replace(n, "_", "-", -1), strings.Replace(n[2:], "_", "__", 1), n+"_", n[:len(n)-1]+string(n[len(n)-1]^1))
			mid := 2 + (len(n)-2)/2
			qs = append(qs, n[:mid]+string(n[mid]^2)+n[mid+1:])
		}
		qs = append(qs, n)
		for _, q := range qs {
			rec.Eval()
			rec.Class("sibling_lookup")
			var found []string
			if l := g.CertificateLints().ByName(q); l != nil {
				found = append(found, l.Name)
			}
			if l := g.RevocationListLints().ByName(q); l != nil {
				found = append(found, l.Name)
			}
			if l := g.OcspResponseLints().ByName(q); l != nil {
				found = append(found, l.Name)
			}
			if l := g.ByName(q); l != nil {
				found = append(found, l.Name)
				if !nameSet[q] {
					found = append(found, "(deprecated Registry.ByName)")
				}
			}
			ok := true
			if nameSet[q] {
				ok = len(found) >= 1
				for _, f := range found {
					ok = ok && f == q
				}
			} else {
				ok = len(found) == 0
			}
			if !ok {
				if rec.Report("c12-lookup", "lookup|sibling", fmt.Sprintf("ByName(%q) (listed: %v) answers with %q", q, nameSet[q], found), c12Case{"lookup", q}) {
					t.Errorf("c12: ByName(%q), listed=%v, answers %q", q, nameSet[q], found)
				}
			}
			if !nameSet[q] {
				if _, err := g.Filter(lint.FilterOptions{IncludeNames: []string{q}}); err == nil {
					if rec.Report("c12-lookup", "filter|sibling", fmt.Sprintf("Filter accepts the include name %q, which is not listed", q), c12Case{"filter", q}) {
						t.Errorf("c12: Filter accepts the unlisted name %q", q)
					}
				}
				rec.NT(stats.HashS("miss", q))
			}
		}
	}
	rapidRun(t, "lookups", perShard(stats.Scale(3000, 60000)), func(rt *rapid.T) {
		rec.Eval()
		base := rapid.SampledFrom(names).Draw(rt, "base")
		var q string
		switch rapid.IntRange(0, 6).Draw(rt, "mut") {
		case 0:
			q = strings.ToUpper(base)
		case 1:
			q = base + rapid.StringMatching(`[a-z_ ]{1,3}`).Draw(rt, "sfx")
		case 2:
			q = base[:rapid.IntRange(0, len(base)-1).Draw(rt, "cut")]
		case 3:
			q = " " + base
		case 4:
			q = rapid.String().Draw(rt, "rnd")
		case 5:
			q = base[1:]
		default:
			q = base
		}
		reg := g
		var sel map[string]bool
		if rapid.Bool().Draw(rt, "filtered") {
			k := rapid.IntRange(1, 6).Draw(rt, "k")
			inc := make([]string, k)
			sel = map[string]bool{}
			for i := range inc {
				inc[i] = rapid.SampledFrom(names).Draw(rt, "inc")
				sel[inc[i]] = true
			}
			fr, err := g.Filter(lint.FilterOptions{IncludeNames: inc})
			if err != nil {
				fail(rt, rec, "c12-lookup", "filter-error", err.Error(), c12Case{"filter", q})
				return
			}
			reg = fr
			checkRegistryConsistency(reg, func(sig, msg string) {
				fail(rt, rec, "c12-lookup", "filtered|"+sig, msg, c12Case{"filtered-consistency", strings.Join(inc, ",")})
			})
		}
		want := nameSet[q] && (sel == nil || sel[q])
		hits := 0
		if reg.CertificateLints().ByName(q) != nil {
			hits++
		}
		if reg.RevocationListLints().ByName(q) != nil {
			hits++
		}
		if reg.OcspResponseLints().ByName(q) != nil {
			hits++
		}
		if want && hits != 1 || !want && hits != 0 {
			fail(rt, rec, "c12-lookup", "lookup|"+q, fmt.Sprintf("ByName(%q): %d kinds answer, want %v", q, hits, want), c12Case{"lookup", q})
		}
		if !want {
			rec.NT(stats.HashS("miss", q))
		}
		s := lint.LintSource(rapid.OneOf(rapid.SampledFrom([]string{"cabf_br", "CABF_BR ", "RFC", "", "Unknown", "rfc5280"}), rapid.StringN(0, 8, -1)).Draw(rt, "src"))
		if !srcConst[string(s)] || s == lint.UnknownLintSource {
			if len(reg.CertificateLints().BySource(s))+len(reg.RevocationListLints().BySource(s))+len(reg.OcspResponseLints().BySource(s)) != 0 {
				fail(rt, rec, "c12-lookup", "bysource-unknown|"+string(s), "lookup by unknown source returns lints", c12Case{"bysource", string(s)})
			}
		}
	})
	c12AfterAdditions(t, rec)
}

// c12AfterAdditions: "now and after any addition" - lints of every kind are registered one at a time through
// the public API while the registry is in use; after each addition the registry, and small views of it that
// hold CRL / OCSP lints only, must still agree with themselves.
func c12AfterAdditions(t *testing.T, rec *stats.Rec) {
	g := lint.GlobalRegistry()
	for i := range lateKinds {
		registerLate(i + 1)
		rec.Eval()
		rec.Class("after_addition")
		rec.NT(stats.HashS("addition", lateName(i)))
		bad := func(sig, msg string) {
			if rec.Report("c12-lookup", "after-addition|"+sig, msg, c12Case{"after-addition", lateName(i)}) {
				t.Errorf("c12 after registering %s: %s: %s", lateName(i), sig, msg)
			}
		}
		checkRegistryConsistency(g, bad)
		if g.CertificateLints().ByName(lateName(i)) == nil && g.RevocationListLints().ByName(lateName(i)) == nil && g.OcspResponseLints().ByName(lateName(i)) == nil {
			bad("late-lookup|"+lateName(i), "a lint registered through the public API cannot be looked up by name")
		}
		// views without certificate lints: every CRL and OCSP lint (real and late) alone, in pairs across kinds, all together
		var nonCert []string
		for _, l := range registryLints(g) {
			if l.Kind != "cert" {
				nonCert = append(nonCert, l.Name)
			}
		}
		sort.Strings(nonCert)
		views := [][]string{nonCert}
		for a := 0; a < len(nonCert); a++ {
			views = append(views, []string{nonCert[a]})
			for b := a + 1; b < len(nonCert); b++ {
				views = append(views, []string{nonCert[a], nonCert[b]})
			}
		}
		for vi, inc := range views {
			if !stats.Mine(vi) {
				continue
			}
			fr, err := g.Filter(lint.FilterOptions{IncludeNames: inc})
			if err != nil {
				bad("filter-error", fmt.Sprintf("Filter(IncludeNames %v): %v", inc, err))
				continue
			}
			if len(fr.Names()) != len(inc) {
				bad("view-size", fmt.Sprintf("view of %v holds %d lints", inc, len(fr.Names())))
			}
			checkRegistryConsistency(fr, func(sig, msg string) { bad("view|"+sig, fmt.Sprintf("view %v: %s", inc, msg)) })
		}
	}
}

func init() {
	// C12 is a census of the tree: replaying a saved violation means running
	// the census again and looking for the same signature.
	registerReplayer("c12", func(rec *stats.Rec, raw json.RawMessage) (string, string) {
		var c c12Case
		_ = json.Unmarshal(raw, &c)
		sig, msg := "", ""
		_ = c12Static(rec, func(s, m string) {
			if s == c.What {
				sig, msg = s, m
			}
		})
		return sig, msg
	})
}
