package props

import (
	"encoding/json"
	"fmt"
	"os"
	"path/filepath"
	"regexp"
	"strconv"
	"strings"
	"sync"

	"github.com/zmap/zlint/v3/lint"
	"pgregory.net/rapid"

	"verifharness/engine"
	"verifharness/gen"
	"verifharness/model"
	"verifharness/stats"
)

var (
	namesOnce sync.Once
	allNames  []string
)

func globalNames() []string {
	namesOnce.Do(func() { allNames = lint.GlobalRegistry().Names() })
	return allNames
}

// drawObject draws (kind, der): certificates 70 %, CRLs 20 %, OCSP 10 %.
func drawObject(t *rapid.T, maxEdits int, openers bool) engine.Case {
	co := gen.LoadCorpus()
	k := rapid.IntRange(0, 9).Draw(t, "kind")
	switch {
	case k < 2:
		// content built into the places lints read (names, DNs, AIA, validity, keys)
		if sc, ok := drawAnyStructured(t); ok {
			return engine.Case{Kind: gen.Cert, DER: sc.DER, Base: sc.Base, Ops: append([]string{"structured:" + sc.Fam}, sc.Desc...)}
		}
		fallthrough
	case k < 7 || len(co.CRLs) == 0:
		cc := gen.DrawCert(t, maxEdits, openers)
		return engine.Case{Kind: gen.Cert, DER: cc.DER, Base: cc.Base, Ops: cc.Ops}
	case k < 9 || len(co.OCSPs) == 0:
		if rapid.Bool().Draw(t, "built") {
			der, ops := gen.DrawBuiltCRL(t)
			return engine.Case{Kind: gen.CRL, DER: der, Base: "built-crl", Ops: ops}
		}
		der, base, ops := gen.DrawEdited(t, co.CRLs, maxEdits)
		return engine.Case{Kind: gen.CRL, DER: der, Base: base, Ops: ops}
	default:
		if rapid.Bool().Draw(t, "built") {
			der, ops := gen.DrawBuiltOCSP(t)
			return engine.Case{Kind: gen.OCSP, DER: der, Base: "built-ocsp", Ops: ops}
		}
		der, base, ops := gen.DrawEdited(t, co.OCSPs, maxEdits)
		return engine.Case{Kind: gen.OCSP, DER: der, Base: base, Ops: ops}
	}
}

// drawRegistry draws the registry selection part of a case.
func drawRegistry(t *rapid.T, c *engine.Case) {
	switch rapid.IntRange(0, 5).Draw(t, "regmode") {
	case 0:
		c.NilReg = true
	case 1, 2:
	case 3, 4:
		c.Filters = []engine.FilterSpec{engine.DrawValidFilter(t, globalNames())}
	default:
		f1 := engine.DrawValidFilter(t, globalNames())
		c.Filters = []engine.FilterSpec{f1}
		// second filter over what is left: names must be known to the first result
		if o, err := f1.Options(); err == nil {
			if r1, err := lint.GlobalRegistry().Filter(o); err == nil && len(r1.Names()) > 0 {
				c.Filters = append(c.Filters, engine.DrawValidFilter(t, r1.Names()))
			}
		}
	}
}

// drawConfig draws the configuration part; ill-typed sections only when allowed.
func drawConfig(t *rapid.T, c *engine.Case, allowIll bool) string {
	hi := 4
	if allowIll {
		hi = 5
	}
	switch rapid.IntRange(0, hi).Draw(t, "cfgmode") {
	case 0:
		return "none"
	case 1:
		s := ""
		c.Config = &s
		return "empty"
	case 2:
		b, err := lint.GlobalRegistry().DefaultConfiguration()
		if err != nil {
			return "none"
		}
		s := string(b)
		c.Config = &s
		return "example"
	case 3:
		s := engine.DrawUnrelatedTOML(t, globalNames())
		c.Config = &s
		return "unrelated"
	case 4:
		cis := engine.Configurables()
		if len(cis) == 0 {
			return "none"
		}
		ci := cis[rapid.IntRange(0, len(cis)-1).Draw(t, "cfglint")]
		s := engine.WellTypedSection(t, ci, map[string]interface{}{})
		c.Config = &s
		return "well-typed"
	default:
		cis := engine.Configurables()
		if len(cis) == 0 {
			return "none"
		}
		ci := cis[rapid.IntRange(0, len(cis)-1).Draw(t, "cfglint")]
		s, _ := engine.IllTypedSection(t, ci)
		c.Config = &s
		return "ill-typed"
	}
}

var (
	majorOnce sync.Once
	major     int64
)

// majorVersion parses the major version from the module path in go.mod.
func majorVersion() int64 {
	majorOnce.Do(func() {
		b, err := os.ReadFile(filepath.Join(gen.RepoV3(), "go.mod"))
		if err != nil {
			return
		}
		m := regexp.MustCompile(`(?m)^module\s+\S+/v(\d+)\s*$`).FindSubmatch(b)
		if m != nil {
			major, _ = strconv.ParseInt(string(m[1]), 10, 64)
		} else {
			major = 1
		}
	})
	return major
}

// home objects: corpus indices on which a lint's body (or at least its window
// test) is reached, computed from the current tree.
var (
	homeOnce sync.Once
	homes    map[string][]int
	// homeClass[lint][corpus index]: 0 = window test reached only (NE), 1 = body executed and passed / NA, 2 = body executed with a finding
	homeClass map[string]map[int]int
)

func homeObjects() map[string][]int {
	homeOnce.Do(func() {
		homes = map[string][]int{}
		homeClass = map[string]map[int]int{}
		note := func(name string, i int, e model.Expected) {
			if e.Stage == model.StExecuted || e.Stage == model.StNotEffective {
				homes[name] = append(homes[name], i)
				cl := 0
				if e.Stage == model.StExecuted {
					cl = 1
					if e.V.Status > lint.Pass {
						cl = 2
					}
				}
				if homeClass[name] == nil {
					homeClass[name] = map[int]int{}
				}
				homeClass[name][i] = cl
			}
		}
		co := gen.LoadCorpus()
		cfg := lint.NewEmptyConfig()
		g := lint.GlobalRegistry()
		for i, o := range co.Certs {
			c, ok := gen.ParseCert(o.DER)
			if !ok {
				continue
			}
			for _, l := range g.CertificateLints().Lints() {
				note(l.Name, i, model.ExpectCert(l, c, cfg))
			}
		}
		for i, o := range co.CRLs {
			c, ok := gen.ParseCRL(o.DER)
			if !ok {
				continue
			}
			for _, l := range g.RevocationListLints().Lints() {
				note(l.Name, i, model.ExpectCRL(l, c, cfg))
			}
		}
		for i, o := range co.OCSPs {
			c, ok := gen.ParseOCSP(o.DER)
			if !ok {
				continue
			}
			for _, l := range g.OcspResponseLints().Lints() {
				note(l.Name, i, model.ExpectOCSP(l, c, cfg))
			}
		}
	})
	return homes
}

func caseHash(c engine.Case) uint64 {
	b, _ := json.Marshal(c.Filters)
	cfg := ""
	if c.Config != nil {
		cfg = "cfg:" + *c.Config
	}
	return stats.Hash(c.DER, b, []byte(cfg), []byte(fmt.Sprint(c.NilReg)))
}

func sampleCase(c engine.Case, extra map[string]interface{}) map[string]interface{} {
	m := map[string]interface{}{"kind": c.Kind, "base": c.Base, "ops": c.Ops, "der_len": len(c.DER)}
	if len(c.Filters) > 0 {
		m["filters"] = c.Filters
	}
	if c.Config != nil {
		m["config"] = short(*c.Config, 200)
	}
	if c.NilReg {
		m["nil_registry"] = true
	}
	for k, v := range extra {
		m[k] = v
	}
	return m
}

func statusCounts(v map[string]model.Verdict) map[string]int {
	out := map[string]int{}
	for _, x := range v {
		out[x.Status.String()]++
	}
	return out
}

func findings(v map[string]model.Verdict) []string {
	var out []string
	for n, x := range v {
		if x.Status > lint.Pass {
			out = append(out, n+"="+x.Status.String())
		}
	}
	if len(out) > 6 {
		out = out[:6]
	}
	return out
}

func join(ss []string) string { return strings.Join(ss, ",") }
