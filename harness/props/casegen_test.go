package props

import (
	"encoding/json"
	"fmt"
	"os"
	"path/filepath"
	"regexp"
	"strconv"
	"strings"
	"sync"
	"time"

	"github.com/zmap/zlint/v3/lint"
	"pgregory.net/rapid"

	"verifharness/engine"
	"verifharness/gen"
	"verifharness/model"
	"verifharness/stats"

	dt "verifharness/dertree"
)

var (
	namesOnce sync.Once
	allNames  []string
)

func globalNames() []string {
	namesOnce.Do(func() { allNames = lint.GlobalRegistry().Names() })
	return allNames
}

// drawObject draws (kind, der): certificates 70 %, CRLs 20 %, OCSP 10 %.
func drawObject(t *rapid.T, maxEdits int, openers bool) engine.Case {
	co := gen.LoadCorpus()
	k := rapid.IntRange(0, 9).Draw(t, "kind")
	switch {
	case k < 2:
		// content built into the places lints read (names, DNs, AIA, validity, keys)
		if sc, ok := drawAnyStructured(t); ok {
			return engine.Case{Kind: gen.Cert, DER: sc.DER, Base: sc.Base, Ops: append([]string{"structured:" + sc.Fam}, sc.Desc...)}
		}
		fallthrough
	case k < 7 || len(co.CRLs) == 0:
		cc := gen.DrawCert(t, maxEdits, openers)
		return engine.Case{Kind: gen.Cert, DER: cc.DER, Base: cc.Base, Ops: cc.Ops}
	case k < 9 || len(co.OCSPs) == 0:
		if rapid.Bool().Draw(t, "built") {
			der, ops := gen.DrawBuiltCRL(t)
			return engine.Case{Kind: gen.CRL, DER: der, Base: "built-crl", Ops: ops}
		}
		der, base, ops := gen.DrawEdited(t, co.CRLs, maxEdits)
		return engine.Case{Kind: gen.CRL, DER: der, Base: base, Ops: ops}
	default:
		if rapid.Bool().Draw(t, "built") {
			der, ops := gen.DrawBuiltOCSP(t)
			return engine.Case{Kind: gen.OCSP, DER: der, Base: "built-ocsp", Ops: ops}
		}
		der, base, ops := gen.DrawEdited(t, co.OCSPs, maxEdits)
		return engine.Case{Kind: gen.OCSP, DER: der, Base: base, Ops: ops}
	}
}

// drawRegistry draws the registry selection part of a case.
func drawRegistry(t *rapid.T, c *engine.Case) {
	switch rapid.IntRange(0, 5).Draw(t, "regmode") {
	case 0:
		c.NilReg = true
	case 1, 2:
	case 3, 4:
		c.Filters = []engine.FilterSpec{engine.DrawValidFilter(t, globalNames())}
	default:
		f1 := engine.DrawValidFilter(t, globalNames())
		c.Filters = []engine.FilterSpec{f1}
		// second filter over what is left: names must be known to the first result
		if o, err := f1.Options(); err == nil {
			if r1, err := lint.GlobalRegistry().Filter(o); err == nil && len(r1.Names()) > 0 {
				c.Filters = append(c.Filters, engine.DrawValidFilter(t, r1.Names()))
			}
		}
	}
}

// drawConfig draws the configuration part; ill-typed sections only when allowed.
func drawConfig(t *rapid.T, c *engine.Case, allowIll bool) string {
	kind := drawConfigInner(t, c, allowIll)
	if c.Config != nil && len(c.Filters) > 0 {
		// installed on the parent before filtering (the filtered registry has to inherit it), or on the result
		c.ConfigFirst = rapid.Bool().Draw(t, "cfgfirst")
	}
	return kind
}

func drawConfigInner(t *rapid.T, c *engine.Case, allowIll bool) string {
	hi := 4
	if allowIll {
		hi = 5
	}
	switch rapid.IntRange(0, hi).Draw(t, "cfgmode") {
	case 0:
		return "none"
	case 1:
		s := ""
		c.Config = &s
		return "empty"
	case 2:
		b, err := lint.GlobalRegistry().DefaultConfiguration()
		if err != nil {
			return "none"
		}
		s := string(b)
		c.Config = &s
		return "example"
	case 3:
		s := engine.DrawUnrelatedTOML(t, globalNames())
		c.Config = &s
		return "unrelated"
	case 4:
		cis := engine.Configurables()
		if len(cis) == 0 {
			return "none"
		}
		ci := cis[rapid.IntRange(0, len(cis)-1).Draw(t, "cfglint")]
		s := engine.WellTypedSection(t, ci, map[string]interface{}{})
		c.Config = &s
		return "well-typed"
	default:
		cis := engine.Configurables()
		if len(cis) == 0 {
			return "none"
		}
		ci := cis[rapid.IntRange(0, len(cis)-1).Draw(t, "cfglint")]
		s, _ := engine.IllTypedSection(t, ci)
		c.Config = &s
		return "ill-typed"
	}
}

var (
	majorOnce sync.Once
	major     int64
)

// majorVersion parses the major version from the module path in go.mod.
func majorVersion() int64 {
	majorOnce.Do(func() {
		b, err := os.ReadFile(filepath.Join(gen.RepoV3(), "go.mod"))
		if err != nil {
			return
		}
		m := regexp.MustCompile(`(?m)^module\s+\S+/v(\d+)\s*$`).FindSubmatch(b)
		if m != nil {
			major, _ = strconv.ParseInt(string(m[1]), 10, 64)
		} else {
			major = 1
		}
	})
	return major
}

// home objects: corpus indices on which a lint's body (or at least its window
// test) is reached, computed from the current tree.
var (
	homeOnce sync.Once
	homes    map[string][]int
	// homeClass[lint][corpus index]: 0 = window test reached only (NE), 1 = body executed and passed / NA, 2 = body executed with a finding
	homeClass map[string]map[int]int
)

func homeObjects() map[string][]int {
	homeOnce.Do(func() {
		homes = map[string][]int{}
		homeClass = map[string]map[int]int{}
		note := func(name string, i int, e model.Expected) {
			if e.Stage == model.StExecuted || e.Stage == model.StNotEffective {
				homes[name] = append(homes[name], i)
				cl := 0
				if e.Stage == model.StExecuted {
					cl = 1
					if e.V.Status > lint.Pass {
						cl = 2
					}
				}
				if homeClass[name] == nil {
					homeClass[name] = map[int]int{}
				}
				homeClass[name][i] = cl
			}
		}
		co := gen.LoadCorpus()
		cfg := lint.NewEmptyConfig()
		g := lint.GlobalRegistry()
		for i, o := range co.Certs {
			c, ok := gen.ParseCert(o.DER)
			if !ok {
				continue
			}
			for _, l := range g.CertificateLints().Lints() {
				note(l.Name, i, model.ExpectCert(l, c, cfg))
			}
		}
		for i, o := range co.CRLs {
			c, ok := gen.ParseCRL(o.DER)
			if !ok {
				continue
			}
			for _, l := range g.RevocationListLints().Lints() {
				note(l.Name, i, model.ExpectCRL(l, c, cfg))
			}
		}
		for i, o := range co.OCSPs {
			c, ok := gen.ParseOCSP(o.DER)
			if !ok {
				continue
			}
			for _, l := range g.OcspResponseLints().Lints() {
				note(l.Name, i, model.ExpectOCSP(l, c, cfg))
			}
		}
	})
	return homes
}

func caseHash(c engine.Case) uint64 {
	b, _ := json.Marshal(c.Filters)
	cfg := ""
	if c.Config != nil {
		cfg = "cfg:" + *c.Config
	}
	return stats.Hash(c.DER, b, []byte(cfg), []byte(fmt.Sprint(c.NilReg)))
}

func sampleCase(c engine.Case, extra map[string]interface{}) map[string]interface{} {
	m := map[string]interface{}{"kind": c.Kind, "base": c.Base, "ops": c.Ops, "der_len": len(c.DER)}
	if len(c.Filters) > 0 {
		m["filters"] = c.Filters
	}
	if c.Config != nil {
		m["config"] = short(*c.Config, 200)
	}
	if c.NilReg {
		m["nil_registry"] = true
	}
	for k, v := range extra {
		m[k] = v
	}
	return m
}

func statusCounts(v map[string]model.Verdict) map[string]int {
	out := map[string]int{}
	for _, x := range v {
		out[x.Status.String()]++
	}
	return out
}

func findings(v map[string]model.Verdict) []string {
	var out []string
	for n, x := range v {
		if x.Status > lint.Pass {
			out = append(out, n+"="+x.Status.String())
		}
	}
	if len(out) > 6 {
		out = out[:6]
	}
	return out
}

func join(ss []string) string { return strings.Join(ss, ",") }

// drawConfiguredCase: an object of a configurable lint's kind together with a well-typed configuration for that
// lint (the documented alternative value or generated field values) - rule bodies have branches that only a
// non-default option opens. CRL lints get built revocation lists (calendar-edge dates) half of the time.
func drawConfiguredCase(rt *rapid.T) (engine.Case, string) {
	cis := engine.Configurables()
	if len(cis) == 0 {
		return drawObject(rt, 2, true), ""
	}
	ci := cis[rapid.IntRange(0, len(cis)-1).Draw(rt, "cfglint")]
	var doc string
	if alt, ok := altDocs[ci.Name]; ok && rapid.Bool().Draw(rt, "altdoc") {
		doc = alt
	} else {
		doc = engine.WellTypedSection(rt, ci, map[string]interface{}{})
	}
	var c engine.Case
	kind := lintKindOf(ci.Name)
	switch {
	case kind == "crl" && rapid.Bool().Draw(rt, "builtcrl"):
		der, ops := gen.DrawBuiltCRL(rt)
		c = engine.Case{Kind: gen.CRL, DER: der, Base: "built-crl", Ops: ops}
	case kind == "crl":
		der, base, ops := gen.DrawEdited(rt, gen.LoadCorpus().CRLs, 2)
		c = engine.Case{Kind: gen.CRL, DER: der, Base: base, Ops: ops}
	default:
		hs := homeObjects()[ci.Name]
		if len(hs) > 0 && rapid.IntRange(0, 3).Draw(rt, "home") > 0 {
			o := kindObjs(kind)[hs[rapid.IntRange(0, len(hs)-1).Draw(rt, "homeobj")]]
			root, err := dt.Parse(o.DER)
			if err == nil {
				var ops []string
				for i, n := 0, rapid.IntRange(0, 2).Draw(rt, "nedits"); i < n; i++ {
					ops = append(ops, gen.RandomEdit(rt, root))
				}
				c = engine.Case{Kind: o.Kind, DER: root.Encode(), Base: o.Name, Ops: ops}
				break
			}
		}
		c = drawObject(rt, 2, true)
	}
	c.Config = &doc
	c.Ops = append(c.Ops, "configured:"+ci.Name)
	return c, ci.Name
}

func lintKindOf(name string) string {
	g := lint.GlobalRegistry()
	if g.RevocationListLints().ByName(name) != nil {
		return "crl"
	}
	if g.OcspResponseLints().ByName(name) != nil {
		return "ocsp"
	}
	return "cert"
}

// forEachCalendarCRL enumerates built revocation lists over the calendar: thisUpdate on leap days, month and year
// ends (four years, three times of day) x nextUpdate = thisUpdate + {10 days, 11 / 12 / 13 months, 1 year} +
// {-1 day, -1 s, 0, +1 s, +12 h, +1 day} x configuration {none, SubscriberCRL = false, SubscriberCRL = true} -
// where month arithmetic rolls over. This shard's share.
func forEachCalendarCRL(fn func(c engine.Case)) {
	docs := []*string{nil}
	for _, d := range []string{"[e_crl_next_update_invalid]\nSubscriberCRL = false\n", "[e_crl_next_update_invalid]\nSubscriberCRL = true\n"} {
		d := d
		docs = append(docs, &d)
	}
	num := int64(7)
	k := 0
	for _, y := range []int{2024, 2025, 2027, 2028} {
		for _, md := range [][2]int{{2, 28}, {2, 29}, {3, 1}, {12, 29}, {12, 30}, {12, 31}, {1, 1}, {1, 31}, {3, 31}, {4, 30}, {8, 31}, {10, 31}, {11, 30}} {
			for _, hms := range [][3]int{{0, 0, 0}, {23, 59, 59}, {12, 0, 0}} {
				this := time.Date(y, time.Month(md[0]), md[1], hms[0], hms[1], hms[2], 0, time.UTC)
				if this.Day() != md[1] {
					continue // 29 February of a common year
				}
				for _, span := range [][3]int{{0, 0, 10}, {0, 11, 0}, {0, 12, 0}, {0, 13, 0}, {1, 0, 0}} {
					for _, off := range []time.Duration{-24 * time.Hour, -time.Second, 0, time.Second, 12 * time.Hour, 24 * time.Hour} {
						k++
						if !stats.Mine(k) {
							continue
						}
						next := this.AddDate(span[0], span[1], span[2]).Add(off)
						der := gen.BuildCRL(gen.CRLSpec{V2: true, ThisUpdate: this, NextUpdate: &next, CRLNumber: &num, AKI: true})
						for _, doc := range docs {
							c := engine.Case{Kind: gen.CRL, DER: der, Base: "built-crl", Config: doc,
								Ops: []string{fmt.Sprintf("calendar this=%s next=%s", this.Format(time.RFC3339), next.Format(time.RFC3339))}}
							fn(c)
						}
					}
				}
			}
		}
	}
}
