package props

import (
	"bytes"
	"encoding/json"
	"fmt"
	"reflect"
	"regexp"
	"sort"
	"strings"
	"sync"
	"testing"

	"github.com/zmap/zlint/v3"
	"github.com/zmap/zlint/v3/lint"
	"pgregory.net/rapid"

	"verifharness/engine"
	"verifharness/gen"
	"verifharness/stats"
)

type c08Case struct {
	Pre    *engine.FilterSpec `json:"pre,omitempty"` // registry being filtered = Filter(global, pre)
	Opts   engine.FilterSpec  `json:"opts"`
	ProbeN int                `json:"probe_n"`
	// Late: the case presumes the first n late-registered harness lints (replays register them too)
	Late int `json:"late,omitempty"`
}

type lintID struct {
	Name string
	Kind string
	Meta lint.LintMetadata
	Ptr  interface{}
}

func snapshot(r lint.Registry) []lintID {
	var out []lintID
	for _, l := range r.CertificateLints().Lints() {
		out = append(out, lintID{l.Name, "cert", l.LintMetadata, l})
	}
	for _, l := range r.RevocationListLints().Lints() {
		out = append(out, lintID{l.Name, "crl", l.LintMetadata, l})
	}
	for _, l := range r.OcspResponseLints().Lints() {
		out = append(out, lintID{l.Name, "ocsp", l.LintMetadata, l})
	}
	sort.Slice(out, func(i, j int) bool { return out[i].Name < out[j].Name })
	return out
}

// filterModel is the set algebra of the statement. known = names of the
// registry being filtered (any kind).
func filterModel(src []lintID, f engine.FilterSpec) (sel []lintID, wantErr bool, why string) {
	known := map[string]bool{}
	for _, l := range src {
		known[l.Name] = true
	}
	trim := func(ns []string) (map[string]bool, bool) {
		m := map[string]bool{}
		for _, n := range ns {
			n = strings.TrimSpace(n)
			if !known[n] {
				return nil, false
			}
			m[n] = true
		}
		return m, true
	}
	empty := f.NameFilter == nil && len(f.IncludeNames) == 0 && len(f.ExcludeNames) == 0 && len(f.IncludeSources) == 0 && len(f.ExcludeSources) == 0
	if empty {
		return src, false, ""
	}
	ex, ok1 := trim(f.ExcludeNames)
	in, ok2 := trim(f.IncludeNames)
	if !ok1 || !ok2 {
		return nil, true, "unknown lint name"
	}
	if f.NameFilter != nil && (len(f.ExcludeNames) > 0 || len(f.IncludeNames) > 0) {
		return nil, true, "name pattern combined with name lists"
	}
	var re *regexp.Regexp
	if f.NameFilter != nil {
		re = regexp.MustCompile(*f.NameFilter)
	}
	inSrc := map[string]bool{}
	for _, s := range f.IncludeSources {
		inSrc[s] = true
	}
	exSrc := map[string]bool{}
	for _, s := range f.ExcludeSources {
		exSrc[s] = true
	}
	for _, l := range src {
		s := string(l.Meta.Source)
		switch {
		case exSrc[s]:
		case len(f.IncludeSources) > 0 && !inSrc[s]:
		case re != nil && !re.MatchString(l.Name):
		case ex[l.Name]:
		case len(f.IncludeNames) > 0 && !in[l.Name]:
		default:
			sel = append(sel, l)
		}
	}
	return sel, false, ""
}

type probeCfg struct {
	X int
}

func judgeC08(rec *stats.Rec, c c08Case) (string, string) {
	return apiGuard(func() (string, string) { return judgeC08Inner(rec, c) })
}

func judgeC08Inner(rec *stats.Rec, c c08Case) (string, string) {
	if c.Late > 0 {
		registerLate(c.Late)
	}
	g := lint.GlobalRegistry()
	old := g.GetConfiguration()
	defer g.SetConfiguration(old)
	probe, err := lint.NewConfigFromString(fmt.Sprintf("[verif_probe]\nX = %d\n", c.ProbeN))
	if err != nil {
		return "", ""
	}
	var src lint.Registry = g
	if c.Pre != nil {
		o, err := c.Pre.Options()
		if err != nil {
			rec.Class("void_pre")
			return "", ""
		}
		r, err := g.Filter(o)
		if err != nil {
			rec.Class("void_pre")
			return "", ""
		}
		src = r
	}
	src.SetConfiguration(probe)
	before := snapshot(src)
	beforeNames := append([]string{}, src.Names()...)
	beforeSources := append(lint.SourceList{}, src.Sources()...)
	sort.Sort(beforeSources)
	opts, err := c.Opts.Options()
	if err != nil {
		rec.Class("void_regexp")
		return "", ""
	}
	want, wantErr, why := filterModel(before, c.Opts)
	got, gerr := src.Filter(opts)
	// source registry unchanged
	after := snapshot(src)
	if !eqStrings(namesOf(before), namesOf(after)) || !eqStrings(beforeNames, src.Names()) {
		return "source-changed|names", "Filter changed the registry being filtered"
	}
	as := append(lint.SourceList{}, src.Sources()...)
	sort.Sort(as)
	if len(beforeSources) != len(as) || (len(as) > 0 && !reflect.DeepEqual(beforeSources, as)) {
		return "source-changed|sources", "Filter changed Sources() of the registry being filtered"
	}
	for i := range before {
		if before[i].Ptr != after[i].Ptr || !reflect.DeepEqual(before[i].Meta, after[i].Meta) {
			return "source-changed|" + before[i].Name, "Filter changed a lint of the registry being filtered"
		}
	}
	var p0 probeCfg
	if err := src.GetConfiguration().Configure(&p0, "verif_probe"); err != nil || p0.X != c.ProbeN {
		return "source-changed|config", "Filter changed the configuration of the registry being filtered"
	}
	if wantErr {
		if gerr == nil {
			return "no-error|" + why, fmt.Sprintf("Filter accepted options that must be rejected (%s)", why)
		}
		rec.Class("expected_error")
		return "", ""
	}
	if gerr != nil {
		return "unexpected-error", "Filter rejected valid options: " + gerr.Error()
	}
	if got == nil {
		return "nil-registry", "Filter returned nil registry and nil error"
	}
	gl := snapshot(got)
	wn, gn := namesOf(want), namesOf(gl)
	if !eqStrings(wn, gn) {
		miss, extra := diffNames(wn, gn)
		return "selection", fmt.Sprintf("selected set differs from the documented one: missing %v extra %v", capList(miss), capList(extra))
	}
	if !eqStrings(gn, sortedCopy(got.Names())) || !sort.StringsAreSorted(got.Names()) {
		return "names-listing", "Names() of the filtered registry is not the sorted selection"
	}
	for i := range want {
		if want[i].Kind != gl[i].Kind {
			return "kind|" + want[i].Name, fmt.Sprintf("lint changed kind %s -> %s", want[i].Kind, gl[i].Kind)
		}
		if !reflect.DeepEqual(want[i].Meta, gl[i].Meta) {
			return "metadata|" + want[i].Name, "lint metadata changed by filtering"
		}
		if want[i].Ptr != gl[i].Ptr {
			return "identity|" + want[i].Name, "filtered registry holds a different lint object"
		}
	}
	wantSrc := map[lint.LintSource]bool{}
	for _, l := range want {
		wantSrc[l.Meta.Source] = true
	}
	gs := got.Sources()
	if len(gs) != len(wantSrc) {
		return "sources", fmt.Sprintf("Sources() has %d entries, selection has %d sources", len(gs), len(wantSrc))
	}
	for _, s := range gs {
		if !wantSrc[s] {
			return "sources", "Sources() lists " + string(s) + " which no selected lint has"
		}
	}
	var inconsistent string
	checkRegistryConsistency(got, func(sig, msg string) {
		if inconsistent == "" {
			inconsistent = sig + ": " + msg
		}
	})
	if inconsistent != "" {
		return "lookup-consistency", inconsistent
	}
	var p1 probeCfg
	if err := got.GetConfiguration().Configure(&p1, "verif_probe"); err != nil || p1.X != c.ProbeN {
		return "config-not-inherited", fmt.Sprintf("filtered registry does not carry the source's configuration (probe=%d, err=%v)", p1.X, err)
	}
	// non-empty options give a registry of its own (only empty options hand back the receiver): what is
	// done to the result afterwards leaves the source registry unchanged
	if !c.Opts.Empty() {
		if other, err := lint.NewConfigFromString(fmt.Sprintf("[verif_probe]\nX = %d\n", c.ProbeN+1)); err == nil {
			got.SetConfiguration(other)
			var p2 probeCfg
			if err := src.GetConfiguration().Configure(&p2, "verif_probe"); err != nil || p2.X != c.ProbeN {
				return "source-changed|config-through-result", fmt.Sprintf("setting a configuration on the filtered registry changed the source registry's (probe %d -> %d)", c.ProbeN, p2.X)
			}
			if again, err := src.Filter(opts); err == nil && again != nil {
				var p3 probeCfg
				if err := again.GetConfiguration().Configure(&p3, "verif_probe"); err != nil || p3.X != c.ProbeN {
					return "source-changed|config-through-result", "a second Filter of the source inherits a configuration that was set on the first result"
				}
			}
			got.SetConfiguration(probe)
		}
	}
	// NT: >= 2 populated fields (or error expectation handled above), result neither empty nor everything
	pop := 0
	for _, b := range []bool{len(c.Opts.IncludeNames) > 0, len(c.Opts.ExcludeNames) > 0, len(c.Opts.IncludeSources) > 0, len(c.Opts.ExcludeSources) > 0, c.Opts.NameFilter != nil} {
		if b {
			pop++
		}
	}
	if pop >= 2 && len(want) > 0 && len(want) < len(before) {
		b, _ := json.Marshal(c)
		rec.NT(stats.Hash(b))
		rec.Class("nontrivial_selection")
	}
	return "", ""
}

func eqStrings(a, b []string) bool {
	if len(a) != len(b) {
		return false
	}
	for i := range a {
		if a[i] != b[i] {
			return false
		}
	}
	return true
}

func namesOf(l []lintID) []string {
	out := make([]string, len(l))
	for i := range l {
		out[i] = l[i].Name
	}
	return out
}

func sortedCopy(s []string) []string {
	c := append([]string{}, s...)
	sort.Strings(c)
	return c
}

func diffNames(want, got []string) (miss, extra []string) {
	w, g := map[string]bool{}, map[string]bool{}
	for _, n := range want {
		w[n] = true
	}
	for _, n := range got {
		g[n] = true
	}
	for _, n := range want {
		if !g[n] {
			miss = append(miss, n)
		}
	}
	for _, n := range got {
		if !w[n] {
			extra = append(extra, n)
		}
	}
	return
}

func capList(s []string) []string {
	if len(s) > 5 {
		return append(s[:5:5], fmt.Sprintf("...+%d", len(s)-5))
	}
	return s
}

// drawAnyFilter draws arbitrary options, valid or not.
func drawAnyFilter(t *rapid.T, names []string) engine.FilterSpec {
	var f engine.FilterSpec
	nameGen := func(lbl string) []string {
		switch rapid.IntRange(0, 5).Draw(t, lbl+"mode") {
		case 0:
			return nil
		case 1:
			f.EmptyNotNil |= map[string]int{"inc": 1, "exc": 2}[lbl]
			return nil
		}
		n := rapid.IntRange(1, 8).Draw(t, lbl+"n")
		if rapid.IntRange(0, 5).Draw(t, lbl+"big") == 0 {
			n = rapid.IntRange(20, 200).Draw(t, lbl+"nbig")
		}
		out := make([]string, 0, n)
		for i := 0; i < n; i++ {
			base := names[rapid.IntRange(0, len(names)-1).Draw(t, lbl+"name")]
			switch rapid.IntRange(0, 29).Draw(t, lbl+"mut") {
			case 0:
				base = strings.ToUpper(base)
			case 1:
				base = base[:len(base)-1]
			case 2:
				base = ""
			case 3:
				base = " "
			case 4:
				base = rapid.StringMatching(`[a-z_]{1,12}`).Draw(t, lbl+"rnd")
			case 5:
				base = base + "," + base
			case 6:
				base = "e_" + base[2:]
			case 7, 8, 9, 10, 11, 12:
				base = pads(t, base)
			}
			out = append(out, base)
			if rapid.IntRange(0, 6).Draw(t, lbl+"dup") == 0 {
				out = append(out, base)
			}
		}
		return out
	}
	srcGen := func(lbl string) []string {
		switch rapid.IntRange(0, 5).Draw(t, lbl+"mode") {
		case 0, 1:
			return nil
		case 2:
			f.EmptyNotNil |= map[string]int{"isrc": 4, "xsrc": 8}[lbl]
			return nil
		}
		n := rapid.IntRange(1, 5).Draw(t, lbl+"n")
		out := make([]string, n)
		for i := range out {
			switch rapid.IntRange(0, 9).Draw(t, lbl+"kind") {
			case 0:
				out[i] = rapid.SampledFrom([]string{"Unknown", "", "Unknown", "unknown"}).Draw(t, lbl+"unk")
			case 1:
				out[i] = rapid.StringMatching(`[A-Za-z_]{0,8}`).Draw(t, lbl+"rnd")
			case 2:
				out[i] = "RFC8813" // a source constant that may have no lints
			default:
				out[i] = engine.AllSourceConsts[rapid.IntRange(0, len(engine.AllSourceConsts)-1).Draw(t, lbl)]
			}
		}
		return out
	}
	f.IncludeNames = nameGen("inc")
	f.ExcludeNames = nameGen("exc")
	if rapid.IntRange(0, 3).Draw(t, "unsetnames") == 0 {
		f.IncludeNames, f.ExcludeNames = nil, nil
	}
	f.IncludeSources = srcGen("isrc")
	f.ExcludeSources = srcGen("xsrc")
	switch rapid.IntRange(0, 4).Draw(t, "remode") {
	case 0:
		s := reDict[rapid.IntRange(0, len(reDict)-1).Draw(t, "re")]
		if rapid.Bool().Draw(t, "regrammar") {
			s = engine.DrawRegexp(t, globalNames())
		}
		f.NameFilter = &s
	case 1:
		if len(f.IncludeNames) == 0 && len(f.ExcludeNames) == 0 {
			s := reDict[rapid.IntRange(0, len(reDict)-1).Draw(t, "re")]
			if rapid.Bool().Draw(t, "regrammar") {
				s = engine.DrawRegexp(t, globalNames())
			}
			f.NameFilter = &s
		}
	}
	return f
}

var reDict = []string{`^e_`, `^w_`, `^n_`, `crl`, `.*`, `^$`, `ocsp`, `^e_(sub|ext)_`, `dnsname`, `[0-9]`, `_ca_`, `rsa|dsa`, `^.{10,25}$`, `(?i)RSA`, `^[ew]_ext`, `x`, `e_.*name$`, `[^a-z_0-9]`, `^(w|n)_.*[aeiou]$`, `a.c`}

func pads(t *rapid.T, s string) string {
	// blanks as strings.TrimSpace (the trimming the registry applies) understands them: ASCII and Unicode White_Space
	p := []string{"", " ", "  ", "\t", "\n", " \t", "\r\n", "\v\f", "\u0085", "\u00a0", "\u2003", "\u2028", "\u3000", " \u00a0 "}
	return p[rapid.IntRange(0, len(p)-1).Draw(t, "padl")] + s + p[rapid.IntRange(0, len(p)-1).Draw(t, "padr")]
}

func TestC08(t *testing.T) {
	rec := newRec(t, "C08")
	names := globalNames()
	rapidRun(t, "filter", perShard(stats.Scale(30000, 1000000)), func(rt *rapid.T) {
		c := c08Case{ProbeN: rapid.IntRange(1, 1000000).Draw(rt, "probe")}
		use := names
		if rapid.IntRange(0, 3).Draw(rt, "prefilter") == 0 {
			pre := engine.DrawValidFilter(rt, names)
			c.Pre = &pre
			if o, err := pre.Options(); err == nil {
				if r, err := lint.GlobalRegistry().Filter(o); err == nil && len(r.Names()) > 0 {
					// names for the second filter come from the whole registry, so
					// some are unknown to the pre-filtered one - deliberately
					if rapid.Bool().Draw(rt, "restrict") {
						use = r.Names()
					}
				}
			}
		}
		c.Opts = drawAnyFilter(rt, use)
		rec.Eval()
		sig, msg := judgeC08(rec, c)
		if msg != "" {
			fail(rt, rec, "c08", sig, msg, c)
		}
		if rec.WantSample() && rapid.IntRange(0, 50).Draw(rt, "smp") == 0 {
			rec.Sample(c)
		}
	})
	// lints of all three kinds registered late - one at a time, after Names() and Filter() have been used
	// thousands of times - are filtered like any other ("certificate, CRL and OCSP alike"); the model reads
	// the registry's per-kind listings, so it knows them
	for i := range lateKinds {
		registerLate(i + 1)
		var late []string
		for j := 0; j <= i; j++ {
			late = append(late, lateName(j))
		}
		for _, c := range []c08Case{{Opts: engine.FilterSpec{IncludeNames: []string{lateName(i)}}}, {Opts: engine.FilterSpec{ExcludeNames: []string{"e_ca_country_name_missing"}}},
			{Opts: engine.FilterSpec{IncludeSources: []string{"Community", "RFC5280", "RFC6960"}}}, {Opts: engine.FilterSpec{IncludeNames: late}}, {Opts: engine.FilterSpec{ExcludeNames: late}},
			{Opts: engine.FilterSpec{ExcludeSources: []string{"Unknown"}}}, {Opts: engine.FilterSpec{IncludeSources: []string{"Unknown"}}}, {Opts: engine.FilterSpec{ExcludeSources: []string{""}}}, {Opts: engine.FilterSpec{IncludeSources: []string{"", "RFC6960"}}}} {
			c.ProbeN, c.Late = 7, i+1
			rec.Eval()
			rec.Class("late_registration")
			if sig, msg := judgeC08(rec, c); msg != "" {
				if rec.Report("c08", sig, msg, c) {
					t.Fatalf("c08 after late registration #%d (%s): %s: %s", i, lateName(i), sig, msg)
				}
			}
		}
	}
	namesLate := lint.GlobalRegistry().Names()
	rapidRun(t, "filter-after-late-registration", perShard(stats.Scale(2000, 50000)), func(rt *rapid.T) {
		c := c08Case{ProbeN: rapid.IntRange(1, 1000000).Draw(rt, "probe"), Late: len(lateKinds), Opts: drawAnyFilter(rt, namesLate)}
		if rapid.Bool().Draw(rt, "mentionlate") {
			c.Opts.IncludeNames = append(c.Opts.IncludeNames, lateName(rapid.IntRange(0, len(lateKinds)-1).Draw(rt, "late")))
			c.Opts.NameFilter = nil
		}
		rec.Eval()
		if sig, msg := judgeC08(rec, c); msg != "" {
			fail(rt, rec, "c08", sig, msg, c)
		}
	})
}

// lateLint is a do-nothing lint of any kind, registered through the public API after the registry has
// long been in use (Names(), Filter() called thousands of times).
type lateLint struct{}

func (lateLint) CheckApplies(*zx509Cert) bool        { return false }
func (lateLint) Execute(*zx509Cert) *lint.LintResult { return &lint.LintResult{Status: lint.Pass} }

type lateCRL struct{}

func (lateCRL) CheckApplies(*zx509CRL) bool        { return false }
func (lateCRL) Execute(*zx509CRL) *lint.LintResult { return &lint.LintResult{Status: lint.Pass} }

type lateOCSP struct{}

func (lateOCSP) CheckApplies(*ocspResp) bool        { return false }
func (lateOCSP) Execute(*ocspResp) *lint.LintResult { return &lint.LintResult{Status: lint.Pass} }

var (
	lateMu    sync.Mutex
	lateCount int
)

// lateKinds is the order in which late lints are registered, one at a time; after each registration the
// registry is listed and filtered again (every kind once right after a use of the registry, in two orders).
var lateKinds = []string{"ocsp", "crl", "cert", "ocsp", "cert", "crl", "cert", "crl", "ocsp", "crl", "ocsp"}

// late names sort alternately before and after every built-in name ("e_a..." < "e_b..." ... < "w_..." < "w_zz...")
func lateName(i int) string {
	// the last two are named like a built-in certificate lint but for the severity prefix, and are of another kind
	switch i {
	case 9:
		return "w_ca_country_name_missing"
	case 10:
		return "n_ca_country_name_missing"
	}
	if i%2 == 0 {
		return fmt.Sprintf("e_a_verif_late_%d_%s", i, lateKinds[i])
	}
	return fmt.Sprintf("w_zz_verif_late_%d_%s", i, lateKinds[i])
}

// registerLate makes sure the first n late lints are registered in the global registry of this process,
// using the registry (Names, Filter) between registrations as a long-running program would.
func registerLate(n int) {
	lateMu.Lock()
	defer lateMu.Unlock()
	g := lint.GlobalRegistry()
	for ; lateCount < n && lateCount < len(lateKinds); lateCount++ {
		// (the refused ones first: the registration that succeeds must follow a use of the registry with nothing in
		// between - a refusal may well drop what an accessor keeps, and with it the evidence)
		refusedRegistrations(lateCount)
		useRegistryFully(g)
		// sources chosen so that kinds share a source that no certificate lint of a small view need have
		// (an OCSP lint citing the BRs next to the BR CRL lints, a CRL lint citing RFC 6960 next to the OCSP lint)
		md := lint.LintMetadata{Name: lateName(lateCount), Description: "late", Source: []lint.LintSource{lint.CABFBaselineRequirements, lint.RFC6960, lint.Community, lint.RFC5280, lint.AppleRootStorePolicy, lint.MozillaRootStorePolicy, "", "", ""}[lateCount%9]} // the last three carry no source at all
		switch lateKinds[lateCount] {
		case "cert":
			lint.RegisterCertificateLint(&lint.CertificateLint{LintMetadata: md, Lint: func() lint.CertificateLintInterface { return lateLint{} }})
		case "crl":
			lint.RegisterRevocationListLint(&lint.RevocationListLint{LintMetadata: md, Lint: func() lint.RevocationListLintInterface { return lateCRL{} }})
		default:
			lint.RegisterOcspResponseLint(&lint.OcspResponseLint{LintMetadata: md, Lint: func() lint.OcspResponseLintInterface { return lateOCSP{} }})
		}
	}
}

// useRegistryFully makes every kind of use of a registry that a long-running program may make between two
// registrations - listing, names, sources, per-kind lists and lookups, a filter, the JSON listing, the example
// configuration, and a lint run of every kind - so that whatever an accessor keeps for next time has been built
// before the next lint is added.
func useRegistryFully(g lint.Registry) {
	_ = g.Names()
	_ = g.Sources()
	_, _ = g.Filter(lint.FilterOptions{ExcludeNames: []string{"e_ca_country_name_missing"}})
	_, _ = g.Filter(lint.FilterOptions{IncludeSources: lint.SourceList{lint.RFC5280, lint.RFC6960}})
	for _, n := range []string{"e_ca_country_name_missing", "e_crl_has_next_update", "e_this_update_not_after_produced_at"} {
		_ = g.CertificateLints().ByName(n)
		_ = g.RevocationListLints().ByName(n)
		_ = g.OcspResponseLints().ByName(n)
		_ = g.ByName(n) //nolint:staticcheck
	}
	for _, s := range g.Sources() {
		_ = g.CertificateLints().BySource(s)
		_ = g.RevocationListLints().BySource(s)
		_ = g.OcspResponseLints().BySource(s)
		_ = g.BySource(s) //nolint:staticcheck
	}
	_, _, _ = g.CertificateLints().Lints(), g.RevocationListLints().Lints(), g.OcspResponseLints().Lints()
	_, _, _ = g.CertificateLints().Names(), g.RevocationListLints().Names(), g.OcspResponseLints().Names()
	_, _, _ = g.CertificateLints().Sources(), g.RevocationListLints().Sources(), g.OcspResponseLints().Sources()
	var b bytes.Buffer
	g.WriteJSON(&b)
	_, _ = g.DefaultConfiguration()
	_ = g.GetConfiguration()
	co := gen.LoadCorpus()
	func() {
		defer func() { _ = recover() }()
		if len(co.Certs) > 0 {
			if c, ok := gen.ParseCert(co.Certs[0].DER); ok {
				_ = zlint.LintCertificateEx(c, g)
				_ = zlint.LintCertificate(c)
			}
		}
		if len(co.CRLs) > 0 {
			if c, ok := gen.ParseCRL(co.CRLs[0].DER); ok {
				_ = zlint.LintRevocationListEx(c, g)
				_ = zlint.LintRevocationList(c)
			}
		}
		if len(co.OCSPs) > 0 {
			if c, ok := gen.ParseOCSP(co.OCSPs[0].DER); ok {
				_ = zlint.LintOcspResponseEx(c, g)
				_ = zlint.LintOcspResponse(c)
			}
		}
	}()
}

// refusedRegistrations: registrations the library refuses (it panics: a name that is taken - offered for every
// kind, under a source that kind has not seen -, an empty name, no constructor) are part of a registry's life
// too. They must leave no trace; the consistency checks that follow every addition see to that.
func refusedRegistrations(step int) {
	try := func(f func()) {
		defer func() { _ = recover() }()
		f()
	}
	src := lint.LintSource([]string{"verif_refused_a", "verif_refused_b", string(lint.AppleRootStorePolicy), string(lint.EtsiEsi)}[step%4])
	// (uniqueness is per kind: the same name may be registered once for each kind, so each taken name is offered to its own kind)
	try(func() {
		lint.RegisterCertificateLint(&lint.CertificateLint{LintMetadata: lint.LintMetadata{Name: "e_ca_country_name_missing", Description: "refused", Source: src}, Lint: func() lint.CertificateLintInterface { return lateLint{} }})
	})
	try(func() {
		lint.RegisterRevocationListLint(&lint.RevocationListLint{LintMetadata: lint.LintMetadata{Name: "e_crl_has_next_update", Description: "refused", Source: src}, Lint: func() lint.RevocationListLintInterface { return lateCRL{} }})
	})
	try(func() {
		lint.RegisterOcspResponseLint(&lint.OcspResponseLint{LintMetadata: lint.LintMetadata{Name: "e_this_update_not_after_produced_at", Description: "refused", Source: src}, Lint: func() lint.OcspResponseLintInterface { return lateOCSP{} }})
	})
	try(func() {
		lint.RegisterCertificateLint(&lint.CertificateLint{LintMetadata: lint.LintMetadata{Name: "", Description: "refused", Source: src}, Lint: func() lint.CertificateLintInterface { return lateLint{} }})
	})
	try(func() {
		lint.RegisterRevocationListLint(&lint.RevocationListLint{LintMetadata: lint.LintMetadata{Name: fmt.Sprintf("e_verif_refused_nil_%d", step), Description: "refused", Source: src}})
	})
	try(func() {
		lint.RegisterOcspResponseLint(&lint.OcspResponseLint{LintMetadata: lint.LintMetadata{Name: "", Description: "refused", Source: src}, Lint: func() lint.OcspResponseLintInterface { return lateOCSP{} }})
	})
}

func init() {
	registerReplayer("c08", func(rec *stats.Rec, raw json.RawMessage) (string, string) {
		var c c08Case
		if err := json.Unmarshal(raw, &c); err != nil {
			return "decode", err.Error()
		}
		return judgeC08(rec, c)
	})
}
