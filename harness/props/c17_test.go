package props

import (
	"encoding/json"
	"fmt"
	"sort"
	"strings"
	"testing"

	"github.com/zmap/zlint/v3/lint"
	"pgregory.net/rapid"

	"verifharness/engine"
	"verifharness/gen"
	"verifharness/stats"

	dt "verifharness/dertree"
)

type c17Case struct {
	DER   []byte   `json:"der"`  // reference order
	DER2  []byte   `json:"der2"` // permuted
	What  string   `json:"what"` // san | extensions
	Base  string   `json:"base,omitempty"`
	Names []string `json:"names,omitempty"`
	Perm  []int    `json:"perm,omitempty"`
}

func judgeC17(rec *stats.Rec, c c17Case) (string, string) {
	c1, ok1 := gen.ParseCert(c.DER)
	c2, ok2 := gen.ParseCert(c.DER2)
	if !ok1 || !ok2 {
		if ok1 != ok2 {
			rec.Class("parser_order_sensitive") // the parser's business, not zlint's
		} else {
			rec.Class("parse_rejected")
		}
		return "", ""
	}
	if c1.SelfSigned != c2.SelfSigned {
		rec.Class("harness_fault_selfsigned")
		return "", ""
	}
	r1 := engine.Execute(engine.Case{Kind: gen.Cert, DER: c.DER}, false)
	r2 := engine.Execute(engine.Case{Kind: gen.Cert, DER: c.DER2}, false)
	if r1.RS == nil || r2.RS == nil {
		rec.Class("void")
		return "", ""
	}
	v1, v2 := engine.Verdicts(r1.RS), engine.Verdicts(r2.RS)
	names := make([]string, 0, len(v1))
	for n := range v1 {
		names = append(names, n)
	}
	sort.Strings(names)
	var firstSig, firstMsg string
	offending := false
	for _, n := range names {
		if v1[n].Status > lint.Pass || v2[n].Status > lint.Pass {
			offending = true
		}
		if v1[n].Status != v2[n].Status {
			a, b := v1[n].Status.String(), v2[n].Status.String()
			if a > b {
				a, b = b, a
			}
			sig := fmt.Sprintf("%s-order|%s|%s-vs-%s", c.What, n, a, b)
			if stats.IsKnown("C17", sig) {
				rec.Known(sig)
				continue
			}
			if firstMsg == "" {
				firstSig = sig
				firstMsg = fmt.Sprintf("re-ordering %s changes %s from %s to %s (names %v, perm %v)", c.What, n, v1[n].Status, v2[n].Status, c.Names, c.Perm)
			}
		}
	}
	if firstMsg == "" && offending {
		rec.NT(stats.Hash(c.DER, c.DER2))
		rec.Class("nontrivial_" + c.What)
	}
	return firstSig, firstMsg
}

func isIdentity(p []int) bool {
	for i, x := range p {
		if i != x {
			return false
		}
	}
	return true
}

func TestC17(t *testing.T) {
	rec := newRec(t, "C17")
	co := gen.LoadCorpus()
	// bases with a SAN, non-CA preferred
	var sanBases []int
	for i, o := range co.Certs {
		if c, ok := gen.ParseCert(o.DER); ok && len(c.DNSNames) > 0 {
			sanBases = append(sanBases, i)
		}
	}
	rapidRun(t, "san", perShard(stats.Scale(7000, 280000)), func(rt *rapid.T) {
		var o gen.Obj
		if rapid.IntRange(0, 4).Draw(rt, "anybase") == 0 {
			o = co.Certs[rapid.IntRange(0, len(co.Certs)-1).Draw(rt, "base")]
		} else {
			o = co.Certs[sanBases[rapid.IntRange(0, len(sanBases)-1).Draw(rt, "sanbase")]]
		}
		pc, _ := gen.ParseCert(o.DER)
		n := rapid.IntRange(2, 8).Draw(rt, "n")
		gns := make([]*dt.Node, n)
		desc := make([]string, n)
		for i := range gns {
			gns[i], desc[i] = gen.DrawGN(rt)
		}
		perm := gen.DrawPerm(rt, n)
		if isIdentity(perm) {
			rec.Class("identity_perm")
			return
		}
		// the common name (same on both sides): as in the base, removed, a copy of one of the dNSName
		// entries, a letter-case variant of one, or unrelated
		cnMode := rapid.IntRange(0, 5).Draw(rt, "cnmode")
		var cnVal []byte
		if cnMode >= 2 && cnMode <= 4 {
			var dns []string
			for _, d := range desc {
				if strings.HasPrefix(d, "dns:") {
					dns = append(dns, strings.TrimPrefix(d, "dns:"))
				}
			}
			if len(dns) == 0 {
				cnMode = 0
			} else {
				pick := dns[rapid.IntRange(0, len(dns)-1).Draw(rt, "cnpick")]
				switch cnMode {
				case 3:
					pick = strings.ToUpper(pick)
				case 4:
					pick = strings.ToLower(pick)
				}
				cnVal = []byte(pick)
			}
		}
		if cnMode == 5 {
			cnVal = []byte("unrelated.example.org")
		}
		build := func(order []*dt.Node) ([]byte, bool) {
			v, err := gen.ViewCert(o.DER)
			if err != nil {
				return nil, false
			}
			cl := make([]*dt.Node, len(order))
			for i := range order {
				cl[i] = order[i].Clone()
			}
			crit := false
			if x := v.Ext(gen.OIDExtSAN...); x != nil && len(x.Children) == 3 {
				crit = true
			}
			v.SetSAN(crit, cl...)
			if cnMode == 1 {
				v.RemoveCN()
			} else if cnVal != nil {
				v.SetCN(cnVal, 12)
			}
			if pc != nil && pc.SelfSigned {
				v.SelfSign()
			}
			return v.DER(), true
		}
		// CN: leave, empty, or equal to a SAN entry (drawn once, applied to both)
		d1, ok1 := build(gns)
		d2, ok2 := build(gen.Permute(gns, perm))
		if !ok1 || !ok2 {
			return
		}
		c := c17Case{DER: d1, DER2: d2, What: "san", Base: o.Name, Names: append(append([]string{}, desc...), fmt.Sprintf("cn-mode=%d:%s", cnMode, cnVal)), Perm: perm}
		rec.Eval()
		if sig, msg := judgeC17(rec, c); msg != "" {
			fail(rt, rec, "c17", sig, msg, c)
		}
		if rec.WantSample() && rapid.IntRange(0, 80).Draw(rt, "smp") == 0 {
			rec.Sample(map[string]interface{}{"what": "san", "base": o.Name, "names": desc, "perm": perm})
		}
	})
	// enumerated: every unordered pair {X, Y} of a fixed pool of GeneralNames (every arm; compliant,
	// offending and unparseable entries) as SAN [X, Y] against [Y, X], on a subscriber certificate that
	// is home to most name lints - a finding about one entry must not depend on which side the other
	// sits. dNSName pairs additionally with the common name set to X, to Y and removed.
	{
		pool, pdesc := gen.GNPool()
		var base *gen.Obj
		bestN := -1
		hm := homeObjects()
		cntHome := map[int]int{}
		for _, ln := range []string{"e_dnsname_not_valid_tld", "e_subject_common_name_not_exactly_from_san", "e_subject_contains_reserved_arpa_ip", "e_dnsname_bad_character_in_label",
			"e_ext_san_uri_host_not_fqdn_or_ip", "e_dnsname_underscore_in_sld", "e_san_dns_name_onion_invalid", "e_ext_san_rfc822_format_invalid", "e_subject_common_name_not_from_san"} {
			for _, i := range hm[ln] {
				if homeClass[ln][i] >= 1 {
					cntHome[i]++
				}
			}
		}
		for _, i := range sanBases {
			if pc, ok := gen.ParseCert(co.Certs[i].DER); ok && !pc.IsCA && !pc.SelfSigned && cntHome[i] > bestN {
				bestN = cntHome[i]
				base = &co.Certs[i]
			}
		}
		k, done := 0, 0
		if base != nil {
			mk := func(a, b *dt.Node, cn int) ([]byte, bool) {
				v, err := gen.ViewCert(base.DER)
				if err != nil {
					return nil, false
				}
				v.SetSAN(false, a.Clone(), b.Clone())
				switch cn {
				case 1:
					v.RemoveCN()
				case 2:
					v.SetCN(a.Content, 12)
				case 3:
					v.SetCN(b.Content, 12)
				}
				return v.DER(), true
			}
			for i := 0; i < len(pool); i++ {
				for j := i + 1; j < len(pool); j++ {
					bothDNS := strings.HasPrefix(pdesc[i], "dns:") && strings.HasPrefix(pdesc[j], "dns:")
					modes := []int{0}
					if bothDNS {
						modes = []int{1, 2, 3}
					}
					for _, cn := range modes {
						k++
						if !stats.Mine(k) {
							continue
						}
						d1, ok1 := mk(pool[i], pool[j], cn)
						// the common name refers to the same entry on both sides
						cn2 := cn
						if cn == 2 {
							cn2 = 3
						} else if cn == 3 {
							cn2 = 2
						}
						d2, ok2 := mk(pool[j], pool[i], cn2)
						if !ok1 || !ok2 {
							continue
						}
						done++
						c := c17Case{DER: d1, DER2: d2, What: "san", Base: base.Name, Names: []string{pdesc[i], pdesc[j], fmt.Sprintf("cn-mode=%d", cn)}, Perm: []int{1, 0}}
						rec.Eval()
						rec.Class("san_pairs_enumerated")
						if sig, msg := judgeC17(rec, c); msg != "" {
							if rec.Report("c17", sig, msg, c) {
								t.Fatalf("c17 pair [%s, %s] cn-mode %d on %s: %s: %s", pdesc[i], pdesc[j], cn, base.Name, sig, msg)
							}
						}
					}
				}
			}
			rec.Note("san-pairs", fmt.Sprintf("pool of %d GeneralNames, base %s, %d pair cases in this shard", len(pool), base.Name, done))
		}
		// the same on an S/MIME subscriber certificate that names a mailbox in its subject: pairs in which at
		// least one entry is an e-mail-like name - rfc822Names, and SmtpUTF8Mailbox otherNames that are well
		// formed (the subject's mailbox, another one), not decodable (OCTET STRING, INTEGER, trailing
		// octets) or empty
		var sbase *gen.Obj
		var sMail string
		for _, ln := range []string{"e_mailbox_address_shall_contain_an_rfc822_name", "e_smime_legacy_aia_shall_have_one_http"} {
			for _, i := range hm[ln] {
				pc, ok := gen.ParseCert(co.Certs[i].DER)
				if !ok || homeClass[ln][i] < 1 || pc.SelfSigned {
					continue
				}
				addr := ""
				if len(pc.Subject.EmailAddress) > 0 {
					addr = pc.Subject.EmailAddress[0]
				} else if strings.Contains(pc.Subject.CommonName, "@") {
					addr = pc.Subject.CommonName
				}
				if addr != "" {
					sbase, sMail = &co.Certs[i], addr
					break
				}
			}
			if sbase != nil {
				break
			}
		}
		if sbase != nil {
			smtp := []int{1, 3, 6, 1, 5, 5, 7, 8, 9}
			raw := func(b ...byte) *dt.Node {
				return dt.Cons(2, 0, dt.OID(smtp...), &dt.Node{Class: 2, Constructed: true, Tag: 0, Content: b})
			}
			mailPool := []*dt.Node{gen.GNEmail([]byte(sMail)), gen.GNOther(smtp, dt.Prim(0, 12, []byte(sMail))), gen.GNOther(smtp, dt.Prim(0, 12, []byte("other@example.org"))),
				gen.GNOther(smtp, dt.Prim(0, 4, []byte(sMail))), gen.GNOther(smtp, dt.Prim(0, 2, []byte{5})), gen.GNOther(smtp, dt.Prim(0, 12, []byte{})),
				raw(0x0c, 0x01, 'a', 0x00), raw(0x0c), gen.GNOther(smtp, dt.Prim(0, 12, []byte(strings.ToUpper(sMail)))), gen.GNEmail([]byte(strings.ToUpper(sMail))),
				gen.GNOther([]int{1, 3, 6, 1, 4, 1, 311, 20, 2, 3}, dt.Prim(0, 12, []byte(sMail)))}
			mailDesc := []string{"rfc822:subject-mailbox", "smtpUTF8:subject-mailbox", "smtpUTF8:other", "smtpUTF8:OCTET-STRING", "smtpUTF8:INTEGER", "smtpUTF8:empty",
				"smtpUTF8:trailing-octet", "smtpUTF8:truncated", "smtpUTF8:subject-mailbox-uppercase", "rfc822:subject-mailbox-uppercase", "upn:subject-mailbox"}
			for i, d := range pdesc {
				if strings.HasPrefix(d, "email:") || strings.HasPrefix(d, "other:") || strings.HasPrefix(d, "dirName") {
					mailPool, mailDesc = append(mailPool, pool[i]), append(mailDesc, d)
				}
			}
			nm := len(mailPool)
			all, alld := append(append([]*dt.Node{}, mailPool...), pool...), append(append([]string{}, mailDesc...), pdesc...)
			mk := func(a, b *dt.Node) ([]byte, bool) {
				v, err := gen.ViewCert(sbase.DER)
				if err != nil {
					return nil, false
				}
				v.SetSAN(false, a.Clone(), b.Clone())
				return v.DER(), true
			}
			sdone := 0
			for i := 0; i < nm; i++ {
				for j := i + 1; j < len(all); j++ {
					k++
					if !stats.Mine(k) {
						continue
					}
					d1, ok1 := mk(all[i], all[j])
					d2, ok2 := mk(all[j], all[i])
					if !ok1 || !ok2 {
						continue
					}
					sdone++
					c := c17Case{DER: d1, DER2: d2, What: "san", Base: sbase.Name, Names: []string{alld[i], alld[j]}, Perm: []int{1, 0}}
					rec.Eval()
					rec.Class("san_pairs_enumerated_smime")
					if sig, msg := judgeC17(rec, c); msg != "" {
						if rec.Report("c17", sig, msg, c) {
							t.Fatalf("c17 pair [%s, %s] on %s: %s: %s", alld[i], alld[j], sbase.Name, sig, msg)
						}
					}
				}
			}
			rec.Note("san-pairs-smime", fmt.Sprintf("%d e-mail-like entries x %d entries on %s (subject mailbox %s), %d pair cases in this shard", nm, len(all), sbase.Name, sMail, sdone))
		}
		rec.Exhaustive("all unordered pairs of the GeneralName pool as a two-entry SAN in both orders", base != nil)
	}
	// enumerated: every corpus certificate x five fixed permutations of its extension list
	// (so each lint sees the extension it reads at the first, last and a middle position)
	fixedPerms := func(n int) [][]int {
		id := make([]int, n)
		for i := range id {
			id[i] = i
		}
		rev := make([]int, n)
		for i := range rev {
			rev[i] = n - 1 - i
		}
		rotL := append(append([]int{}, id[1:]...), id[0])
		rotR := append([]int{id[n-1]}, id[:n-1]...)
		sw0 := append([]int{}, id...)
		sw0[0], sw0[1] = sw0[1], sw0[0]
		swL := append([]int{}, id...)
		swL[n-1], swL[n-2] = swL[n-2], swL[n-1]
		return [][]int{rev, rotL, rotR, sw0, swL}
	}
	for ci, o := range co.Certs {
		if !stats.Mine(ci) {
			continue
		}
		v0, err := gen.ViewCert(o.DER)
		pc, ok := gen.ParseCert(o.DER)
		if err != nil || !ok || v0.Extensions() == nil || len(v0.Extensions().Children) < 2 {
			continue
		}
		exts := v0.Extensions().Children
		seen := map[string]bool{}
		dup := false
		for _, x := range exts {
			if len(x.Children) == 0 {
				dup = true
				break
			}
			k := string(x.Children[0].Content)
			dup = dup || seen[k]
			seen[k] = true
		}
		if dup {
			continue
		}
		ref := o.DER
		if pc.SelfSigned {
			v0.SelfSign()
			ref = v0.DER()
		}
		for pi, perm := range fixedPerms(len(exts)) {
			if isIdentity(perm) {
				continue
			}
			v, _ := gen.ViewCert(o.DER)
			v.Extensions().Children = gen.Permute(v.Extensions().Children, perm)
			if pc.SelfSigned {
				v.SelfSign()
			}
			c := c17Case{DER: ref, DER2: v.DER(), What: "extensions", Base: o.Name, Perm: perm, Names: []string{fmt.Sprintf("fixed-permutation-%d", pi)}}
			rec.Eval()
			rec.Class("extensions_enumerated")
			if sig, msg := judgeC17(rec, c); msg != "" {
				if rec.Report("c17", sig, msg, c) {
					t.Fatalf("c17 %s perm %v: %s: %s", o.Name, perm, sig, msg)
				}
			}
		}
	}
	rec.Exhaustive("extension list of every corpus certificate x {reverse, rotate left, rotate right, swap first two, swap last two}", true)
	// enumerated: extension crossover. For every extension type of the corpus two certificates that carry
	// it; into each, every donor extension (up to three distinct values per type, critical and not) of a type
	// the certificate does not have yet is inserted once as the first and once as the last extension - a
	// lint that reads two related extensions must not care which of them it meets first.
	{
		type donor struct {
			oid string
			n   *dt.Node
		}
		var donors []donor
		perOID := map[string]int{}
		seenVal := map[string]bool{}
		carriers := map[string][]int{}
		for i, o := range co.Certs {
			v, err := gen.ViewCert(o.DER)
			if err != nil || v.Extensions() == nil {
				continue
			}
			for _, x := range v.Extensions().Children {
				if len(x.Children) < 2 {
					continue
				}
				k := string(x.Children[0].Content)
				if len(carriers[k]) < 2 {
					carriers[k] = append(carriers[k], i)
				}
				ev := string(x.Encode())
				if perOID[k] < 3 && !seenVal[ev] && len(ev) < 600 {
					seenVal[ev] = true
					perOID[k]++
					donors = append(donors, donor{k, x})
				}
			}
		}
		baseSet := map[int]bool{}
		var baseIdx []int
		var oids []string
		for k := range carriers {
			oids = append(oids, k)
		}
		sort.Strings(oids)
		for _, k := range oids {
			for _, i := range carriers[k] {
				if !baseSet[i] {
					baseSet[i] = true
					baseIdx = append(baseIdx, i)
				}
			}
		}
		sort.Ints(baseIdx)
		k, done := 0, 0
		for _, bi := range baseIdx {
			o := co.Certs[bi]
			pc, ok := gen.ParseCert(o.DER)
			v0, err := gen.ViewCert(o.DER)
			if !ok || err != nil || v0.Extensions() == nil {
				continue
			}
			has := map[string]bool{}
			dup := false
			for _, x := range v0.Extensions().Children {
				if len(x.Children) > 0 {
					dup = dup || has[string(x.Children[0].Content)]
					has[string(x.Children[0].Content)] = true
				}
			}
			if dup {
				continue
			}
			for di, d := range donors {
				if has[d.oid] {
					continue
				}
				k++
				if !stats.Mine(k) {
					continue
				}
				mk := func(front bool) []byte {
					v, _ := gen.ViewCert(o.DER)
					e := v.Extensions()
					if front {
						e.Children = append([]*dt.Node{d.n.Clone()}, e.Children...)
					} else {
						e.Children = append(e.Children, d.n.Clone())
					}
					if pc.SelfSigned {
						v.SelfSign()
					}
					return v.DER()
				}
				done++
				c := c17Case{DER: mk(false), DER2: mk(true), What: "extensions", Base: o.Name, Names: []string{fmt.Sprintf("donor extension #%d (%v) last / first", di, dt.DecodeOID([]byte(d.oid)))}}
				rec.Eval()
				rec.Class("extension_crossover_enumerated")
				if sig, msg := judgeC17(rec, c); msg != "" {
					if rec.Report("c17", sig, msg, c) {
						t.Fatalf("c17 %s + donor #%d: %s: %s", o.Name, di, sig, msg)
					}
				}
			}
		}
		// decoys: next to each extension of a carrier, an extension whose identifier is a *relative* of it - first arc
		// changed, last arc +-1, an arc shifted by a machine-word multiple - with another value (an empty SEQUENCE, not
		// critical), once in front of everything and once behind. Looking extensions up by identifier must not turn
		// into looking them up by position, however identifiers are compared.
		for _, bi := range baseIdx {
			o := co.Certs[bi]
			pc, ok := gen.ParseCert(o.DER)
			v0, err := gen.ViewCert(o.DER)
			if !ok || err != nil || v0.Extensions() == nil {
				continue
			}
			has := map[string]bool{}
			dup := false
			for _, x := range v0.Extensions().Children {
				if len(x.Children) > 0 {
					dup = dup || has[string(x.Children[0].Content)]
					has[string(x.Children[0].Content)] = true
				}
			}
			if dup {
				continue
			}
			for xi, x := range v0.Extensions().Children {
				if len(x.Children) < 2 {
					continue
				}
				arcs := dt.DecodeOID(x.Children[0].Content)
				if len(arcs) < 3 {
					continue
				}
				var rel [][]int
				for a := 0; a <= 2; a++ {
					if a != arcs[0] && (a == 2 || arcs[1] < 40) {
						r := append([]int{}, arcs...)
						r[0] = a
						rel = append(rel, r)
					}
				}
				for _, d := range []int{-1, 1} {
					r := append([]int{}, arcs...)
					if r[len(r)-1]+d >= 0 {
						r[len(r)-1] += d
						rel = append(rel, r)
					}
				}
				if ar := gen.ArithRelatives(arcs); len(ar) > 0 {
					rel = append(rel, ar[0], ar[len(ar)-1])
				}
				rel = append(rel, append(append([]int{}, arcs...), 0), arcs[:len(arcs)-1])
				for ri, r := range rel {
					decoy := gen.MakeExt(r, false, dt.Seq())
					if has[string(decoy.Children[0].Content)] {
						continue
					}
					k++
					if !stats.Mine(k) {
						continue
					}
					mk := func(front bool) []byte {
						v, _ := gen.ViewCert(o.DER)
						e := v.Extensions()
						if front {
							e.Children = append([]*dt.Node{decoy.Clone()}, e.Children...)
						} else {
							e.Children = append(e.Children, decoy.Clone())
						}
						if pc.SelfSigned {
							v.SelfSign()
						}
						return v.DER()
					}
					done++
					c := c17Case{DER: mk(false), DER2: mk(true), What: "extensions", Base: o.Name, Names: []string{fmt.Sprintf("decoy %v (relative #%d of extension #%d %v) last / first", r, ri, xi, arcs)}}
					rec.Eval()
					rec.Class("extension_decoys_enumerated")
					if sig, msg := judgeC17(rec, c); msg != "" {
						if rec.Report("c17", sig, msg, c) {
							t.Fatalf("c17 %s + decoy %v: %s: %s", o.Name, r, sig, msg)
						}
					}
				}
			}
		}
		rec.Note("extension-crossover", fmt.Sprintf("%d carrier certificates x %d donor extensions (%d extension types); %d cases in this shard", len(baseIdx), len(donors), len(oids), done))
		rec.Exhaustive("extension crossover (donor first vs last)", true)
	}
	rapidRun(t, "extensions", perShard(stats.Scale(4000, 120000)), func(rt *rapid.T) {
		cc := gen.DrawCert(rt, 2, true)
		v, err := gen.ViewCert(cc.DER)
		if err != nil || v.Extensions() == nil {
			rec.Class("no_extensions")
			return
		}
		pc, ok := gen.ParseCert(cc.DER)
		if !ok {
			rec.Class("parse_rejected")
			return
		}
		exts := v.Extensions().Children
		seen := map[string]bool{}
		for _, x := range exts {
			if len(x.Children) == 0 {
				return
			}
			k := string(x.Children[0].Content)
			if seen[k] {
				rec.Class("duplicate_extension_skipped")
				return
			}
			seen[k] = true
		}
		if len(exts) < 2 {
			return
		}
		perm := gen.DrawPerm(rt, len(exts))
		if isIdentity(perm) {
			return
		}
		ref := cc.DER
		if pc.SelfSigned {
			v0, _ := gen.ViewCert(cc.DER)
			v0.SelfSign()
			ref = v0.DER()
		}
		v.Extensions().Children = gen.Permute(exts, perm)
		if pc.SelfSigned {
			v.SelfSign()
		}
		var oids []string
		for _, x := range exts {
			oids = append(oids, strings.Trim(strings.Join(strings.Fields(fmt.Sprint(dt.DecodeOID(x.Children[0].Content))), "."), "[]"))
		}
		c := c17Case{DER: ref, DER2: v.DER(), What: "extensions", Base: cc.Base, Names: oids, Perm: perm}
		rec.Eval()
		if sig, msg := judgeC17(rec, c); msg != "" {
			fail(rt, rec, "c17", sig, msg, c)
		}
		if rec.WantSample() && rapid.IntRange(0, 80).Draw(rt, "smp") == 0 {
			rec.Sample(map[string]interface{}{"what": "extensions", "base": cc.Base, "ops": cc.Ops, "oids": oids, "perm": perm})
		}
	})
}

func init() {
	registerReplayer("c17", func(rec *stats.Rec, raw json.RawMessage) (string, string) {
		var c c17Case
		if err := json.Unmarshal(raw, &c); err != nil {
			return "decode", err.Error()
		}
		return judgeC17(rec, c)
	})
}
