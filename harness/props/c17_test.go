package props

import (
	"encoding/json"
	"fmt"
	"sort"
	"strings"
	"testing"

	"github.com/zmap/zlint/v3/lint"
	"pgregory.net/rapid"

	"verifharness/engine"
	"verifharness/gen"
	"verifharness/stats"

	dt "verifharness/dertree"
)

type c17Case struct {
	DER   []byte   `json:"der"`  // reference order
	DER2  []byte   `json:"der2"` // permuted
	What  string   `json:"what"` // san | extensions
	Base  string   `json:"base,omitempty"`
	Names []string `json:"names,omitempty"`
	Perm  []int    `json:"perm,omitempty"`
}

func judgeC17(rec *stats.Rec, c c17Case) (string, string) {
	c1, ok1 := gen.ParseCert(c.DER)
	c2, ok2 := gen.ParseCert(c.DER2)
	if !ok1 || !ok2 {
		if ok1 != ok2 {
			rec.Class("parser_order_sensitive") // the parser's business, not zlint's
		} else {
			rec.Class("parse_rejected")
		}
		return "", ""
	}
	if c1.SelfSigned != c2.SelfSigned {
		rec.Class("harness_fault_selfsigned")
		return "", ""
	}
	r1 := engine.Execute(engine.Case{Kind: gen.Cert, DER: c.DER}, false)
	r2 := engine.Execute(engine.Case{Kind: gen.Cert, DER: c.DER2}, false)
	if r1.RS == nil || r2.RS == nil {
		rec.Class("void")
		return "", ""
	}
	v1, v2 := engine.Verdicts(r1.RS), engine.Verdicts(r2.RS)
	names := make([]string, 0, len(v1))
	for n := range v1 {
		names = append(names, n)
	}
	sort.Strings(names)
	var firstSig, firstMsg string
	offending := false
	for _, n := range names {
		if v1[n].Status > lint.Pass || v2[n].Status > lint.Pass {
			offending = true
		}
		if v1[n].Status != v2[n].Status {
			a, b := v1[n].Status.String(), v2[n].Status.String()
			if a > b {
				a, b = b, a
			}
			sig := fmt.Sprintf("%s-order|%s|%s-vs-%s", c.What, n, a, b)
			if stats.IsKnown("C17", sig) {
				rec.Known(sig)
				continue
			}
			if firstMsg == "" {
				firstSig = sig
				firstMsg = fmt.Sprintf("re-ordering %s changes %s from %s to %s (names %v, perm %v)", c.What, n, v1[n].Status, v2[n].Status, c.Names, c.Perm)
			}
		}
	}
	if firstMsg == "" && offending {
		rec.NT(stats.Hash(c.DER, c.DER2))
		rec.Class("nontrivial_" + c.What)
	}
	return firstSig, firstMsg
}

func isIdentity(p []int) bool {
	for i, x := range p {
		if i != x {
			return false
		}
	}
	return true
}

func TestC17(t *testing.T) {
	rec := newRec(t, "C17")
	co := gen.LoadCorpus()
	// bases with a SAN, non-CA preferred
	var sanBases []int
	for i, o := range co.Certs {
		if c, ok := gen.ParseCert(o.DER); ok && len(c.DNSNames) > 0 {
			sanBases = append(sanBases, i)
		}
	}
	rapidRun(t, "san", perShard(stats.Scale(7000, 280000)), func(rt *rapid.T) {
		var o gen.Obj
		if rapid.IntRange(0, 4).Draw(rt, "anybase") == 0 {
			o = co.Certs[rapid.IntRange(0, len(co.Certs)-1).Draw(rt, "base")]
		} else {
			o = co.Certs[sanBases[rapid.IntRange(0, len(sanBases)-1).Draw(rt, "sanbase")]]
		}
		pc, _ := gen.ParseCert(o.DER)
		n := rapid.IntRange(2, 8).Draw(rt, "n")
		gns := make([]*dt.Node, n)
		desc := make([]string, n)
		for i := range gns {
			gns[i], desc[i] = gen.DrawGN(rt)
		}
		perm := gen.DrawPerm(rt, n)
		if isIdentity(perm) {
			rec.Class("identity_perm")
			return
		}
		build := func(order []*dt.Node) ([]byte, bool) {
			v, err := gen.ViewCert(o.DER)
			if err != nil {
				return nil, false
			}
			cl := make([]*dt.Node, len(order))
			for i := range order {
				cl[i] = order[i].Clone()
			}
			crit := false
			if x := v.Ext(gen.OIDExtSAN...); x != nil && len(x.Children) == 3 {
				crit = true
			}
			v.SetSAN(crit, cl...)
			switch rapid.IntRange(0, 0).Draw(rt, "noop") {
			}
			if pc != nil && pc.SelfSigned {
				v.SelfSign()
			}
			return v.DER(), true
		}
		// CN: leave, empty, or equal to a SAN entry (drawn once, applied to both)
		d1, ok1 := build(gns)
		d2, ok2 := build(gen.Permute(gns, perm))
		if !ok1 || !ok2 {
			return
		}
		c := c17Case{DER: d1, DER2: d2, What: "san", Base: o.Name, Names: desc, Perm: perm}
		rec.Eval()
		if sig, msg := judgeC17(rec, c); msg != "" {
			fail(rt, rec, "c17", sig, msg, c)
		}
		if rec.WantSample() && rapid.IntRange(0, 80).Draw(rt, "smp") == 0 {
			rec.Sample(map[string]interface{}{"what": "san", "base": o.Name, "names": desc, "perm": perm})
		}
	})
	// enumerated: every corpus certificate x five fixed permutations of its extension list
	// (so each lint sees the extension it reads at the first, last and a middle position)
	fixedPerms := func(n int) [][]int {
		id := make([]int, n)
		for i := range id {
			id[i] = i
		}
		rev := make([]int, n)
		for i := range rev {
			rev[i] = n - 1 - i
		}
		rotL := append(append([]int{}, id[1:]...), id[0])
		rotR := append([]int{id[n-1]}, id[:n-1]...)
		sw0 := append([]int{}, id...)
		sw0[0], sw0[1] = sw0[1], sw0[0]
		swL := append([]int{}, id...)
		swL[n-1], swL[n-2] = swL[n-2], swL[n-1]
		return [][]int{rev, rotL, rotR, sw0, swL}
	}
	for ci, o := range co.Certs {
		if !stats.Mine(ci) {
			continue
		}
		v0, err := gen.ViewCert(o.DER)
		pc, ok := gen.ParseCert(o.DER)
		if err != nil || !ok || v0.Extensions() == nil || len(v0.Extensions().Children) < 2 {
			continue
		}
		exts := v0.Extensions().Children
		seen := map[string]bool{}
		dup := false
		for _, x := range exts {
			if len(x.Children) == 0 {
				dup = true
				break
			}
			k := string(x.Children[0].Content)
			dup = dup || seen[k]
			seen[k] = true
		}
		if dup {
			continue
		}
		ref := o.DER
		if pc.SelfSigned {
			v0.SelfSign()
			ref = v0.DER()
		}
		for pi, perm := range fixedPerms(len(exts)) {
			if isIdentity(perm) {
				continue
			}
			v, _ := gen.ViewCert(o.DER)
			v.Extensions().Children = gen.Permute(v.Extensions().Children, perm)
			if pc.SelfSigned {
				v.SelfSign()
			}
			c := c17Case{DER: ref, DER2: v.DER(), What: "extensions", Base: o.Name, Perm: perm, Names: []string{fmt.Sprintf("fixed-permutation-%d", pi)}}
			rec.Eval()
			rec.Class("extensions_enumerated")
			if sig, msg := judgeC17(rec, c); msg != "" {
				if rec.Report("c17", sig, msg, c) {
					t.Fatalf("c17 %s perm %v: %s: %s", o.Name, perm, sig, msg)
				}
			}
		}
	}
	rec.Exhaustive("extension list of every corpus certificate x {reverse, rotate left, rotate right, swap first two, swap last two}", true)
	rapidRun(t, "extensions", perShard(stats.Scale(4000, 120000)), func(rt *rapid.T) {
		cc := gen.DrawCert(rt, 2, true)
		v, err := gen.ViewCert(cc.DER)
		if err != nil || v.Extensions() == nil {
			rec.Class("no_extensions")
			return
		}
		pc, ok := gen.ParseCert(cc.DER)
		if !ok {
			rec.Class("parse_rejected")
			return
		}
		exts := v.Extensions().Children
		seen := map[string]bool{}
		for _, x := range exts {
			if len(x.Children) == 0 {
				return
			}
			k := string(x.Children[0].Content)
			if seen[k] {
				rec.Class("duplicate_extension_skipped")
				return
			}
			seen[k] = true
		}
		if len(exts) < 2 {
			return
		}
		perm := gen.DrawPerm(rt, len(exts))
		if isIdentity(perm) {
			return
		}
		ref := cc.DER
		if pc.SelfSigned {
			v0, _ := gen.ViewCert(cc.DER)
			v0.SelfSign()
			ref = v0.DER()
		}
		v.Extensions().Children = gen.Permute(exts, perm)
		if pc.SelfSigned {
			v.SelfSign()
		}
		var oids []string
		for _, x := range exts {
			oids = append(oids, strings.Trim(strings.Join(strings.Fields(fmt.Sprint(dt.DecodeOID(x.Children[0].Content))), "."), "[]"))
		}
		c := c17Case{DER: ref, DER2: v.DER(), What: "extensions", Base: cc.Base, Names: oids, Perm: perm}
		rec.Eval()
		if sig, msg := judgeC17(rec, c); msg != "" {
			fail(rt, rec, "c17", sig, msg, c)
		}
		if rec.WantSample() && rapid.IntRange(0, 80).Draw(rt, "smp") == 0 {
			rec.Sample(map[string]interface{}{"what": "extensions", "base": cc.Base, "ops": cc.Ops, "oids": oids, "perm": perm})
		}
	})
}

func init() {
	registerReplayer("c17", func(rec *stats.Rec, raw json.RawMessage) (string, string) {
		var c c17Case
		if err := json.Unmarshal(raw, &c); err != nil {
			return "decode", err.Error()
		}
		return judgeC17(rec, c)
	})
}
