package props

import (
	"unicode"

	"encoding/json"
	"fmt"
	"go/ast"
	"go/parser"
	"go/token"
	"golang.org/x/net/idna"
	"path/filepath"
	"sort"
	"strconv"
	"strings"
	"sync"
	"testing"
	"time"

	"github.com/zmap/zlint/v3/lint"
	"github.com/zmap/zlint/v3/util"
	"pgregory.net/rapid"

	"verifharness/engine"
	"verifharness/gen"
	"verifharness/model"
	"verifharness/stats"

	dt "verifharness/dertree"
)

type tldEntry struct {
	Key, GTLD, Delegation, Removal string
}

var (
	tldOnce  sync.Once
	tldTable map[string]tldEntry
	tldKeys  []string
	tldErr   error
)

// loadTLDTable reads util/gtld_map.go as data (the bytes the compiler sees).
func loadTLDTable() (map[string]tldEntry, []string, error) {
	tldOnce.Do(func() {
		tldTable = map[string]tldEntry{}
		fset := token.NewFileSet()
		af, err := parser.ParseFile(fset, filepath.Join(gen.RepoV3(), "util", "gtld_map.go"), nil, 0)
		if err != nil {
			tldErr = err
			return
		}
		ast.Inspect(af, func(n ast.Node) bool {
			vs, ok := n.(*ast.ValueSpec)
			if !ok || len(vs.Names) != 1 || vs.Names[0].Name != "tldMap" || len(vs.Values) != 1 {
				return true
			}
			cl, ok := vs.Values[0].(*ast.CompositeLit)
			if !ok {
				return false
			}
			for _, el := range cl.Elts {
				kv, ok := el.(*ast.KeyValueExpr)
				if !ok {
					continue
				}
				k, _ := strconv.Unquote(kv.Key.(*ast.BasicLit).Value)
				e := tldEntry{Key: k}
				if inner, ok := kv.Value.(*ast.CompositeLit); ok {
					for _, f := range inner.Elts {
						fkv, ok := f.(*ast.KeyValueExpr)
						if !ok {
							continue
						}
						val, _ := strconv.Unquote(fkv.Value.(*ast.BasicLit).Value)
						switch fkv.Key.(*ast.Ident).Name {
						case "GTLD":
							e.GTLD = val
						case "DelegationDate":
							e.Delegation = val
						case "RemovalDate":
							e.Removal = val
						}
					}
				}
				if _, dup := tldTable[k]; dup {
					tldErr = fmt.Errorf("duplicate key %q in gtld_map.go", k)
				}
				tldTable[k] = e
				tldKeys = append(tldKeys, k)
			}
			return false
		})
		sort.Strings(tldKeys)
	})
	return tldTable, tldKeys, tldErr
}

func asciiLower(s string) string {
	b := []byte(s)
	for i, c := range b {
		if c >= 'A' && c <= 'Z' {
			b[i] = c + 32
		}
	}
	return string(b)
}

// lookupTLD finds the table entry of a label, case-insensitively (ASCII: DNS
// labels are LDH strings; labels with non-ASCII bytes are not judged at all,
// because "case-insensitive" is ambiguous for them - U+212A KELVIN SIGN
// lower-cases to k while U+017F LONG S only case-folds to s).
func lookupTLD(label string) (tldEntry, bool) {
	tab, _, _ := loadTLDTable()
	if !isIA5(label) {
		return tldEntry{}, false // table keys are ASCII (checked); see judgeable for the labels left out
	}
	if e, ok := tab[asciiLower(label)]; ok {
		return e, true
	}
	return tldEntry{}, false
}

func dayStart(s string) (int64, bool) {
	t, err := time.Parse("2006-01-02", s)
	if err != nil {
		return 0, false
	}
	return t.Unix(), true
}

// tldModel: the statement of C18 on integers.
func tldValidModel(domain string, when time.Time) bool {
	i := strings.LastIndex(domain, ".")
	e, ok := lookupTLD(domain[i+1:])
	if !ok {
		return false
	}
	d, ok := dayStart(e.Delegation)
	if !ok {
		return false
	}
	w, wn := when.Unix(), when.Nanosecond()
	if w < d {
		return false
	}
	if e.Removal != "" {
		r, ok := dayStart(e.Removal)
		if ok && (w > r || (w == r && wn > 0)) {
			return false
		}
	}
	return true
}

type c18Case struct {
	What   string `json:"what"` // func | inmap | cert | table
	Domain string `json:"domain,omitempty"`
	Unix   int64  `json:"unix,omitempty"`
	Zone   int    `json:"zone_offset_s,omitempty"`
	DER    []byte `json:"der,omitempty"`
	Base   string `json:"base,omitempty"`
}

const tldLint = "e_dnsname_not_valid_tld"

func judgeC18(rec *stats.Rec, c c18Case) (string, string) {
	return apiGuard(func() (string, string) { return judgeC18Inner(rec, c) })
}

func judgeC18Inner(rec *stats.Rec, c c18Case) (string, string) {
	switch c.What {
	case "func":
		if !judgeable(c.Domain) {
			rec.Class("ambiguous_non_ascii_label_skipped")
			return "", ""
		}
		if !isIA5(c.Domain) {
			rec.Class("non_ascii_domain_judged")
		}
		when := time.Unix(c.Unix, 0).In(time.FixedZone("z", c.Zone))
		got, want := util.HasValidTLD(c.Domain, when), tldValidModel(c.Domain, when)
		if got != want {
			return "hasvalidtld", fmt.Sprintf("HasValidTLD(%q, %s) = %v, table says %v", c.Domain, when.UTC().Format(time.RFC3339), got, want)
		}
	case "inmap":
		if !judgeable(c.Domain) {
			rec.Class("ambiguous_non_ascii_label_skipped")
			return "", ""
		}
		_, want := lookupTLD(c.Domain)
		if got := util.IsInTLDMap(c.Domain); got != want {
			return "isintldmap", fmt.Sprintf("IsInTLDMap(%q) = %v, table says %v", c.Domain, got, want)
		}
	case "cert":
		run := engine.Execute(engine.Case{Kind: gen.Cert, DER: c.DER}, true)
		if !run.Parsed || run.RS == nil {
			rec.Class("parse_rejected")
			return "", ""
		}
		ex, ok := run.Exp[tldLint]
		if !ok || ex.Stage != model.StExecuted {
			rec.Class("tld_lint_not_executed")
			return "", ""
		}
		rec.Class("tld_lint_executed")
		cert := run.Cert
		// the test applied to each name: the model - or, for a label the model does not judge (a character that
		// some case mapping relates to ASCII), the function itself: the lint is *defined* by the test, name by name
		test := func(n string) bool {
			if judgeable(n) {
				return tldValidModel(n, cert.NotBefore)
			}
			rec.Class("ambiguous_label_judged_by_function")
			return util.HasValidTLD(n, cert.NotBefore)
		}
		bad := false
		if cn := cert.Subject.CommonName; cn != "" && !cnIsIP(cn) && !test(cn) {
			bad = true
		}
		for _, d := range cert.DNSNames {
			if !test(d) {
				bad = true
			}
		}
		want := lint.Pass
		if bad {
			want = lint.Error
		}
		if got := engine.Verdicts(run.RS)[tldLint].Status; got != want {
			return "tld-lint", fmt.Sprintf("%s reports %s for CN %q, DNS %q at %s; the table says %s", tldLint, got, cert.Subject.CommonName, cert.DNSNames, cert.NotBefore.UTC().Format(time.RFC3339), want)
		}
		// helper with the certificate as argument
		for _, lbl := range []string{"onion", ".COM", "com", "invalid", "de"} {
			_, inMap := lookupTLD(strings.TrimPrefix(asciiLower(lbl), "."))
			want := false
			if inMap {
				for _, n := range append(append([]string{}, cert.DNSNames...), cert.Subject.CommonName) {
					if strings.HasSuffix(n, "."+strings.TrimPrefix(asciiLower(lbl), ".")) {
						want = true
					}
				}
			}
			if got := util.CertificateSubjInTLD(cert, lbl); got != want {
				return "subj-in-tld", fmt.Sprintf("CertificateSubjInTLD(%q) = %v, want %v", lbl, got, want)
			}
		}
	}
	return "", ""
}

// extremeInstants (Unix seconds): 0001-01-01, 1000, 1500, either side of 1677-09-21 and of 2262-04-11 (the
// range of a 64-bit nanosecond count), 1900, 2300, 2601, 5000, 9999-12-31.
var extremeInstants = []int64{-62135596800, -30610224000, -14831769600, -9223372037, -9223372036, -9223459200, -9223286400, -2208988800, 9223372036, 9223372037, 9223286400, 9223459200,
	10413792000, 19912435200, 95617584000, 253402300799}

// ipLikeCNs: common names that are, or only resemble, IP address literals. Which of them the
// model calls an address is decided by cnIsIP (dotted quad by own arithmetic, otherwise an IPv6
// literal as net.ParseIP reads it - no zone, no brackets, no port).
var ipLikeCNs = []string{"8.8.8.8", "2001:db8::1", "::1", "fe80::1", "fe80::1%eth0", "fe80::1%www.example.notatld", "fe80::1%25lo", "fe80::1%", "::1%com", "[::1]", "[2001:db8::1]:443",
	"1.2.3.4.", "1.2.3", "01.2.3.4", "1.2.3.4%x", "::ffff:1.2.3.4", "1.2.3.4:80", "0x7f.0.0.1", "127.1", "1::2::3", "256.1.1.1", "1.2.3.4.com", "::", "2001:DB8::A", "1.2.3.4 ", " 1.2.3.4", "１.2.3.4"}

func cnIsIP(s string) bool {
	// dotted quad or IPv6 literal, as the statement's "non-IP common name"
	if strings.Count(s, ".") == 3 {
		ok := true
		for _, p := range strings.Split(s, ".") {
			n, err := strconv.Atoi(p)
			if err != nil || n < 0 || n > 255 || (len(p) > 1 && p[0] == '0') || len(p) > 3 {
				ok = false
			}
		}
		if ok {
			return true
		}
	}
	return strings.Contains(s, ":") && netParseIP(s)
}

func TestC18(t *testing.T) {
	rec := newRec(t, "C18")
	tab, keys, err := loadTLDTable()
	if err != nil || len(keys) < 100 {
		t.Fatalf("cannot read TLD table as data: %v (%d entries)", err, len(keys))
	}
	rec.ClassN("table_entries", int64(len(keys)))
	report := func(sig, msg string, c c18Case) {
		if rec.Report("c18", sig, msg, c) {
			t.Errorf("c18: %s: %s", sig, msg)
		}
	}
	// table well-formedness (enumerated)
	for _, k := range keys {
		e := tab[k]
		rec.Eval()
		if e.Key != e.GTLD || e.Key != asciiLower(e.Key) || e.Key == "" {
			report("table-key|"+k, fmt.Sprintf("entry keyed %q has GTLD %q (must be its own lower-case name)", e.Key, e.GTLD), c18Case{What: "table", Domain: k})
		}
		d, ok := dayStart(e.Delegation)
		if !ok {
			report("table-delegation|"+k, fmt.Sprintf("delegation date %q does not parse", e.Delegation), c18Case{What: "table", Domain: k})
		}
		if e.Removal != "" {
			r, ok2 := dayStart(e.Removal)
			if !ok2 {
				report("table-removal|"+k, fmt.Sprintf("removal date %q does not parse", e.Removal), c18Case{What: "table", Domain: k})
			} else if ok && r < d {
				report("table-removal-before-delegation|"+k, fmt.Sprintf("removal %s precedes delegation %s", e.Removal, e.Delegation), c18Case{What: "table", Domain: k})
			}
		}
	}
	// function-level boundary sweep (enumerated in both tiers)
	zones := []int{0, 14 * 3600, -12 * 3600}
	for i, k := range keys {
		if !stats.Mine(i) {
			continue
		}
		e := tab[k]
		var bounds []int64
		if d, ok := dayStart(e.Delegation); ok {
			bounds = append(bounds, d)
		}
		if r, ok := dayStart(e.Removal); ok && e.Removal != "" {
			bounds = append(bounds, r)
		}
		for bi, b := range bounds {
			for _, off := range []int64{-1, 0, 1} {
				for si, dom := range []string{"example." + k, "WWW.EXAMPLE." + strings.ToUpper(k), k, "example." + bit5Cleared(k)} {
					c := c18Case{What: "func", Domain: dom, Unix: b + off, Zone: zones[(i+si)%len(zones)]}
					rec.Eval()
					rec.NT(stats.HashS("boundary", k, fmt.Sprint(bi), fmt.Sprint(off), fmt.Sprint(si)))
					if sig, msg := judgeC18(rec, c); msg != "" {
						report(sig, msg, c)
					}
				}
			}
		}
		// instants far from today: a few centuries either way (where 64-bit nanosecond counts wrap), the first and
		// last representable years, and the zero time
		for xi, ux := range extremeInstants {
			c := c18Case{What: "func", Domain: "example." + k, Unix: ux, Zone: zones[(i+xi)%len(zones)]}
			rec.Eval()
			if sig, msg := judgeC18(rec, c); msg != "" {
				report(sig, msg, c)
			}
		}
		c := c18Case{What: "inmap", Domain: strings.ToUpper(k[:1]) + k[1:]}
		rec.Eval()
		if sig, msg := judgeC18(rec, c); msg != "" {
			report(sig, msg, c)
		}
	}
	rec.Exhaustive("table well-formedness; every entry x {delegation, removal} x {-1s,0,+1s} x 3 spellings", true)
	rec.Sample(map[string]interface{}{"entry": tab[keys[0]], "sweep": "example.<tld>, WWW.EXAMPLE.<TLD>, <tld> at delegation/removal -1s/0/+1s in zones 0/+14h/-12h"})

	var ulabels []string
	for _, k := range keys {
		if strings.HasPrefix(k, "xn--") {
			if u, err := idna.ToUnicode(k); err == nil && u != k {
				ulabels = append(ulabels, u)
			}
		}
	}
	// enumerated: every such Unicode spelling, inside its A-label's period
	for i, u := range ulabels {
		if !stats.Mine(i) {
			continue
		}
		a, _ := idna.ToASCII(u)
		e := tab[a]
		if d, ok := dayStart(e.Delegation); ok {
			for _, dom := range []string{"example." + u, u, "xn--e1afmkfd." + u} {
				c := c18Case{What: "func", Domain: dom, Unix: d + 86400*400}
				rec.Eval()
				rec.Class("ulabel_enumerated")
				if sig, msg := judgeC18(rec, c); msg != "" {
					report(sig, msg, c)
				}
				c2 := c18Case{What: "inmap", Domain: u}
				if sig, msg := judgeC18(rec, c2); msg != "" {
					report(sig, msg, c2)
				}
			}
		}
	}
	labelGen := func(rt *rapid.T) string {
		switch rapid.IntRange(0, 7).Draw(rt, "lk") {
		case 0, 1, 2:
			k := keys[rapid.IntRange(0, len(keys)-1).Draw(rt, "key")]
			switch rapid.IntRange(0, 3).Draw(rt, "case") {
			case 0:
				return strings.ToUpper(k)
			case 1:
				return strings.ToUpper(k[:1]) + k[1:]
			}
			return k
		case 3:
			k := keys[rapid.IntRange(0, len(keys)-1).Draw(rt, "key")]
			return k + rapid.SampledFrom([]string{"x", "s", "-", "0", " "}).Draw(rt, "sfx")
		case 4:
			k := keys[rapid.IntRange(0, len(keys)-1).Draw(rt, "key")]
			if len(k) > 1 {
				return k[:len(k)-1]
			}
			return k
		case 5:
			if len(ulabels) > 0 && rapid.Bool().Draw(rt, "ulabel") {
				// the Unicode spelling of an internationalised TLD: the table lists its A-label (xn--...) only
				return ulabels[rapid.IntRange(0, len(ulabels)-1).Draw(rt, "ul")]
			}
			return rapid.SampledFrom([]string{"", "local", "invalid", "test", "localhost", "internal", "example", "onion", "arpa", "xn--", "Krd", "ſe", "İ", "co.uk"}).Draw(rt, "fixed")
		case 6:
			return rapid.StringMatching(`[a-zA-Z]{1,8}`).Draw(rt, "rnd")
		default:
			return rapid.String().Draw(rt, "any")
		}
	}
	rapidRun(t, "functions", perShard(stats.Scale(40000, 2000000)), func(rt *rapid.T) {
		lbl := labelGen(rt)
		var dom string
		switch rapid.IntRange(0, 5).Draw(rt, "shape") {
		case 0:
			dom = lbl
		case 1:
			dom = "a.b." + lbl
		case 2:
			dom = lbl + "."
		case 3:
			dom = "." + lbl
		case 4:
			dom = "x.." + lbl
		default:
			dom = rapid.StringMatching(`[a-z0-9-]{1,10}`).Draw(rt, "left") + "." + lbl
		}
		var unix int64
		if e, ok := lookupTLD(lbl); ok && rapid.Bool().Draw(rt, "near") {
			b, _ := dayStart(e.Delegation)
			if e.Removal != "" && rapid.Bool().Draw(rt, "rem") {
				b, _ = dayStart(e.Removal)
			}
			unix = b + int64(rapid.IntRange(-2, 2).Draw(rt, "off"))
		} else if rapid.IntRange(0, 5).Draw(rt, "extreme") == 0 {
			unix = rapid.OneOf(rapid.SampledFrom(extremeInstants), rapid.Int64Range(-62135596800, 253402300799)).Draw(rt, "farunix")
		} else {
			unix = rapid.Int64Range(315532800, 2208988800).Draw(rt, "unix")
		}
		c := c18Case{What: "func", Domain: dom, Unix: unix, Zone: rapid.SampledFrom(zones).Draw(rt, "zone")}
		rec.Eval()
		if sig, msg := judgeC18(rec, c); msg != "" {
			fail(rt, rec, "c18", sig, msg, c)
		}
		c2 := c18Case{What: "inmap", Domain: lbl}
		if sig, msg := judgeC18(rec, c2); msg != "" {
			fail(rt, rec, "c18", sig, msg, c2)
		}
		if _, ok := lookupTLD(lbl); !ok {
			rec.NT(stats.HashS("miss", dom))
		}
	})
	// certificate level
	hm := homeObjects()
	co := gen.LoadCorpus()
	hs := hm[tldLint]
	if len(hs) == 0 {
		rec.Class("tld_lint_without_home")
		return
	}
	// enumerated: every IP-like common name on up to three subscriber homes of the lint, SAN = one valid name
	{
		k := 0
		nh := 0
		for _, hi := range hs {
			o := co.Certs[hi]
			pc, ok := gen.ParseCert(o.DER)
			if !ok || pc.IsCA || homeClass[tldLint][hi] < 1 {
				continue
			}
			nh++
			if nh > 3 {
				break
			}
			for _, cn := range ipLikeCNs {
				for _, tag := range []uint32{12, 19} {
					k++
					if !stats.Mine(k) {
						continue
					}
					v, err := gen.ViewCert(o.DER)
					if err != nil {
						continue
					}
					v.SetSAN(false, gen.GNDNS([]byte("www.example.com")))
					v.SetCN([]byte(cn), tag)
					c := c18Case{What: "cert", DER: v.DER(), Base: o.Name}
					rec.Eval()
					rec.Class("ip_like_cn_enumerated")
					if sig, msg := judgeC18(rec, c); msg != "" {
						if rec.Report("c18", sig, msg, c) {
							t.Fatalf("c18 common name %q on %s: %s: %s", cn, o.Name, sig, msg)
						}
					}
				}
			}
		}
	}
	rapidRun(t, "certificates", perShard(stats.Scale(3000, 100000)), func(rt *rapid.T) {
		o := co.Certs[hs[rapid.IntRange(0, len(hs)-1).Draw(rt, "home")]]
		pc, ok := gen.ParseCert(o.DER)
		v, err := gen.ViewCert(o.DER)
		if !ok || err != nil {
			return
		}
		n := rapid.IntRange(1, 4).Draw(rt, "nnames")
		var gns []*dt.Node
		var names []string
		var firstEntry *tldEntry
		for i := 0; i < n; i++ {
			lbl := labelGen(rt)
			if e, ok := lookupTLD(lbl); ok && firstEntry == nil {
				ee := e
				firstEntry = &ee
			}
			d := "host" + fmt.Sprint(i) + "." + lbl
			if !isIA5(d) {
				d = "host." + asciiOnly(lbl)
			}
			names = append(names, d)
			gns = append(gns, gen.GNDNS([]byte(d)))
		}
		if rapid.IntRange(0, 4).Draw(rt, "withip") == 0 {
			gns = append(gns, gen.GNIP([]byte{8, 8, 8, 8}))
		}
		v.SetSAN(false, gns...)
		switch rapid.IntRange(0, 6).Draw(rt, "cn") {
		case 5:
			// a common name that differs from the first SAN name only by characters that case folding relates to ASCII
			tw := strings.NewReplacer("s", "\u017f", "k", "\u212a", "S", "\u017f", "K", "\u212a").Replace(names[0])
			v.SetCN([]byte(tw), 12)
		case 6:
			// strings around the "is the common name an IP address" decision
			v.SetCN([]byte(rapid.SampledFrom(ipLikeCNs).Draw(rt, "iplike")), 12)
		case 0:
			v.RemoveCN()
		case 1:
			v.SetCN([]byte(names[0]), 12)
		case 2:
			v.SetCN([]byte("8.8.8.8"), 12)
		case 3:
			v.SetCN([]byte("cn."+labelAscii(labelGen(rt))), 19)
		}
		// date: near a boundary of one of the names' TLDs, or anywhere after the lint's effective date
		nb := pc.NotBefore
		if firstEntry != nil && rapid.Bool().Draw(rt, "nearb") {
			b, _ := dayStart(firstEntry.Delegation)
			if firstEntry.Removal != "" && rapid.Bool().Draw(rt, "rem") {
				b, _ = dayStart(firstEntry.Removal)
			}
			nb = time.Unix(b+int64(rapid.IntRange(-1, 1).Draw(rt, "off")), 0)
		} else if rapid.Bool().Draw(rt, "anydate") {
			nb = time.Unix(rapid.Int64Range(946684800, 2208988800).Draw(rt, "unix"), 0)
		}
		if rapid.IntRange(0, 9).Draw(rt, "fardate") == 0 {
			nb = time.Unix(rapid.SampledFrom(extremeInstants[6:]).Draw(rt, "far"), 0)
		}
		if nb.Year() >= 1951 && nb.Year() < 2049 {
			gen.Redate(v, pc, nb, gen.TimeForm(rapid.IntRange(0, 3).Draw(rt, "form")))
		} else if nb.Year() >= 1 && nb.Year() <= 9990 {
			gen.Redate(v, pc, nb, gen.GenZ)
		}
		c := c18Case{What: "cert", DER: v.DER(), Base: o.Name}
		rec.Eval()
		if sig, msg := judgeC18(rec, c); msg != "" {
			fail(rt, rec, "c18", sig, msg, c)
		}
		rec.NT(stats.Hash(c.DER))
		if rec.WantSample() && rapid.IntRange(0, 60).Draw(rt, "smp") == 0 {
			rec.Sample(map[string]interface{}{"base": o.Name, "dns": names, "not_before": nb.UTC().Format(time.RFC3339)})
		}
	})
}

// bit5Cleared clears bit 5 of every octet: letters become upper case - and '-' becomes CR, the digits become
// the control characters 0x10-0x19. Not a case variant of the key unless the key is letters only.
func bit5Cleared(k string) string {
	b := []byte(k)
	for i := range b {
		b[i] &^= 0x20
	}
	return string(b)
}

// judgeable: the right-most label is pure ASCII, or contains no character that any case mapping relates to an
// ASCII character (U+212A KELVIN SIGN, U+017F LONG S, U+0130 ...). Table keys are ASCII, so such a non-ASCII
// label is not in the table under any reading of "compared case-insensitively"; only the ambiguous ones are
// left out of the domain.
func judgeable(domain string) bool {
	lbl := domain[strings.LastIndex(domain, ".")+1:]
	for _, r := range lbl {
		if r < 0x80 {
			continue
		}
		if unicode.ToLower(r) < 0x80 || unicode.ToUpper(r) < 0x80 || unicode.ToTitle(r) < 0x80 {
			return false
		}
		for f := unicode.SimpleFold(r); f != r; f = unicode.SimpleFold(f) {
			if f < 0x80 {
				return false
			}
		}
	}
	return true
}

func isIA5(s string) bool {
	for i := 0; i < len(s); i++ {
		if s[i] >= 0x80 {
			return false
		}
	}
	return true
}

func asciiOnly(s string) string {
	var b []byte
	for i := 0; i < len(s); i++ {
		if s[i] < 0x80 && s[i] > 0x20 {
			b = append(b, s[i])
		}
	}
	if len(b) == 0 {
		return "x"
	}
	return string(b)
}

func labelAscii(s string) string { return asciiOnly(s) }

func init() {
	registerReplayer("c18", func(rec *stats.Rec, raw json.RawMessage) (string, string) {
		var c c18Case
		if err := json.Unmarshal(raw, &c); err != nil {
			return "decode", err.Error()
		}
		if c.What == "table" {
			return "", "" // table findings are re-derived by the enumerated part of the check
		}
		return judgeC18(rec, c)
	})
}
