package props

import (
	"encoding/json"
	"fmt"
	"reflect"
	"sort"
	"strings"
	"testing"
	dt "verifharness/dertree"

	"github.com/zmap/zlint/v3"
	"github.com/zmap/zlint/v3/lint"
	"pgregory.net/rapid"

	"verifharness/engine"
	"verifharness/gen"
	"verifharness/model"
	"verifharness/stats"
)

// judgeLifecycle: the framework's result equals the reference lifecycle for
// every lint (status and details) - scope gate, configuration, applicability,
// window, body verdict unchanged.
func judgeLifecycle(rec *stats.Rec, c engine.Case) (string, string, *engine.Run) {
	run := engine.Execute(c, true)
	if !run.Parsed {
		rec.Class("parse_rejected")
		return "", "", run
	}
	if run.SetupErr != "" || run.Hang || run.RS == nil && run.Panic == "" {
		rec.Class("void")
		return "", "", run
	}
	if run.Panic != "" {
		// CRL / OCSP body panics propagate by design of the framework; that is
		// C02's business. Here: a panic must be explained by a body panic.
		for _, e := range run.Exp {
			if e.Stage == model.StPanicked {
				rec.Class("propagated_body_panic")
				return "", "", run
			}
		}
		return "unexplained-panic|" + string(c.Kind), "Lint*Ex panicked although no rule body does: " + run.Panic, run
	}
	v := engine.Verdicts(run.RS)
	names := make([]string, 0, len(v))
	for n := range v {
		names = append(names, n)
	}
	sort.Strings(names)
	for _, n := range names {
		x, e := v[n], run.Exp[n]
		rec.Class("stage_" + e.Stage.String())
		if e.NilRes {
			continue // C02
		}
		if x.Status != e.V.Status {
			return "status|" + n + "|" + e.Stage.String(), fmt.Sprintf("framework reports %s, reference lifecycle (%s) says %s", x.Status, e.Stage, e.V.Status), run
		}
		if x.Details != e.V.Details {
			return "details|" + n, fmt.Sprintf("framework details %q differ from the rule body's %q", short(x.Details, 200), short(e.V.Details, 200)), run
		}
	}
	// the same lints reached through the deprecated lookups (Registry.ByName / BySource hand out *lint.Lint
	// copies that rebuild a CertificateLint on every call): same gate, same verdict
	if c.Kind == gen.Cert && run.Reg != nil {
		c3, _ := gen.ParseCert(c.DER)
		for _, n := range names {
			dep := run.Reg.ByName(n)
			if dep == nil {
				return "deprecated-lookup|" + n, "Registry.ByName does not know a certificate lint of the registry", run
			}
			if r := dep.Execute(c3, run.Cfg); r == nil || r.Status != v[n].Status || r.Details != v[n].Details {
				st := "nil"
				if r != nil {
					st = r.Status.String()
				}
				return "deprecated-verdict|" + n + "|" + run.Exp[n].Stage.String(), fmt.Sprintf("Registry.ByName(%q).Execute reports %s, the registry run reports %s (reference lifecycle: %s)", n, st, v[n].Status, run.Exp[n].Stage), run
			}
		}
	}
	return "", "", run
}

type scopeSpec struct {
	EKU    int // -1 none, else index into gen.AllEKUs
	Policy int // -1 none, else index into scopePolicies
	Mail   int // index into gen.ScopeMailKinds: absent, rfc822Name, SmtpUTF8Mailbox (well-formed, malformed, empty), ...
}

// scopePolicies: the policy *sets* of the matrix - each scope OID alone, anyPolicy, an unrelated OID; the
// near misses of each scope OID (a child arc, the parent arc, last arc 0, last arc + 3), which no scope
// predicate may take for the OID itself; and each scope OID next to an unrelated policy, in both orders.
var scopePolicies = func() [][][]int {
	var out [][][]int
	for _, o := range gen.ScopePolicyOIDs {
		out = append(out, [][]int{o})
	}
	out = append(out, [][]int{gen.OtherPolicyOIDs[0]}, [][]int{gen.OtherPolicyOIDs[1]})
	cp := func(o []int, extra ...int) []int { return append(append([]int{}, o...), extra...) }
	for _, o := range gen.ScopePolicyOIDs {
		zero := cp(o)
		zero[len(zero)-1] = 0
		far := cp(o)
		far[len(far)-1] += 3
		out = append(out, [][]int{cp(o, 1)}, [][]int{cp(o[:len(o)-1])}, [][]int{zero}, [][]int{far})
	}
	for _, o := range gen.ScopePolicyOIDs {
		out = append(out, [][]int{o, gen.OtherPolicyOIDs[1]}, [][]int{gen.OtherPolicyOIDs[1], o})
	}
	return out
}()

func applyScope(base gen.Obj, s scopeSpec) ([]byte, bool) {
	var pol [][]int
	if s.Policy >= 0 {
		pol = scopePolicies[s.Policy]
	}
	return gen.ScopeVariant(base.DER, s.EKU, pol, s.Mail)
}

// scopeBases picks the corpus certificates that are home to most TLS-BR,
// S/MIME-BR and code-signing-BR lints.
func scopeBases() []gen.Obj {
	hm := homeObjects()
	co := gen.LoadCorpus()
	g := lint.GlobalRegistry()
	var out []gen.Obj
	for _, src := range []lint.LintSource{lint.CABFBaselineRequirements, lint.CABFSMIMEBaselineRequirements, lint.CABFCSBaselineRequirements} {
		cnt := map[int]int{}
		for _, l := range g.CertificateLints().BySource(src) {
			for _, i := range hm[l.Name] {
				cnt[i]++
			}
		}
		best, bi := -1, -1
		for i := 0; i < len(co.Certs); i++ {
			if cnt[i] > best {
				if c, ok := gen.ParseCert(co.Certs[i].DER); ok && !c.SelfSigned {
					best, bi = cnt[i], i
				}
			}
		}
		if bi >= 0 {
			out = append(out, co.Certs[bi])
		}
	}
	return out
}

// freshInstances: every registered constructor returns a new instance per
// call (pointer identity; zero-size types may legitimately share an address).
func freshInstances(rec *stats.Rec, bad func(sig, msg string)) {
	chk := func(name string, a, b interface{}) {
		rec.Eval()
		va, vb := reflect.ValueOf(a), reflect.ValueOf(b)
		if va.Kind() != reflect.Ptr || vb.Kind() != reflect.Ptr || va.IsNil() || vb.IsNil() {
			return
		}
		if va.Elem().Type().Size() == 0 {
			rec.Class("zero_size_lint_type")
			return
		}
		if va.Pointer() == vb.Pointer() {
			bad("shared-instance|"+name, "two constructor calls return the same lint instance: state can leak between executions")
		}
	}
	g := lint.GlobalRegistry()
	for _, l := range g.CertificateLints().Lints() {
		chk(l.Name, l.Lint(), l.Lint())
	}
	for _, l := range g.RevocationListLints().Lints() {
		chk(l.Name, l.Lint(), l.Lint())
	}
	for _, l := range g.OcspResponseLints().Lints() {
		chk(l.Name, l.Lint(), l.Lint())
	}
}

func TestC04(t *testing.T) {
	rec := newRec(t, "C04")
	freshInstances(rec, func(sig, msg string) {
		if rec.Report("c04", sig, msg, engine.Case{Note: sig}) {
			t.Errorf("c04: %s: %s", sig, msg)
		}
	})
	// baseline stages of the corpus, to tell "position changed" cases
	baseStage := func(o gen.Obj) map[string]model.Stage {
		r := engine.Execute(engine.Case{Kind: o.Kind, DER: o.DER}, true)
		m := map[string]model.Stage{}
		for n, e := range r.Exp {
			m[n] = e.Stage
		}
		return m
	}
	noteNT := func(c engine.Case, run *engine.Run, base map[string]model.Stage) {
		if run == nil || run.Exp == nil {
			return
		}
		changed := 0
		for n, e := range run.Exp {
			if bs, ok := base[n]; ok && bs != e.Stage {
				changed++
			}
		}
		if changed > 0 {
			rec.NT(stats.Hash(c.DER))
			rec.ClassN("lint_positions_changed", int64(changed))
		}
	}
	// (a) single-feature scope matrix, enumerated in both tiers
	bases := scopeBases()
	k := 0
	// ... each matrix certificate is also linted through ONE certificate value that is overwritten with the next
	// certificate's fields (a caller recycling its struct, or building certificates in place): what a lint run says
	// depends on the fields, not on the address they live at
	type recycled struct {
		c    engine.Case
		want string
	}
	var walk []recycled
	for _, b := range bases {
		bs := baseStage(b)
		for e := -1; e < len(gen.AllEKUs); e++ {
			for p := -1; p < len(scopePolicies); p++ {
				for m := 0; m < gen.ScopeMailKinds; m++ {
					k++
					if !stats.Mine(k) {
						continue
					}
					s := scopeSpec{e, p, m}
					der, ok := applyScope(b, s)
					if !ok {
						continue
					}
					c := engine.Case{Kind: gen.Cert, DER: der, Base: b.Name, Ops: []string{fmt.Sprintf("scope eku=%d policy=%d mail=%d", e, p, m)}}
					rec.Eval()
					rec.Class("matrix")
					sig, msg, run := judgeLifecycle(rec, c)
					if msg != "" {
						if rec.Report("c04", sig, msg, c) {
							t.Fatalf("c04 matrix %s %+v: %s: %s", b.Name, s, sig, msg)
						}
					}
					noteNT(c, run, bs)
					if run.RS != nil {
						walk = append(walk, recycled{c, engine.Digest(run.RS)})
					}
					if k%131 == 0 {
						rec.Sample(sampleCase(c, map[string]interface{}{"statuses": statusCounts(engine.Verdicts(run.RS))}))
					}
				}
			}
		}
	}
	// the walk: nothing else is linted in between, so the certificate value goes from one scope straight to another
	{
		slot := new(zx509Cert)
		g := lint.GlobalRegistry()
		for _, w := range walk {
			pc, ok := gen.ParseCert(w.c.DER)
			if !ok {
				continue
			}
			*slot = *pc
			rec.Eval()
			rec.Class("matrix_recycled_struct")
			if got := engine.Digest(zlint.LintCertificateEx(slot, g)); got != w.want {
				if rec.Report("c04", "recycled-struct", fmt.Sprintf("the certificate %v gets other verdicts (%s) when its fields are written into a certificate value that has just been linted as another certificate than on a value of its own (%s)", w.c.Ops, got, w.want), w.c) {
					t.Fatalf("c04 matrix %s %v: verdicts depend on the address of the certificate value", w.c.Base, w.c.Ops)
				}
			}
		}
	}
	// (a'') identifiers that coincide with a scope OID (policy or EKU) once arcs are packed into machine words
	// must not open or close a scope: every relative, as the only policy (EKU = clientAuth / none / as the base
	// has it) and as the only EKU, with and without a mailbox
	{
		type arith struct {
			pol [][]int
			eku []int
		}
		var sets []arith
		for _, o := range gen.ScopePolicyOIDs {
			for _, r := range gen.ArithRelatives(o) {
				sets = append(sets, arith{pol: [][]int{r}})
			}
		}
		for _, o := range gen.AllEKUs {
			for _, r := range gen.ArithRelatives(o) {
				sets = append(sets, arith{eku: r})
			}
		}
		for _, b := range bases {
			bs := baseStage(b)
			for si, a := range sets {
				for m := 0; m < 2; m++ {
					for e := 0; e < 2; e++ {
						k++
						if !stats.Mine(k) {
							continue
						}
						v, err := gen.ViewCert(b.DER)
						if err != nil {
							continue
						}
						switch {
						case a.eku != nil:
							v.SetEKU(a.eku)
							if e == 1 {
								v.SetPolicies()
							}
						case e == 0:
							v.SetEKU(gen.EKUClientAuth)
							v.SetPolicies(a.pol...)
						default:
							v.SetEKU(gen.EKUTimeStamp)
							v.SetPolicies(a.pol...)
						}
						gns := []*dt.Node{gen.GNDNS([]byte("scope.example.com"))}
						if m == 1 {
							gns = append(gns, gen.GNEmail([]byte("user@example.com")))
						}
						v.SetSAN(false, gns...)
						if pc, ok := gen.ParseCert(b.DER); ok && pc.SelfSigned {
							v.SelfSign()
						}
						c := engine.Case{Kind: gen.Cert, DER: v.DER(), Base: b.Name, Ops: []string{fmt.Sprintf("scope arithmetic relative #%d policy=%v eku=%v mail=%d", si, a.pol, a.eku, m)}}
						rec.Eval()
						rec.Class("matrix_arith")
						sig, msg, run := judgeLifecycle(rec, c)
						if msg != "" {
							if rec.Report("c04", sig, msg, c) {
								t.Fatalf("c04 arithmetic relative %s %v: %s: %s", b.Name, c.Ops, sig, msg)
							}
						}
						noteNT(c, run, bs)
					}
				}
			}
		}
	}
	rec.Exhaustive("single-feature scope matrix (EKU x policy set incl. near-miss OIDs and two-policy sets x mail-SAN on 3 bases)", true)
	// (a') the soak history: after many distinct certificates of changing scope, an earlier one still gets what
	// the reference lifecycle says (scope, applicability and window are functions of the object alone)
	soakHistory(rec, stats.Scale(1600, 12000), soakVisitC04, func(s string) { t.Fatalf("%s", s) })
	// (b) corpus as is
	co := gen.LoadCorpus()
	idx := 0
	for _, objs := range [][]gen.Obj{co.Certs, co.CRLs, co.OCSPs} {
		for _, o := range objs {
			idx++
			if !stats.Mine(idx) {
				continue
			}
			c := engine.Case{Kind: o.Kind, DER: o.DER, Base: o.Name}
			rec.Eval()
			rec.Class("corpus")
			if sig, msg, _ := judgeLifecycle(rec, c); msg != "" {
				if rec.Report("c04", sig, msg, c) {
					t.Errorf("c04 corpus %s: %s: %s", o.Name, sig, msg)
				}
			}
		}
	}
	// (b') enumerated: a configuration installed on the global registry, then a filter of every shape (sources only,
	// names only, a pattern, chains): the filtered registry inherits the configuration, so the framework's result is
	// what the rule body returns on an instance configured from it
	{
		sens := sensitiveObjects()
		k := 0
		for _, ci := range engine.Configurables() {
			alt, ok := altDocs[ci.Name]
			if !ok {
				continue
			}
			src := lintSourceOf(ci.Name)
			re := "^" + ci.Name[:len(ci.Name)/2]
			shapes := [][]engine.FilterSpec{
				{{IncludeSources: []string{src}}}, {{ExcludeSources: []string{"ETSI_ESI"}}}, {{IncludeSources: []string{src}, ExcludeSources: []string{"ETSI_ESI"}}},
				{{IncludeNames: []string{ci.Name}}}, {{ExcludeNames: []string{"e_ca_country_name_missing"}}}, {{NameFilter: &re}},
				{{IncludeSources: []string{src}}, {IncludeNames: []string{ci.Name}}}, {{ExcludeNames: []string{"e_ca_country_name_missing"}}, {IncludeSources: []string{src}}},
			}
			ill := ci.Name + " = 5\n"
			for _, o := range sens[ci.Name] {
				for _, fs := range shapes {
					for _, doc := range []string{alt, ill} {
						k++
						if !stats.Mine(k) {
							continue
						}
						doc := doc
						c := engine.Case{Kind: o.Kind, DER: o.DER, Base: o.Name, Filters: fs, Config: &doc, ConfigFirst: true, Note: "configured, then filtered"}
						rec.Eval()
						rec.Class("configured_then_filtered")
						if sig, msg, _ := judgeLifecycle(rec, c); msg != "" {
							if rec.Report("c04", sig, msg, c) {
								t.Fatalf("c04 %s configured then filtered: %s: %s", o.Name, sig, msg)
							}
						}
					}
				}
			}
		}
	}
	// (c) random combinations: generated objects with openers, filters, configurations
	baseCache := map[string]map[string]model.Stage{}
	byName := map[string]gen.Obj{}
	for _, o := range co.Certs {
		byName[o.Name] = o
	}
	rapidRun(t, "random", perShard(stats.Scale(15000, 400000)), func(rt *rapid.T) {
		c := drawObject(rt, 3, true)
		if rapid.IntRange(0, 3).Draw(rt, "withreg") == 0 {
			drawRegistry(rt, &c)
		}
		if rapid.IntRange(0, 2).Draw(rt, "withcfg") == 0 {
			drawConfig(rt, &c, true)
		}
		rec.Eval()
		rec.Class("random")
		sig, msg, run := judgeLifecycle(rec, c)
		if msg != "" {
			fail(rt, rec, "c04", sig, msg, c)
			return
		}
		if o, ok := byName[c.Base]; ok && c.Kind == gen.Cert && len(c.Ops) > 0 {
			bs, ok := baseCache[c.Base]
			if !ok {
				bs = baseStage(o)
				baseCache[c.Base] = bs
			}
			noteNT(c, run, bs)
		}
	})
}

func init() {
	registerReplayer("c04", func(rec *stats.Rec, raw json.RawMessage) (string, string) {
		var c engine.Case
		if err := json.Unmarshal(raw, &c); err != nil {
			return "decode", err.Error()
		}
		if strings.HasPrefix(c.Note, "shared-instance|") {
			s, m := "", ""
			freshInstances(rec, func(sig, msg string) {
				if sig == c.Note {
					s, m = sig, msg
				}
			})
			return s, m
		}
		sig, msg, _ := judgeLifecycle(rec, c)
		return sig, msg
	})
}
