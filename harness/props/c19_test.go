package props

import (
	"bytes"
	"encoding/hex"
	"encoding/json"
	"fmt"
	"math/big"
	"net"
	"strings"
	"testing"

	"github.com/zmap/zlint/v3/lint"
	"github.com/zmap/zlint/v3/util"
	"pgregory.net/rapid"

	"verifharness/engine"
	"verifharness/gen"
	"verifharness/model"
	"verifharness/stats"

	dt "verifharness/dertree"
)

// model blocks, written from the RFCs named in the statement (not from util/ip.go)
type ipBlock struct {
	Name string
	CIDR string
}

var modelBlocks = []ipBlock{
	{"rfc1918-10", "10.0.0.0/8"}, {"rfc1918-172", "172.16.0.0/12"}, {"rfc1918-192", "192.168.0.0/16"},
	{"loopback", "127.0.0.0/8"}, {"link-local", "169.254.0.0/16"}, {"shared", "100.64.0.0/10"},
	{"doc-1", "192.0.2.0/24"}, {"doc-2", "198.51.100.0/24"}, {"doc-3", "203.0.113.0/24"},
	{"benchmark", "198.18.0.0/15"}, {"multicast", "224.0.0.0/4"}, {"class-e", "240.0.0.0/4"},
	{"broadcast", "255.255.255.255/32"}, {"unspecified", "0.0.0.0/32"},
	{"v6-loopback", "::1/128"}, {"v6-unspecified", "::/128"}, {"v6-ula", "fc00::/7"}, {"v6-link-local", "fe80::/10"},
	{"v6-multicast", "ff00::/8"}, {"v6-doc", "2001:db8::/32"}, {"v6-6to4", "2002::/16"}, {"v6-discard", "100::/64"},
}

// well-known public addresses (resolvers and root servers)
var publicAnchors = []string{"8.8.8.8", "8.8.4.4", "1.1.1.1", "9.9.9.9", "208.67.222.222", "198.41.0.4", "199.9.14.201", "192.33.4.12", "199.7.91.13",
	"192.203.230.10", "192.5.5.241", "192.112.36.4", "198.97.190.53", "192.36.148.17", "192.58.128.30", "193.0.14.129", "199.7.83.42", "202.12.27.33",
	"2001:4860:4860::8888", "2606:4700:4700::1111", "2620:fe::fe", "2001:503:ba3e::2:30", "2001:500:200::b", "2001:500:2::c", "2001:7fd::1", "2001:dc3::35"}

func ipToBig(ip net.IP) (*big.Int, int) {
	if v4 := ip.To4(); v4 != nil {
		return new(big.Int).SetBytes(v4), 32
	}
	return new(big.Int).SetBytes(ip.To16()), 128
}

func bigToIP(v *big.Int, bits int) net.IP {
	b := v.Bytes()
	n := bits / 8
	out := make(net.IP, n)
	copy(out[n-len(b):], b)
	return out
}

type modelNet struct {
	lo, hi *big.Int
	bits   int
}

func parseModelNet(cidr string) modelNet {
	_, n, err := net.ParseCIDR(cidr)
	if err != nil {
		panic(err)
	}
	lo, bits := ipToBig(n.IP)
	ones, _ := n.Mask.Size()
	size := new(big.Int).Lsh(big.NewInt(1), uint(bits-ones))
	hi := new(big.Int).Add(lo, size)
	hi.Sub(hi, big.NewInt(1))
	return modelNet{lo, hi, bits}
}

func inModelBlocks(ip net.IP) (string, bool) {
	v, bits := ipToBig(ip)
	for _, b := range modelBlocks {
		m := parseModelNet(b.CIDR)
		if m.bits == bits && v.Cmp(m.lo) >= 0 && v.Cmp(m.hi) <= 0 {
			return b.Name, true
		}
	}
	return "", false
}

// forms of an address: 4-byte / 16-byte mapped for v4, 16-byte for v6
func addrForms(ip net.IP) []net.IP {
	if v4 := ip.To4(); v4 != nil {
		return []net.IP{net.IP(append([]byte{}, v4...)), v4.To16()}
	}
	return []net.IP{ip.To16()}
}

func mkNet(base net.IP, prefix int, mapped bool) net.IPNet {
	if v4 := base.To4(); v4 != nil {
		m := net.CIDRMask(prefix, 32)
		ip := v4.Mask(m)
		if mapped {
			return net.IPNet{IP: ip.To16(), Mask: net.CIDRMask(96+prefix, 128)}
		}
		return net.IPNet{IP: net.IP(append([]byte{}, ip...)), Mask: m}
	}
	m := net.CIDRMask(prefix, 128)
	return net.IPNet{IP: base.To16().Mask(m), Mask: m}
}

type c19Case struct {
	What   string `json:"what"` // addr | net | net-mask | cert-san | cert-cn | cert-nc
	IP     string `json:"ip,omitempty"`
	Mask   string `json:"mask,omitempty"` // net-mask: the mask bytes in hex (4 or 16), any bit pattern
	Prefix int    `json:"prefix,omitempty"`
	Mapped bool   `json:"mapped,omitempty"`
	DER    []byte `json:"der,omitempty"`
	Base   string `json:"base,omitempty"`
}

// maskWitness: a member of the network (base, mask) - any mask - that lies in a model block, if there is one:
// inside a block the leading bits are the block's, so a member exists iff no masked bit among them disagrees with
// the base; the remaining bits follow the base where masked and are zero elsewhere.
func maskWitness(base net.IP, mask []byte) (net.IP, string, bool) {
	for _, b := range modelBlocks {
		_, bn, err := net.ParseCIDR(b.CIDR)
		if err != nil {
			continue
		}
		bip := bn.IP.To4()
		if len(base) == 16 {
			if bip != nil {
				continue // (IPv4 blocks in 16-byte form are judged through the mapped spelling of the 4-byte case)
			}
			bip = bn.IP.To16()
		} else if bip == nil {
			continue
		}
		ones, _ := bn.Mask.Size()
		w := make(net.IP, len(base))
		ok := true
		for i := 0; i < len(base)*8 && ok; i++ {
			bit := byte(0x80 >> uint(i%8))
			switch {
			case i < ones:
				if mask[i/8]&bit != 0 && (base[i/8]^bip[i/8])&bit != 0 {
					ok = false
				}
				w[i/8] |= bip[i/8] & bit
			case mask[i/8]&bit != 0:
				w[i/8] |= base[i/8] & bit
			}
		}
		if ok {
			return w, b.Name, true
		}
	}
	return nil, "", false
}

func netSig(ip net.IP, prefix int) string {
	n := mkNet(ip, prefix, false)
	return fmt.Sprintf("%s/%d", n.IP, prefix)
}

// witnessReserved: does the network contain an address that the model blocks
// (or the implementation's own address test) call reserved?
func witnessReserved(ip net.IP, prefix int) (net.IP, bool) {
	n := mkNet(ip, prefix, false)
	lo, bits := ipToBig(n.IP)
	size := new(big.Int).Lsh(big.NewInt(1), uint(bits-prefix))
	hi := new(big.Int).Add(lo, size)
	hi.Sub(hi, big.NewInt(1))
	for _, b := range modelBlocks {
		m := parseModelNet(b.CIDR)
		if m.bits != bits {
			continue
		}
		// intersection non-empty?
		if m.lo.Cmp(hi) <= 0 && lo.Cmp(m.hi) <= 0 {
			w := m.lo
			if lo.Cmp(m.lo) > 0 {
				w = lo
			}
			return bigToIP(w, bits), true
		}
	}
	// implementation's own witnesses: first and last address
	for _, w := range []*big.Int{lo, hi} {
		if a := bigToIP(w, bits); util.IsIANAReserved(a) {
			return a, true
		}
	}
	return nil, false
}

func judgeC19(rec *stats.Rec, c c19Case) (string, string) {
	return apiGuard(func() (string, string) { return judgeC19Inner(rec, c) })
}

func judgeC19Inner(rec *stats.Rec, c c19Case) (string, string) {
	switch c.What {
	case "addr":
		ip := net.ParseIP(c.IP)
		if ip == nil {
			return "", ""
		}
		forms := addrForms(ip)
		r0 := util.IsIANAReserved(forms[0])
		for _, f := range forms[1:] {
			if util.IsIANAReserved(f) != r0 {
				return "form|addr", fmt.Sprintf("%s is reserved=%v in 4-byte form but %v in IPv4-mapped form", c.IP, r0, !r0)
			}
		}
		if name, in := inModelBlocks(ip); in && !r0 {
			return "block-not-reserved|" + name, fmt.Sprintf("%s lies in %s but IsIANAReserved says false", c.IP, name)
		}
		for _, a := range publicAnchors {
			if a == c.IP && r0 {
				return "public-reserved|" + a, "well-known public address classified reserved"
			}
		}
		for fi, f := range forms {
			bits := 32
			if f.To4() == nil {
				bits = 128
			}
			n := mkNet(f, bits, fi == 1)
			if got := util.IntersectsIANAReserved(n); got != r0 {
				return "single-address-net", fmt.Sprintf("Intersects(%s/%d)=%v but IsIANAReserved(%s)=%v", c.IP, bits, got, c.IP, r0)
			}
		}
	case "net":
		ip := net.ParseIP(c.IP)
		if ip == nil {
			return "", ""
		}
		n := mkNet(ip, c.Prefix, c.Mapped)
		got := util.IntersectsIANAReserved(n)
		if w, has := witnessReserved(ip, c.Prefix); has && !got {
			return "contains-reserved|" + netSig(ip, c.Prefix), fmt.Sprintf("network %s contains reserved address %s but IntersectsIANAReserved says false", netSig(ip, c.Prefix), w)
		}
		// the same network written with the address as given (host bits not cleared - name constraints carry
		// address and mask as two byte strings, nothing forces the address to be the network's base)
		un := n
		if v4 := ip.To4(); v4 != nil && len(n.IP) == 4 {
			un.IP = append(net.IP{}, v4...)
		} else if v4 != nil && len(n.IP) == 16 {
			un.IP = append(net.IP{}, v4.To16()...)
		} else {
			un.IP = append(net.IP{}, ip.To16()...)
		}
		if g2 := util.IntersectsIANAReserved(un); g2 != got {
			return "unmasked-base|" + netSig(ip, c.Prefix), fmt.Sprintf("network %s intersects=%v when written with its base address and %v when written as %s/%d", netSig(ip, c.Prefix), got, g2, c.IP, c.Prefix)
		}
		if ip.To4() != nil {
			if other := util.IntersectsIANAReserved(mkNet(ip, c.Prefix, !c.Mapped)); other != got {
				return "form|net", fmt.Sprintf("network %s intersects=%v in one form and %v in the other", netSig(ip, c.Prefix), got, other)
			}
		}
		// monotonicity: every super-net of an intersecting network intersects
		if got {
			for p := c.Prefix - 1; p >= 0; p-- {
				if !util.IntersectsIANAReserved(mkNet(ip, p, c.Mapped)) {
					return "monotonic|" + netSig(ip, p), fmt.Sprintf("%s intersects reserved space but its super-net %s does not", netSig(ip, c.Prefix), netSig(ip, p))
				}
			}
		}
	case "net-mask":
		// a network given as (address, mask) with an arbitrary mask - what a name constraint carries is two byte
		// strings, and nothing makes the mask a prefix. It contains x iff x AND mask == address AND mask.
		ip := net.ParseIP(c.IP)
		mask, err := hex.DecodeString(c.Mask)
		if ip == nil || err != nil {
			return "", ""
		}
		base := ip.To16()
		if len(mask) == 4 {
			base = ip.To4()
		}
		if base == nil || len(base) != len(mask) {
			return "", ""
		}
		nw := net.IPNet{IP: append(net.IP{}, base...), Mask: net.IPMask(mask)}
		got := util.IntersectsIANAReserved(nw)
		if w, name, has := maskWitness(base, mask); has {
			rec.Class("mask_contains_reserved")
			if !nw.Contains(w) {
				return "", "" // the model's witness must be a member by Go's own reading too; otherwise not judged
			}
			if !got {
				return "contains-reserved|mask", fmt.Sprintf("network %s mask %s contains %s (%s) but IntersectsIANAReserved says false", base, c.Mask, w, name)
			}
		}
		// the 4-byte network and its IPv4-mapped spelling agree
		if len(mask) == 4 {
			m16 := append(bytes.Repeat([]byte{0xff}, 12), mask...)
			if other := util.IntersectsIANAReserved(net.IPNet{IP: net.IP(base).To16(), Mask: net.IPMask(m16)}); other != got {
				return "form|mask", fmt.Sprintf("network %s mask %s intersects=%v in 4-byte form and %v in IPv4-mapped form", base, c.Mask, got, other)
			}
		}
		// a wider network (one more mask bit cleared) still intersects
		if got {
			for i := 0; i < len(mask)*8; i++ {
				if mask[i/8]&(0x80>>uint(i%8)) == 0 {
					continue
				}
				m2 := append([]byte{}, mask...)
				m2[i/8] &^= 0x80 >> uint(i%8)
				if !util.IntersectsIANAReserved(net.IPNet{IP: append(net.IP{}, base...), Mask: net.IPMask(m2)}) {
					return "monotonic|mask", fmt.Sprintf("network %s mask %s intersects reserved space but the wider network with mask %x does not", base, c.Mask, m2)
				}
			}
		}
	case "cert-san", "cert-cn", "cert-nc":
		run := engine.Execute(engine.Case{Kind: gen.Cert, DER: c.DER}, true)
		if !run.Parsed || run.RS == nil {
			rec.Class("parse_rejected")
			return "", ""
		}
		v := engine.Verdicts(run.RS)
		cert := run.Cert
		check := func(name string, want bool) (string, string) {
			ex, ok := run.Exp[name]
			if !ok || ex.Stage != model.StExecuted {
				rec.Class("not_executed:" + name)
				return "", ""
			}
			rec.Class("executed:" + name)
			ws := lint.Pass
			if want {
				ws = lint.Error
			}
			if v[name].Status != ws {
				return "lint|" + name, fmt.Sprintf("%s reports %s, the address/network functions give %s (IPs %v, CN %q, permitted %v)", name, v[name].Status, ws, cert.IPAddresses, cert.Subject.CommonName, len(cert.PermittedIPAddresses))
			}
			return "", ""
		}
		anySAN := false
		for _, ip := range cert.IPAddresses {
			if util.IsIANAReserved(ip) {
				anySAN = true
			}
		}
		if s, m := check("e_ext_san_contains_reserved_ip", anySAN); m != "" {
			return s, m
		}
		cnRes := false
		if ip := net.ParseIP(cert.Subject.CommonName); ip != nil && util.IsIANAReserved(ip) {
			cnRes = true
		}
		if s, m := check("e_subject_contains_reserved_ip", cnRes); m != "" {
			return s, m
		}
		anyNC := false
		for _, pc := range cert.PermittedIPAddresses {
			if util.IntersectsIANAReserved(pc.Data) {
				anyNC = true
			}
		}
		if s, m := check("e_ext_nc_intersects_reserved_ip", anyNC); m != "" {
			return s, m
		}
	}
	return "", ""
}

func TestC19(t *testing.T) {
	rec := newRec(t, "C19")
	report := func(c c19Case) {
		rec.Eval()
		if sig, msg := judgeC19(rec, c); msg != "" {
			if rec.Report("c19", sig, msg, c) {
				t.Errorf("c19: %s: %s", sig, msg)
			}
		}
	}
	// enumerated: block edges (first, last, one below, one above), anchors; every super-/sub-net prefix of every block
	k := 0
	for _, b := range modelBlocks {
		m := parseModelNet(b.CIDR)
		_, n, _ := net.ParseCIDR(b.CIDR)
		ones, _ := n.Mask.Size()
		for _, d := range []int64{-1, 0, 1} {
			for _, edge := range []*big.Int{m.lo, m.hi} {
				v := new(big.Int).Add(edge, big.NewInt(d))
				if v.Sign() < 0 || v.BitLen() > m.bits {
					continue
				}
				k++
				if !stats.Mine(k) {
					continue
				}
				ip := bigToIP(v, m.bits)
				rec.NT(stats.HashS("edge", ip.String()))
				report(c19Case{What: "addr", IP: ip.String()})
			}
		}
		mid := new(big.Int).Add(m.lo, m.hi)
		mid.Rsh(mid, 1)
		for _, base := range []*big.Int{m.lo, mid, m.hi} {
			ip := bigToIP(base, m.bits)
			for p := 0; p <= m.bits; p++ {
				for _, mapped := range []bool{false, true} {
					if mapped && m.bits != 32 {
						continue
					}
					k++
					if !stats.Mine(k) {
						continue
					}
					if p < ones {
						rec.NT(stats.HashS("supernet", b.Name, fmt.Sprint(p), fmt.Sprint(mapped)))
					}
					report(c19Case{What: "net", IP: ip.String(), Prefix: p, Mapped: mapped})
				}
			}
		}
	}
	// structured interface identifiers: inside every IPv6 block of /64 or shorter (and two public /64s, where only
	// the consistency oracles speak) the low 64 bits spell the known ways of embedding an IPv4 address or a MAC -
	// ISATAP (0000:5efe / 0200:5efe + IPv4), IPv4 in the low 32 bits, ffff + IPv4, EUI-64, all ones, one - with a
	// public, a private, a loopback and a documentation IPv4 address. A block member is reserved whatever it embeds.
	{
		var prefixes []net.IP
		for _, b := range modelBlocks {
			if _, n, err := net.ParseCIDR(b.CIDR); err == nil && n.IP.To4() == nil {
				if ones, _ := n.Mask.Size(); ones <= 64 {
					prefixes = append(prefixes, n.IP.To16())
					mid := append(net.IP{}, n.IP.To16()...)
					mid[7] ^= 0x5a // another /64 of the same block
					if n.Contains(mid) {
						prefixes = append(prefixes, mid)
					}
				}
			}
		}
		prefixes = append(prefixes, net.ParseIP("2001:4860:4860::"), net.ParseIP("2606:4700:4700::"))
		v4s := [][]byte{{8, 8, 8, 8}, {10, 0, 0, 1}, {127, 0, 0, 1}, {192, 0, 2, 1}, {193, 0, 14, 129}}
		for _, pfx := range prefixes {
			var iids [][]byte
			for _, v4 := range v4s {
				iids = append(iids, append([]byte{0, 0, 0x5e, 0xfe}, v4...), append([]byte{2, 0, 0x5e, 0xfe}, v4...), append([]byte{0, 0, 0, 0}, v4...), append([]byte{0, 0, 0xff, 0xff}, v4...), append(append([]byte{}, v4...), 0, 0, 0, 0))
			}
			iids = append(iids, []byte{2, 0x11, 0x22, 0xff, 0xfe, 0x33, 0x44, 0x55}, []byte{0xff, 0xff, 0xff, 0xff, 0xff, 0xff, 0xff, 0xff}, []byte{0, 0, 0, 0, 0, 0, 0, 1}, []byte{0xfd, 0xff, 0xff, 0xff, 0xff, 0xff, 0xff, 0x80})
			for _, iid := range iids {
				k++
				if !stats.Mine(k) {
					continue
				}
				ip := append(append(net.IP{}, pfx[:8]...), iid...)
				rec.Class("structured_interface_id")
				rec.NT(stats.HashS("iid", ip.String()))
				report(c19Case{What: "addr", IP: ip.String()})
				report(c19Case{What: "net", IP: ip.String(), Prefix: 128})
			}
		}
	}
	for _, a := range publicAnchors {
		k++
		if !stats.Mine(k) {
			continue
		}
		report(c19Case{What: "addr", IP: a})
		ip := net.ParseIP(a)
		bits := 128
		if ip.To4() != nil {
			bits = 32
		}
		report(c19Case{What: "net", IP: a, Prefix: bits})
	}
	rec.Exhaustive("edges of every model block; every prefix length around first/middle/last address of every block, both forms; anchors", true)
	rec.Sample(map[string]interface{}{"blocks": modelBlocks, "anchors": publicAnchors})

	drawIP := func(rt *rapid.T) net.IP {
		switch rapid.IntRange(0, 5).Draw(rt, "ipkind") {
		case 0: // near a block
			b := modelBlocks[rapid.IntRange(0, len(modelBlocks)-1).Draw(rt, "block")]
			m := parseModelNet(b.CIDR)
			edge := m.lo
			if rapid.Bool().Draw(rt, "hi") {
				edge = m.hi
			}
			v := new(big.Int).Add(edge, big.NewInt(int64(rapid.IntRange(-3, 3).Draw(rt, "d"))))
			if v.Sign() < 0 || v.BitLen() > m.bits {
				v = edge
			}
			return bigToIP(v, m.bits)
		case 1: // anchor with low-order perturbation
			a := net.ParseIP(publicAnchors[rapid.IntRange(0, len(publicAnchors)-1).Draw(rt, "anchor")])
			if v4 := a.To4(); v4 != nil {
				v4 = append(net.IP{}, v4...)
				v4[3] = byte(rapid.IntRange(0, 255).Draw(rt, "low"))
				return v4
			}
			a = append(net.IP{}, a.To16()...)
			for i := 6; i < 16; i++ {
				a[i] = rapid.Byte().Draw(rt, "lowv6")
			}
			return a
		case 2, 3:
			return net.IP(rapid.SliceOfN(rapid.Byte(), 4, 4).Draw(rt, "v4"))
		default:
			return net.IP(rapid.SliceOfN(rapid.Byte(), 16, 16).Draw(rt, "v6"))
		}
	}
	rapidRun(t, "functions", perShard(stats.Scale(60000, 3000000)), func(rt *rapid.T) {
		ip := drawIP(rt)
		rec.Eval()
		c := c19Case{What: "addr", IP: ip.String()}
		if sig, msg := judgeC19(rec, c); msg != "" {
			fail(rt, rec, "c19", sig, msg, c)
		}
		bits := 128
		if ip.To4() != nil {
			bits = 32
		}
		c2 := c19Case{What: "net", IP: ip.String(), Prefix: rapid.IntRange(0, bits).Draw(rt, "prefix"), Mapped: bits == 32 && rapid.Bool().Draw(rt, "mapped")}
		if sig, msg := judgeC19(rec, c2); msg != "" {
			fail(rt, rec, "c19", sig, msg, c2)
		}
		if _, in := inModelBlocks(ip); in {
			rec.NT(stats.HashS("in", ip.String()))
		}
	})
	// masks that are not prefixes (enumerated): every public anchor x every model block of its family - the mask keeps
	// every bit on which anchor and block agree, so the network has the public anchor as its address and reaches into the
	// block; and every single hole in a host mask around each anchor
	{
		k := 0
		for _, a := range publicAnchors {
			aip := net.ParseIP(a)
			base := aip.To4()
			if base == nil {
				base = aip.To16()
			}
			for _, b := range modelBlocks {
				_, bn, _ := net.ParseCIDR(b.CIDR)
				bip := bn.IP.To4()
				if len(base) == 16 {
					bip = bn.IP.To16()
					if bn.IP.To4() != nil {
						continue
					}
				}
				if bip == nil || len(bip) != len(base) {
					continue
				}
				ones, _ := bn.Mask.Size()
				for variant := 0; variant < 3; variant++ {
					k++
					if !stats.Mine(k) {
						continue
					}
					mask := bytes.Repeat([]byte{0xff}, len(base))
					for i := 0; i < ones; i++ {
						bit := byte(0x80 >> uint(i%8))
						if (base[i/8]^bip[i/8])&bit != 0 {
							mask[i/8] &^= bit
						}
					}
					switch variant {
					case 1: // host part open as well
						for i := ones; i < len(base)*8; i++ {
							mask[i/8] &^= 0x80 >> uint(i%8)
						}
					case 2: // every other host bit open
						for i := ones; i < len(base)*8; i += 2 {
							mask[i/8] &^= 0x80 >> uint(i%8)
						}
					}
					c := c19Case{What: "net-mask", IP: a, Mask: hex.EncodeToString(mask)}
					rec.Eval()
					rec.NT(stats.HashS("mask", a, b.Name, fmt.Sprint(variant)))
					if sig, msg := judgeC19(rec, c); msg != "" {
						if rec.Report("c19", sig, msg, c) {
							t.Fatalf("c19 %s mask %x: %s: %s", a, mask, sig, msg)
						}
					}
				}
			}
		}
	}
	rapidRun(t, "masks", perShard(stats.Scale(20000, 800000)), func(rt *rapid.T) {
		ip := drawIP(rt)
		base := ip.To4()
		if base == nil || (len(ip) == 16 && rapid.Bool().Draw(rt, "as16")) {
			base = ip.To16()
		}
		mask := make([]byte, len(base))
		switch rapid.IntRange(0, 2).Draw(rt, "maskkind") {
		case 0: // a prefix mask with a few holes
			copy(mask, net.CIDRMask(rapid.IntRange(0, len(base)*8).Draw(rt, "prefix"), len(base)*8))
			for i, n := 0, rapid.IntRange(1, 4).Draw(rt, "holes"); i < n; i++ {
				h := rapid.IntRange(0, len(base)*8-1).Draw(rt, "hole")
				mask[h/8] ^= 0x80 >> uint(h%8)
			}
		case 1: // whole octets
			for i := range mask {
				mask[i] = rapid.SampledFrom([]byte{0, 0xff, 0xff}).Draw(rt, "octet")
			}
		default:
			copy(mask, rapid.SliceOfN(rapid.Byte(), len(base), len(base)).Draw(rt, "maskbytes"))
		}
		c := c19Case{What: "net-mask", IP: net.IP(base).String(), Mask: hex.EncodeToString(mask)}
		rec.Eval()
		if sig, msg := judgeC19(rec, c); msg != "" {
			fail(rt, rec, "c19", sig, msg, c)
		}
	})
	// certificate level
	hm := homeObjects()
	co := gen.LoadCorpus()
	pick := func(name string) []int { return hm[name] }
	rapidRun(t, "certificates", perShard(stats.Scale(2000, 80000)), func(rt *rapid.T) {
		which := rapid.SampledFrom([]string{"e_ext_san_contains_reserved_ip", "e_subject_contains_reserved_ip", "e_ext_nc_intersects_reserved_ip"}).Draw(rt, "which")
		hs := pick(which)
		if len(hs) == 0 {
			rec.Class("no_home:" + which)
			return
		}
		o := co.Certs[hs[rapid.IntRange(0, len(hs)-1).Draw(rt, "home")]]
		pc, ok := gen.ParseCert(o.DER)
		v, err := gen.ViewCert(o.DER)
		if !ok || err != nil {
			return
		}
		c := c19Case{Base: o.Name}
		switch which {
		case "e_ext_san_contains_reserved_ip":
			c.What = "cert-san"
			gns := []*dt.Node{gen.GNDNS([]byte("ip.example.com"))}
			for i, n := 0, rapid.IntRange(1, 3).Draw(rt, "nips"); i < n; i++ {
				ip := drawIP(rt)
				if v4 := ip.To4(); v4 != nil && len(ip) == 4 {
					gns = append(gns, gen.GNIP(v4))
				} else {
					gns = append(gns, gen.GNIP(ip.To16()))
				}
			}
			v.SetSAN(false, gns...)
		case "e_subject_contains_reserved_ip":
			c.What = "cert-cn"
			ip := drawIP(rt)
			s := ip.String()
			if rapid.IntRange(0, 5).Draw(rt, "notip") == 0 {
				s = strings.Replace(s, ".", "-", 1)
			}
			v.SetCN([]byte(s), 12)
		default:
			c.What = "cert-nc"
			var subtrees []*dt.Node
			for i, n := 0, rapid.IntRange(1, 3).Draw(rt, "nnets"); i < n; i++ {
				ip := drawIP(rt)
				bits := 128
				if len(ip) == 4 {
					bits = 32
				}
				nw := mkNet(ip, rapid.IntRange(0, bits).Draw(rt, "prefix"), false)
				if rapid.IntRange(0, 3).Draw(rt, "hostbits") == 0 {
					// the constraint as some tools write it: the address as given, host bits and all, plus the mask
					if v4 := ip.To4(); v4 != nil && len(nw.IP) == 4 {
						nw.IP = append(net.IP{}, v4...)
					} else if len(nw.IP) == 16 {
						nw.IP = append(net.IP{}, ip.To16()...)
					}
				}
				if rapid.IntRange(0, 3).Draw(rt, "maskholes") == 0 {
					// a mask that is not a prefix: the extension carries the bytes as they are
					nw.Mask = append(net.IPMask{}, nw.Mask...)
					for j, nh := 0, rapid.IntRange(1, 3).Draw(rt, "nholes"); j < nh; j++ {
						h := rapid.IntRange(0, len(nw.Mask)*8-1).Draw(rt, "holeat")
						nw.Mask[h/8] ^= 0x80 >> uint(h%8)
					}
				}
				subtrees = append(subtrees, dt.Seq(gen.GNIP(append(append([]byte{}, nw.IP...), nw.Mask...))))
			}
			nc := []*dt.Node{dt.Cons(2, 0, subtrees...)}
			// excluded subtrees too: related to a permitted one (its base address as a narrower or a wider
			// network, the same network) or unrelated - what is permitted is judged on its own
			if rapid.Bool().Draw(rt, "excluded") {
				var ex []*dt.Node
				for i, n := 0, rapid.IntRange(1, 2).Draw(rt, "nex"); i < n; i++ {
					var nw net.IPNet
					if rapid.IntRange(0, 3).Draw(rt, "exrel") > 0 {
						pb := subtrees[rapid.IntRange(0, len(subtrees)-1).Draw(rt, "exof")].Children[0].Content
						half := len(pb) / 2
						ip := net.IP(append([]byte{}, pb[:half]...))
						nw = mkNet(ip, rapid.IntRange(0, half*8).Draw(rt, "exprefix"), false)
					} else {
						ip := drawIP(rt)
						bits := 128
						if len(ip) == 4 {
							bits = 32
						}
						nw = mkNet(ip, rapid.IntRange(0, bits).Draw(rt, "exprefix2"), false)
					}
					ex = append(ex, dt.Seq(gen.GNIP(append(append([]byte{}, nw.IP...), nw.Mask...))))
				}
				nc = append(nc, dt.Cons(2, 1, ex...))
			}
			v.SetExt(gen.OIDExtNC, true, dt.Seq(nc...))
		}
		if pc.SelfSigned {
			v.SelfSign()
		}
		c.DER = v.DER()
		rec.Eval()
		if sig, msg := judgeC19(rec, c); msg != "" {
			fail(rt, rec, "c19", sig, msg, c)
		}
		rec.NT(stats.Hash(c.DER))
	})
}

func init() {
	registerReplayer("c19", func(rec *stats.Rec, raw json.RawMessage) (string, string) {
		var c c19Case
		if err := json.Unmarshal(raw, &c); err != nil {
			return "decode", err.Error()
		}
		return judgeC19(rec, c)
	})
}
