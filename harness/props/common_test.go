package props

import (
	"encoding/json"
	"flag"
	"fmt"
	"net"
	"os"
	"path/filepath"
	"runtime/debug"
	"sort"
	"strconv"
	"strings"
	"testing"

	"pgregory.net/rapid"

	"verifharness/model"
	"verifharness/stats"
)

// newRec returns the per-test recorder; its fragment is flushed at test end.
func newRec(t *testing.T, id string) *stats.Rec {
	r := stats.New(id)
	t.Cleanup(r.Flush)
	return r
}

func verifSeed() uint64 {
	if v, err := strconv.ParseUint(os.Getenv("VERIF_SEED"), 10, 64); err == nil {
		return v
	}
	return 1
}

var subIndex = map[string]uint64{}

// rapidRun runs one rapid property as a sub-test with `checks` cases (already
// divided per shard by the caller via perShard) and a seed that is a pure
// function of VERIF_SEED, the shard and the sub-property name.
func rapidRun(t *testing.T, name string, checks int, prop func(*rapid.T)) {
	t.Helper()
	if checks < 1 {
		checks = 1
	}
	shard, _ := stats.Shard()
	seed := 1 + (verifSeed()*1000003+uint64(shard)*7919+stats.HashS(name)%100003)%(1<<31-1)
	must(flag.Set("rapid.checks", strconv.Itoa(checks)))
	must(flag.Set("rapid.seed", strconv.FormatUint(seed, 10)))
	must(flag.Set("rapid.nofailfile", "true"))
	must(flag.Set("rapid.shrinktime", "20s"))
	t.Run(name, func(t *testing.T) { rapid.Check(t, prop) })
}

func must(err error) {
	if err != nil {
		panic(err)
	}
}

// perShard divides a total case count over the shards.
func perShard(total int) int {
	_, n := stats.Shard()
	c := (total + n - 1) / n
	if c < 1 {
		c = 1
	}
	return c
}

// --- replay ------------------------------------------------------------------

// A replayer re-judges one saved case without rapid. It returns a non-empty
// message when the property is violated on that case.
type replayer func(rec *stats.Rec, raw json.RawMessage) (sig, msg string)

var replayers = map[string]replayer{}

func registerReplayer(oracle string, f replayer) { replayers[oracle] = f }

// TestReplay re-runs saved cases: $VERIF_REPLAY is a file or a directory of
// *.json violation files ({property, oracle, signature, message, case}).
func TestReplay(t *testing.T) {
	p := os.Getenv("VERIF_REPLAY")
	if p == "" {
		t.Skip("VERIF_REPLAY not set")
	}
	var files []string
	if st, err := os.Stat(p); err == nil && st.IsDir() {
		m, _ := filepath.Glob(filepath.Join(p, "*.json"))
		sort.Strings(m)
		files = m
	} else if err == nil {
		files = []string{p}
	}
	prop := os.Getenv("VERIF_PROPERTY")
	rec := newRec(t, prop)
	for _, f := range files {
		b, err := os.ReadFile(f)
		if err != nil {
			t.Fatalf("read %s: %v", f, err)
		}
		var v stats.Violation
		if err := json.Unmarshal(b, &v); err != nil {
			t.Fatalf("decode %s: %v", f, err)
		}
		if prop != "" && v.Property != prop {
			continue
		}
		rp, ok := replayers[v.Oracle]
		if !ok {
			if v.Oracle == "mock" || v.Oracle == "c10" || v.Oracle == "c18gen" {
				continue // replayed by the mockreg / racecheck / generator binaries
			}
			t.Fatalf("%s: no replayer for oracle %q", f, v.Oracle)
		}
		rec.Property = v.Property
		rec.Eval()
		rec.Class("replayed")
		sig, msg := rp(rec, v.Case)
		if msg != "" {
			if rec.Report(v.Oracle, sig, msg, json.RawMessage(v.Case)) {
				t.Errorf("REPLAY-VIOLATION %s: %s: %s", filepath.Base(f), sig, msg)
			}
		} else {
			fmt.Printf("replay %s: holds\n", filepath.Base(f))
		}
	}
}

// fail is the common tail of a rapid oracle: report (unless known) and fail.
func fail(t interface{ Fatalf(string, ...any) }, rec *stats.Rec, oracle, sig, msg string, cas interface{}) {
	if rec.Report(oracle, sig, msg, cas) {
		t.Fatalf("%s: %s: %s", oracle, sig, msg)
	}
}

func short(s string, n int) string {
	if len(s) > n {
		return s[:n] + "…"
	}
	return s
}

func lower(s string) string { return strings.ToLower(s) }

func getenv(k string) string { return os.Getenv(k) }

func netParseIP(s string) bool { return net.ParseIP(s) != nil }

// apiGuard runs a judge that calls zlint's public API directly (registry, filter,
// JSON, helper functions). Valid calls must not panic: a panic whose stack runs
// through zlint's own code is a violation (signature = top zlint frame); a panic
// confined to the harness is re-raised (inconclusive, a harness bug).
func apiGuard(f func() (string, string)) (sig, msg string) {
	defer func() {
		if p := recover(); p != nil {
			st := string(debug.Stack())
			fr := model.TopZlintFrame(st)
			if fr == "?" {
				panic(p)
			}
			sig, msg = "api-panic|"+fr, fmt.Sprintf("zlint panics on a valid API call: %v (at %s)", p, fr)
		}
	}()
	return f()
}
