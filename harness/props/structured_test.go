package props

import (
	"fmt"
	"math/big"
	"sort"
	"strings"
	"sync"
	"time"

	"pgregory.net/rapid"

	"verifharness/gen"

	dt "verifharness/dertree"
)

// structured certificates: content is *built* into the places lints read
// (SAN, IAN, CN, subject/issuer DN, AIA, validity, key), on corpus
// certificates that are home to the lints concerned. Used by C20 and, as an
// additional generator, by C02, C05, C06, C07.

type structCert struct {
	DER  []byte
	Base string
	Fam  string
	Desc []string
}

var (
	famOnce  sync.Once
	famBases map[string][]int
	tlsBases []int
)

func structBases() (map[string][]int, []int) {
	famOnce.Do(func() {
		hm := homeObjects()
		famBases = map[string][]int{}
		for _, p := range rulePairs {
			in := map[int]bool{}
			for _, i := range hm[p.A] {
				in[i] = true
			}
			for _, i := range hm[p.B] {
				if in[i] {
					famBases[p.Fam] = append(famBases[p.Fam], i)
				}
			}
		}
		tlsBases = famBases["rfc-br-dns"]
		famBases["onion"] = tlsBases
		famBases["rsa-key"] = hm["e_rsa_mod_less_than_2048_bits"]
		famBases["eku-ku"] = tlsBases
		smime := map[int]bool{}
		for _, ln := range []string{"e_mailbox_address_shall_contain_an_rfc822_name", "e_single_email_subject_if_present", "e_commonname_mailbox_validated", "e_smime_legacy_aia_shall_have_one_http"} {
			for _, i := range hm[ln] {
				if homeClass[ln][i] >= 1 && !smime[i] {
					smime[i] = true
					famBases["smime-subject"] = append(famBases["smime-subject"], i)
				}
			}
		}
		sort.Ints(famBases["smime-subject"])
		for _, ln := range []string{"w_distribution_point_missing_ldap_or_uri", "e_distribution_point_incomplete", "e_sub_cert_crl_distribution_points_does_not_contain_url"} {
			for _, i := range hm[ln] {
				if homeClass[ln][i] >= 1 {
					famBases["cdp"] = append(famBases["cdp"], i)
				}
			}
		}
		sort.Ints(famBases["cdp"])
	})
	return famBases, tlsBases
}

var structFamilies = []string{"rfc-br-dns", "san-ian", "subject-issuer", "aia", "validity", "name-length", "onion", "rsa-key", "smime-subject", "cdp", "eku-ku", "opaque-ext"}

var latestEffective = time.Date(2024, 6, 1, 0, 0, 0, 0, time.UTC) // after every pair member's effective date

var strTagsAll = []uint32{12, 19, 20, 22, 30, 28}

func drawStructured(rt *rapid.T, fam string) (structCert, bool) {
	fb, tls := structBases()
	co := gen.LoadCorpus()
	bs := fb[fam]
	if len(bs) == 0 || rapid.IntRange(0, 3).Draw(rt, "tlsbase") == 0 {
		bs = tls
	}
	if len(bs) == 0 {
		return structCert{}, false
	}
	o := co.Certs[bs[rapid.IntRange(0, len(bs)-1).Draw(rt, "base")]]
	v, err := gen.ViewCert(o.DER)
	if err != nil {
		return structCert{}, false
	}
	var desc []string
	switch fam {
	case "rfc-br-dns":
		n := rapid.IntRange(1, 5).Draw(rt, "n")
		var gns []*dt.Node
		for i := 0; i < n; i++ {
			var s string
			if rapid.IntRange(0, 5).Draw(rt, "rndname") == 0 {
				s = rapid.StringMatching(`[a-z0-9_*.-]{1,30}\.(com|org|co\.uk|invalid)`).Draw(rt, "name")
			} else {
				s = dnsPool()[rapid.IntRange(0, len(dnsPool())-1).Draw(rt, "dns")]
			}
			gns = append(gns, gen.GNDNS([]byte(s)))
			desc = append(desc, s)
		}
		v.SetSAN(false, gns...)
		switch rapid.IntRange(0, 3).Draw(rt, "cn") {
		case 0:
			v.RemoveCN()
			desc = append(desc, "cn:none")
		case 1:
			cn := desc[rapid.IntRange(0, n-1).Draw(rt, "cnidx")]
			v.SetCN([]byte(cn), 12)
			desc = append(desc, "cn:"+cn)
		case 2:
			cn := dnsPool()[rapid.IntRange(0, len(dnsPool())-1).Draw(rt, "cndict")]
			v.SetCN([]byte(cn), 12)
			desc = append(desc, "cn(other):"+cn)
		default:
			desc = append(desc, "cn:kept")
		}
	case "san-ian":
		n := rapid.IntRange(0, 4).Draw(rt, "n")
		var gns, gns2 []*dt.Node
		for i := 0; i < n; i++ {
			g, d := gen.DrawGN(rt)
			if rapid.IntRange(0, 6).Draw(rt, "hostile") == 0 {
				b := gen.Dict[rapid.IntRange(0, len(gen.Dict)-1).Draw(rt, "dict")]
				if len(b) < 400 {
					arm := rapid.SampledFrom([]uint32{1, 2, 6}).Draw(rt, "arm")
					g, d = dt.Prim(2, arm, b), fmt.Sprintf("arm%d:%q", arm, short(string(b), 40))
				}
			}
			gns = append(gns, g)
			gns2 = append(gns2, g.Clone())
			desc = append(desc, d)
		}
		v.SetSAN(false, gns...)
		v.SetIAN(gns2...)
	case "subject-issuer":
		var rdns [][]*dt.Node
		for i, n := 0, rapid.IntRange(1, 5).Draw(rt, "nrdn"); i < n; i++ {
			var rdn []*dt.Node
			for j, m := 0, rapid.SampledFrom([]int{1, 1, 1, 2, 3}).Draw(rt, "natv"); j < m; j++ {
				oid := rapid.SampledFrom([][]int{gen.OIDC, gen.OIDO, gen.OIDOU, gen.OIDCN, gen.OIDL, gen.OIDST, gen.OIDSerial, gen.OIDGiven, gen.OIDSurname, gen.OIDOrgID, gen.OIDPostal, gen.OIDStreet, gen.OIDEmailAt, gen.OIDDC}).Draw(rt, "attr")
				val := rapid.SampledFrom([]string{"US", "us", " US", "DE ", "Example Org", " lead", "trail ", "  both  ", "x", "", "\tx", "x\n", "Exämple", "Jane", "Doe", "&amp;Co", "a@b.com", "VATDE-123456789", "NTRUS-12345", "N/A", "-", "."}).Draw(rt, "val")
				tag := strTagsAll[rapid.IntRange(0, len(strTagsAll)-1).Draw(rt, "tag")]
				b := []byte(val)
				if tag == 30 { // BMPString: UTF-16BE
					b = nil
					for _, r := range val {
						b = append(b, byte(r>>8), byte(r))
					}
				}
				rdn = append(rdn, gen.ATV(oid, tag, b))
				desc = append(desc, fmt.Sprintf("%v/%d=%q", oid[len(oid)-1], tag, val))
			}
			rdns = append(rdns, rdn)
		}
		name := gen.RDNSeq(rdns...)
		v.SetSubject(name)
		v.SetIssuer(name.Clone())
	case "aia":
		var ads []*dt.Node
		for i, n := 0, rapid.IntRange(1, 3).Draw(rt, "n"); i < n; i++ {
			u, _ := gen.DrawURI(rt)
			if rem := removedTLDs(); len(rem) > 0 && rapid.IntRange(0, 4).Draw(rt, "removedtld") == 0 {
				// a host under a TLD that has since left the root zone: valid at one instant, not at another
				u = "http://ocsp.example." + rem[rapid.IntRange(0, len(rem)-1).Draw(rt, "tld")] + "/x"
			} else if rapid.IntRange(0, 3).Draw(rt, "internal") == 0 {
				u = "http://" + rapid.SampledFrom([]string{"intranet", "ocsp.corp", "ca.local", "10.1.2.3", "[::1]", "ocsp.example.com", "host.invalidtld", "x.test", "ca.example.com:8080", "%41.com"}).Draw(rt, "host") + "/x"
			}
			m := oidOCSP
			if rapid.Bool().Draw(rt, "caissuers") {
				m = oidCAIssuers
			}
			ads = append(ads, dt.Seq(dt.OID(m...), gen.GNURI([]byte(u))))
			desc = append(desc, u)
		}
		v.SetExt(gen.OIDExtAIA, false, dt.Seq(ads...))
		// both scopes: serverAuth + emailProtection, S/MIME policy, e-mail SAN
		v.SetEKU(gen.EKUServerAuth, gen.EKUEmail)
		v.SetPolicies([]int{2, 23, 140, 1, 2, 1}, []int{2, 23, 140, 1, 5, 1, rapid.IntRange(1, 3).Draw(rt, "gen")})
		v.SetSAN(false, gen.GNDNS([]byte("www.example.com")), gen.GNEmail([]byte("user@example.com")))
	case "validity":
		nb := time.Date(2020, 9, 1, 0, 0, 0, 0, time.UTC).Add(time.Duration(rapid.IntRange(-3, 1500).Draw(rt, "day")) * 24 * time.Hour)
		var na time.Time
		if rapid.IntRange(0, 9).Draw(rt, "huge") == 0 {
			na = rapid.SampledFrom([]time.Time{time.Date(9999, 12, 31, 23, 59, 59, 0, time.UTC), time.Date(2320, 1, 1, 0, 0, 0, 0, time.UTC), time.Date(2100, 1, 1, 0, 0, 0, 0, time.UTC)}).Draw(rt, "far")
			desc = append(desc, "notAfter="+na.Format(time.RFC3339))
		} else {
			days := rapid.SampledFrom([]int{396, 397, 398, 399, 365, 825, 1, 3650}).Draw(rt, "days")
			off := rapid.SampledFrom([]int{-2, -1, 0, 1, 2, 86399}).Draw(rt, "off")
			na = nb.Add(time.Duration(days)*24*time.Hour + time.Duration(off)*time.Second)
			desc = append(desc, fmt.Sprintf("notBefore=%s length=%dd%+ds", nb.Format(time.RFC3339), days, off))
		}
		v.SetValidity(nb, na, gen.TimeForm(rapid.IntRange(0, 3).Draw(rt, "form")))
	case "name-length":
		mk := func(lbl string) (int, []byte) {
			n := rapid.SampledFrom([]int{1, 63, 64, 65, 66, 32767, 32768, 32769, 33000}).Draw(rt, lbl)
			unit := rapid.SampledFrom([]string{"a", "é", "€"}).Draw(rt, lbl+"unit")
			if rapid.IntRange(0, 3).Draw(rt, lbl+"padded") == 0 {
				// long only because of blanks around a short value
				core := rapid.SampledFrom([]string{"Alice", "A", strings.Repeat("b", 64), strings.Repeat("c", 65)}).Draw(rt, lbl+"core")
				pad := strings.Repeat(" ", n)
				switch rapid.IntRange(0, 2).Draw(rt, lbl+"side") {
				case 0:
					return n + len(core), []byte(core + pad)
				case 1:
					return n + len(core), []byte(pad + core)
				}
				return 2*n + len(core), []byte(pad + core + pad)
			}
			return n, []byte(strings.Repeat(unit, n))
		}
		gl, gv := mk("given")
		sl, sv := mk("surname")
		subj := v.Subject()
		subj.Children = append(subj.Children, dt.Set(gen.ATV(gen.OIDGiven, 12, gv)), dt.Set(gen.ATV(gen.OIDSurname, 12, sv)))
		desc = append(desc, fmt.Sprintf("givenName=%d runes surname=%d runes", gl, sl))
	case "onion":
		onions := []string{"foo.onion", "pg6mmjiyjmcrsslvykfwnntlaru7p5svn6y2ymmju6nubxndf4pscryd.onion", "www.pg6mmjiyjmcrsslvykfwnntlaru7p5svn6y2ymmju6nubxndf4pscryd.onion",
			"facebookcorewwwi.onion", "WWW.Facebookcorewwwi.onion", "*.zzzzzzzzzzzzzzzz.onion", "a.b.onion", "onion", "x.ONION"}
		n := rapid.IntRange(2, 7).Draw(rt, "n")
		var gns []*dt.Node
		for i := 0; i < n; i++ {
			var s string
			if rapid.IntRange(0, 2).Draw(rt, "isonion") > 0 {
				s = onions[rapid.IntRange(0, len(onions)-1).Draw(rt, "onion")]
			} else {
				s = dnsPool()[rapid.IntRange(0, len(dnsPool())-1).Draw(rt, "dns")]
			}
			gns = append(gns, gen.GNDNS([]byte(s)))
			desc = append(desc, s)
		}
		v.SetSAN(false, gns...)
		if rapid.Bool().Draw(rt, "cnonion") {
			cn := desc[rapid.IntRange(0, n-1).Draw(rt, "cnidx")]
			if rapid.Bool().Draw(rt, "cnupper") && cn != "" {
				cn = strings.ToUpper(cn[:1]) + cn[1:]
			}
			v.SetCN([]byte(cn), 12)
			desc = append(desc, "cn:"+cn)
		}
		if rapid.Bool().Draw(rt, "ev") {
			v.SetPolicies([]int{2, 23, 140, 1, 1})
			desc = append(desc, "policy:EV")
		}
	case "eku-ku":
		// extended key usage x key usage: 1-3 key purposes and a key usage of 0-4 named bits (any of the nine)
		var ekus [][]int
		for i, n := 0, rapid.IntRange(1, 3).Draw(rt, "neku"); i < n; i++ {
			ekus = append(ekus, gen.AllEKUs[rapid.IntRange(0, len(gen.AllEKUs)-1).Draw(rt, "eku")])
		}
		v.SetEKU(ekus...)
		var bits uint16
		for i, n := 0, rapid.IntRange(0, 4).Draw(rt, "nbits"); i < n; i++ {
			bits |= 1 << uint(15-rapid.IntRange(0, 8).Draw(rt, "bit"))
		}
		v.SetExt([]int{2, 5, 29, 15}, rapid.Bool().Draw(rt, "kucrit"), gen.KeyUsageBits(bits))
		desc = append(desc, fmt.Sprintf("ekus=%v keyUsage=%016b", ekus, bits))
	case "cdp":
		// cRLDistributionPoints from its grammar: 1-3 DistributionPoints, each with any subset of
		// distributionPoint (fullName of URIs / directoryName, or nameRelativeToCRLIssuer), reasons and cRLIssuer
		// (directoryName equal to this certificate's issuer, to its subject, to neither; a URI)
		own := func(n *dt.Node) *dt.Node { return gen.GNDirName(n.Clone()) }
		var dps []*dt.Node
		for i, n := 0, rapid.IntRange(1, 3).Draw(rt, "ndp"); i < n; i++ {
			var fields []*dt.Node
			d := ""
			switch rapid.IntRange(0, 5).Draw(rt, "dpname") {
			case 0:
				d += "no-name "
			case 1, 2:
				u, _ := gen.DrawURI(rt)
				fields = append(fields, dt.Cons(2, 0, dt.Cons(2, 0, gen.GNURI([]byte(u)))))
				d += "fullName=" + u + " "
			case 3:
				fields = append(fields, dt.Cons(2, 0, dt.Cons(2, 0, gen.GNURI([]byte("ldap://ldap.example.com/cn=crl")), own(v.Issuer()))))
				d += "fullName=ldap+issuerDN "
			case 4:
				fields = append(fields, dt.Cons(2, 0, dt.Cons(2, 1, gen.ATV(gen.OIDCN, 12, []byte("crl1")))))
				d += "relativeName "
			default:
				fields = append(fields, dt.Cons(2, 0, dt.Cons(2, 0)))
				d += "fullName=empty "
			}
			if rapid.IntRange(0, 3).Draw(rt, "reasons") == 0 {
				fields = append(fields, dt.Prim(2, 1, rapid.SampledFrom([][]byte{{0x01, 0x7e}, {0x07, 0x80}, {0x00}, {}}).Draw(rt, "rbits")))
				d += "reasons "
			}
			switch rapid.IntRange(0, 5).Draw(rt, "crlissuer") {
			case 0:
				fields = append(fields, dt.Cons(2, 2, own(v.Issuer())))
				d += "cRLIssuer=issuerDN"
			case 1:
				fields = append(fields, dt.Cons(2, 2, own(v.Subject())))
				d += "cRLIssuer=subjectDN"
			case 2:
				fields = append(fields, dt.Cons(2, 2, gen.GNDirName(gen.RDNSeq([]*dt.Node{gen.ATV(gen.OIDCN, 12, []byte("Indirect CRL Issuer"))}))))
				d += "cRLIssuer=otherDN"
			case 3:
				fields = append(fields, dt.Cons(2, 2, gen.GNURI([]byte("http://crl.example.com/")), own(v.Issuer())))
				d += "cRLIssuer=uri+issuerDN"
			}
			dps = append(dps, dt.Seq(fields...))
			desc = append(desc, d)
		}
		v.SetExt([]int{2, 5, 29, 31}, rapid.IntRange(0, 5).Draw(rt, "critical") == 0, dt.Seq(dps...))
	case "opaque-ext":
		// an extension no parser decodes, first or last, whose value is a nest of lengths that lie (gen.LyingNest),
		// random bytes, an indefinite length, or a deep honest nest
		var val []byte
		switch rapid.IntRange(0, 4).Draw(rt, "shape") {
		case 0, 1:
			d, lo, sl := rapid.IntRange(0, 16).Draw(rt, "depth"), rapid.IntRange(1, 3).Draw(rt, "lenoctets"), rapid.IntRange(0, 3).Draw(rt, "slack")
			past := rapid.IntRange(0, d*sl+48).Draw(rt, "past")
			val = gen.LyingNest(rapid.SampledFrom([]int{40, 130, 300, 70000}).Draw(rt, "total"), d, lo, sl, past)
			desc = append(desc, fmt.Sprintf("lying-nest depth=%d lenoctets=%d slack=%d past=%d", d, lo, sl, past))
		case 2:
			val = rapid.SliceOfN(rapid.Byte(), 0, 64).Draw(rt, "bytes")
			desc = append(desc, "random-bytes")
		case 3:
			val = []byte{0x30, 0x80, 0x04, 0x01, 0x41, 0x00, 0x00}
			desc = append(desc, "indefinite-length")
		default:
			n := dt.Prim(0, 5, nil)
			for i, d := 0, rapid.IntRange(1, 200).Draw(rt, "honestdepth"); i < d; i++ {
				n = dt.Seq(n)
			}
			val = n.Encode()
			desc = append(desc, "deep-honest-nest")
		}
		ext := dt.Seq(dt.OID(1, 3, 6, 1, 4, 1, 99999, 7, rapid.IntRange(1, 3).Draw(rt, "arc")), dt.Prim(0, 4, val))
		if rapid.Bool().Draw(rt, "critical") {
			ext.Children = []*dt.Node{ext.Children[0], dt.Prim(0, 1, []byte{0xff}), ext.Children[1]}
		}
		seq := v.EnsureExtensions()
		if rapid.IntRange(0, 3).Draw(rt, "first") == 0 {
			seq.Children = append([]*dt.Node{ext}, seq.Children...)
		} else {
			seq.Children = append(seq.Children, ext)
		}
	case "smime-subject":
		// a subject that repeats attribute types - several commonNames, several emailAddresses, mailbox and
		// non-mailbox values in either order - on an S/MIME certificate, and a SAN that names some of them
		vals := []string{"Jane Doe", "jane.doe@example.com", "other@example.org", "JANE.DOE@EXAMPLE.COM", "not a mailbox", "", "x@", "postmaster@xn--mnchen-3ya.de", "Pseudonym: J",
			"postmaster@m\u00fcnchen.de", "user@b\u00fccher.example", "user@xn--bcher-kva.example", "us\u00e9r@example.com", "user@XN--BCHER-KVA.example"}
		var rdns [][]*dt.Node
		rdns = append(rdns, []*dt.Node{gen.ATV(gen.OIDC, 19, []byte("US"))})
		var mails []string
		for _, attr := range []struct {
			oid []int
			tag uint32
			max int
		}{{gen.OIDCN, 12, 3}, {gen.OIDEmailAt, 22, 3}, {gen.OIDO, 12, 2}, {gen.OIDGiven, 12, 2}, {gen.OIDSurname, 12, 2}, {gen.OIDSerial, 19, 1}} {
			for i, n := 0, rapid.IntRange(0, attr.max).Draw(rt, fmt.Sprintf("n%d", attr.oid[len(attr.oid)-1])); i < n; i++ {
				val := vals[rapid.IntRange(0, len(vals)-1).Draw(rt, "val")]
				rdns = append(rdns, []*dt.Node{gen.ATV(attr.oid, attr.tag, []byte(val))})
				desc = append(desc, fmt.Sprintf("%v=%q", attr.oid[len(attr.oid)-1], val))
				if strings.Contains(val, "@") {
					mails = append(mails, val)
				}
			}
		}
		v.SetSubject(gen.RDNSeq(rdns...))
		var gns []*dt.Node
		// each mailbox of the subject is repeated in the SAN verbatim, in its other IDNA spelling, as an
		// rfc822Name or as a SmtpUTF8Mailbox (well-formed or not), or not at all
		twin := map[string]string{"postmaster@xn--mnchen-3ya.de": "postmaster@m\u00fcnchen.de", "postmaster@m\u00fcnchen.de": "postmaster@xn--mnchen-3ya.de",
			"user@b\u00fccher.example": "user@xn--bcher-kva.example", "user@xn--bcher-kva.example": "user@b\u00fccher.example", "user@XN--BCHER-KVA.example": "user@b\u00fccher.example",
			"jane.doe@example.com": "JANE.DOE@EXAMPLE.COM", "JANE.DOE@EXAMPLE.COM": "jane.doe@example.com"}
		smtpUTF8 := []int{1, 3, 6, 1, 5, 5, 7, 8, 9}
		for _, m := range mails {
			as := m
			switch rapid.IntRange(0, 7).Draw(rt, "insan") {
			case 0, 1:
				continue
			case 2:
				if tw, ok := twin[m]; ok {
					as = tw
				}
			case 3:
				if tw, ok := twin[m]; ok {
					as = tw
				}
				gns = append(gns, gen.GNOther(smtpUTF8, dt.Prim(0, 12, []byte(as))))
				desc = append(desc, "san:smtputf8:"+as)
				continue
			case 4:
				gns = append(gns, gen.GNOther(smtpUTF8, dt.Prim(0, 12, []byte(as))))
				desc = append(desc, "san:smtputf8:"+as)
				continue
			case 5:
				// a mailbox otherName that is not a clean UTF8String: Latin-1 bytes, another type, trailing bytes
				var inner *dt.Node
				switch rapid.IntRange(0, 2).Draw(rt, "malformed") {
				case 0:
					inner = dt.Prim(0, 12, []byte("us\xe9r@example.com"))
				case 1:
					inner = dt.Prim(0, 4, []byte(as))
				default:
					inner = dt.Prim(0, 12, []byte(as))
				}
				g := gen.GNOther(smtpUTF8, inner)
				if inner.Tag == 12 && len(g.Children) == 2 && rapid.Bool().Draw(rt, "trailing") {
					g.Children[1].Children = append(g.Children[1].Children, dt.Prim(0, 5, nil))
				}
				gns = append(gns, g)
				desc = append(desc, "san:smtputf8(malformed):"+as)
				continue
			}
			gns = append(gns, gen.GNEmail([]byte(as)))
			desc = append(desc, "san:email:"+as)
		}
		if len(gns) == 0 || rapid.Bool().Draw(rt, "extra") {
			g, d := gen.DrawGN(rt)
			gns = append(gns, g)
			desc = append(desc, "san:"+d)
		}
		v.SetSAN(false, gns...)
		if rapid.Bool().Draw(rt, "policy") {
			v.SetPolicies([]int{2, 23, 140, 1, 5, rapid.IntRange(1, 4).Draw(rt, "val"), rapid.IntRange(1, 3).Draw(rt, "gen")})
		}
	case "rsa-key":
		bits := rapid.SampledFrom([]int{1023, 1024, 2047, 2048, 2049, 3071, 3072, 4096, 512}).Draw(rt, "bits")
		nb := (bits + 7) / 8
		b := rapid.SliceOfN(rapid.Byte(), nb, nb).Draw(rt, "n")
		n := new(big.Int).SetBytes(b)
		n.SetBit(n, bits-1, 1)
		for i := bits; i < nb*8; i++ {
			n.SetBit(n, i, 0)
		}
		if rapid.IntRange(0, 3).Draw(rt, "odd") > 0 {
			n.SetBit(n, 0, 1)
		}
		e := rapid.SampledFrom([]int64{1, 2, 3, 17, 65535, 65536, 65537, 65539, 1<<31 - 1}).Draw(rt, "e")
		v.SetSPKI(gen.RSASPKI(n, big.NewInt(e)))
		desc = append(desc, fmt.Sprintf("rsa bits=%d e=%d", bits, e))
	default:
		return structCert{}, false
	}
	pc, _ := gen.ParseCert(o.DER)
	if pc != nil && rapid.IntRange(0, 2).Draw(rt, "redate") > 0 && fam != "validity" {
		gen.Redate(v, pc, latestEffective.Add(time.Duration(rapid.IntRange(0, 200).Draw(rt, "days"))*24*time.Hour), gen.UTCZ)
	}
	if pc != nil && pc.SelfSigned {
		v.SelfSign()
	}
	return structCert{DER: v.DER(), Base: o.Name, Fam: fam, Desc: desc}, true
}

// drawAnyStructured picks a family.
func drawAnyStructured(rt *rapid.T) (structCert, bool) {
	return drawStructured(rt, structFamilies[rapid.IntRange(0, len(structFamilies)-1).Draw(rt, "family")])
}

var (
	removedOnce sync.Once
	removedList []string
)

// removedTLDs: table entries with a removal date (read from gtld_map.go like C18 does).
func removedTLDs() []string {
	removedOnce.Do(func() {
		tab, keys, err := loadTLDTable()
		if err != nil {
			return
		}
		for _, k := range keys {
			if tab[k].Removal != "" && isIA5(k) && !strings.HasPrefix(k, "xn--") {
				removedList = append(removedList, k)
			}
		}
	})
	return removedList
}

var (
	dnsPoolOnce sync.Once
	dnsPoolV    []string
)

func dnsPool() []string {
	dnsPoolOnce.Do(func() { dnsPoolV = gen.DNSPool() })
	return dnsPoolV
}
