package props

import (
	"encoding/json"
	"fmt"
	"math/big"
	"strings"

	"golang.org/x/net/idna"

	"verifharness/engine"
	"verifharness/gen"
	"verifharness/model"
	"verifharness/stats"

	dt "verifharness/dertree"
)

// The soak history: state that only builds up over many calls (memo tables, ring buffers, pools) shows when a
// process has linted more distinct objects than such a table holds and then meets an earlier object again.
// soakCase(i) is the i-th of an unbounded family of DISTINCT certificates built on a few corpus bases: its own
// serial number, its own internationalised dNSNames (A-labels with lower-, upper- and mixed-case ACE prefix),
// its own e-mail address and host names, and a scope (EKU / policy / e-mail SAN) that cycles through TLS,
// S/MIME, code signing, EV and none - so that whatever a cache is keyed by, a later entry differs in what is cached.
func soakBases() []gen.Obj {
	fb, tls := structBases()
	co := gen.LoadCorpus()
	var out []gen.Obj
	for _, fam := range []string{"rfc-br-dns", "smime-subject", "aia"} {
		if b := fb[fam]; len(b) > 0 {
			out = append(out, co.Certs[b[0]])
		}
	}
	if len(out) == 0 && len(tls) > 0 {
		out = append(out, co.Certs[tls[0]])
	}
	return out
}

func soakCase(bases []gen.Obj, i int) (engine.Case, bool) {
	b := bases[i%len(bases)]
	v, err := gen.ViewCert(b.DER)
	if err != nil {
		return engine.Case{}, false
	}
	ser := gen.Integer(big.NewInt(int64(100000 + i)))
	*v.Serial() = *ser
	word := func(n int) string {
		// distinct non-ASCII labels: letters with diacritics indexed by the digits of n
		alphabet := []rune("äöüéèáíóúñçåøæßðþýÿšž")
		s := "b"
		for x := n + 1; x > 0; x /= len(alphabet) {
			s += string(alphabet[x%len(alphabet)])
		}
		return s + fmt.Sprint(n%10)
	}
	var names []string
	for k := 0; k < 2; k++ {
		a, err := idna.Punycode.ToASCII(word(2*i + k))
		if err != nil {
			continue
		}
		pfx := []string{"xn--", "XN--", "Xn--", "xN--", "xn--", "xn--", "xn--", "xn--"}[(i+k)%8]
		names = append(names, pfx+strings.TrimPrefix(a, "xn--")+".example.com")
	}
	names = append(names, fmt.Sprintf("h%d.example.com", i))
	var gns []*dt.Node
	for _, n := range names {
		gns = append(gns, gen.GNDNS([]byte(n)))
	}
	scope := i % 6
	switch scope {
	case 0:
		v.SetEKU(gen.EKUServerAuth)
		v.SetPolicies([]int{2, 23, 140, 1, 2, 1})
	case 1:
		v.SetEKU(gen.EKUEmail)
		v.SetPolicies([]int{2, 23, 140, 1, 5, 1 + i%4, 1 + i%3})
		gns = append(gns, gen.GNEmail([]byte(fmt.Sprintf("user%d@example.com", i))))
	case 2:
		v.SetEKU(gen.EKUCodeSign)
		v.SetPolicies([]int{2, 23, 140, 1, 4, 1})
	case 3:
		v.SetEKU(gen.EKUClientAuth)
		v.SetPolicies([]int{1, 3, 6, 1, 4, 1, 99999, 2})
	case 4:
		v.SetEKU(gen.EKUServerAuth, gen.EKUClientAuth)
		v.SetPolicies([]int{2, 23, 140, 1, 1})
	default:
		v.SetEKU()
		v.SetPolicies()
	}
	v.SetSAN(false, gns...)
	v.SetCN([]byte(names[len(names)-1]), 12)
	return engine.Case{Kind: gen.Cert, DER: v.DER(), Base: b.Name, Ops: []string{fmt.Sprintf("soak #%d scope=%d names=%v", i, scope, names)}}, true
}

// soakHistory lints soakCase(0..n-1) in one process through the global registry; after every seventh object an
// earlier one is linted again (fresh parse), and at the end the first hundred. visit gets every lint run:
// first = the digest recorded when the object was first linted ("" on the first visit).
type soakVisit func(rec *stats.Rec, i int, c engine.Case, run *engine.Run, first string, revisit bool) (string, string)

// soakReplay is the replayable form of a soak violation: the whole history is run again.
type soakReplay struct {
	Offset int         `json:"offset"`
	N      int         `json:"n"`
	Index  int         `json:"index"`
	Case   engine.Case `json:"case"`
}

func soakHistory(rec *stats.Rec, n int, visit soakVisit, onViolation func(string)) {
	shard, _ := stats.Shard()
	soakHistoryAt(rec, shard*1000003, n, visit, onViolation) // every shard its own family members
}

func soakHistoryAt(rec *stats.Rec, off, n int, visit soakVisit, onViolation func(string)) {
	bases := soakBases()
	if len(bases) == 0 {
		return
	}
	_, nshards := stats.Shard()
	first := make([]string, n)
	cases := make([]engine.Case, n)
	do := func(i int, revisit bool) bool {
		if cases[i].DER == nil {
			c, ok := soakCase(bases, off+i)
			if !ok {
				return true
			}
			cases[i] = c
		}
		run := engine.Execute(cases[i], false)
		rec.Eval()
		if !run.Parsed {
			return true
		}
		sig, msg := visit(rec, i, cases[i], run, first[i], revisit)
		if first[i] == "" && run.RS != nil {
			first[i] = engine.Digest(run.RS)
		}
		if msg != "" {
			if rec.Report("soak", sig, msg, soakReplay{Offset: off, N: n, Index: i, Case: cases[i]}) {
				onViolation(fmt.Sprintf("soak history (%d shards) object #%d %v: %s: %s", nshards, i, cases[i].Ops, sig, msg))
				return false
			}
		}
		return true
	}
	for i := 0; i < n; i++ {
		if !do(i, false) {
			return
		}
		if i > 0 && i%7 == 0 {
			if !do((i*31+7)%i, true) {
				return
			}
		}
	}
	for i := 0; i < n && i < 100; i++ {
		if !do(i, true) {
			return
		}
	}
	rec.ClassN("soak_objects", int64(n))
	rec.Note("soak", fmt.Sprintf("%d distinct certificates per shard linted in one process, an earlier one re-linted after every seventh, the first hundred at the end", n))
}

func soakVisitC02(rec *stats.Rec, i int, c engine.Case, run *engine.Run, first string, revisit bool) (string, string) {
	if run.Panic != "" {
		return "escape|cert|" + model.TopZlintFrame(run.Stack), "panic escaped certificate linting: " + run.Panic
	}
	for n, x := range engine.Verdicts(run.RS) {
		if engine.IsPanicReport(n, x) {
			return "panic|" + n + "|soak", "lint failed internally: " + x.Details
		}
	}
	return "", ""
}

func soakVisitC04(rec *stats.Rec, i int, c engine.Case, run *engine.Run, first string, revisit bool) (string, string) {
	if !revisit && i%16 != 0 {
		return "", ""
	}
	sig, msg, _ := judgeLifecycle(rec, c)
	return sig, msg
}

func soakVisitC05(rec *stats.Rec, i int, c engine.Case, run *engine.Run, first string, revisit bool) (string, string) {
	if run.RS == nil || first == "" {
		return "", ""
	}
	if d := engine.Digest(run.RS); d != first {
		return "history|soak", fmt.Sprintf("object #%d linted again after many distinct objects: digest %s, first time %s", i, d, first)
	}
	return "", ""
}

func init() {
	registerReplayer("soak", func(rec *stats.Rec, raw json.RawMessage) (string, string) {
		var r soakReplay
		if err := json.Unmarshal(raw, &r); err != nil {
			return "decode", err.Error()
		}
		visit := map[string]soakVisit{"C02": soakVisitC02, "C04": soakVisitC04, "C05": soakVisitC05}[rec.Property]
		if visit == nil {
			return "", ""
		}
		var out [2]string
		probe := stats.New(rec.Property)
		soakHistoryAt(probe, r.Offset, r.N, func(rc *stats.Rec, i int, c engine.Case, run *engine.Run, first string, revisit bool) (string, string) {
			sig, msg := visit(rc, i, c, run, first, revisit)
			if msg != "" && out[1] == "" {
				out = [2]string{sig, msg}
			}
			return "", ""
		}, func(string) {})
		return out[0], out[1]
	})
}
