package props

import (
	"bytes"
	"encoding/base64"
	"encoding/json"
	"encoding/pem"
	"fmt"
	"os"
	"os/exec"
	"path/filepath"
	"sort"
	"strconv"
	"strings"
	"testing"

	"github.com/zmap/zlint/v3/lint"
	"pgregory.net/rapid"

	"verifharness/engine"
	"verifharness/gen"
	"verifharness/model"
	"verifharness/stats"

	dt "verifharness/dertree"
)

type c15Input struct {
	Kind     gen.Kind `json:"kind"`
	DER      []byte   `json:"der"`
	Encoding string   `json:"encoding"`        // pem | pem-leading-text | pem-crlf | der | base64 | base64-wrapped | base64-newline | raw-garbage | truncated | bad-base64 | wrong-pem-type
	Delivery string   `json:"delivery"`        // file | file-suffix | stdin | dash | file-wrong-suffix
	Stdin    string   `json:"stdin,omitempty"` // what descriptor 0 is when the input travels through it: pipe (default) | file | file-offset | socket
	Base     string   `json:"base,omitempty"`
}

type c15Case struct {
	Inputs   []c15Input         `json:"inputs"`
	Filter   *engine.FilterSpec `json:"filter,omitempty"`
	Config   *string            `json:"config,omitempty"`
	Format   string             `json:"format"`             // the invocation\'s -format (pem | der | base64)
	Output   string             `json:"output"`             // default | pretty | summary | longSummary
	BadFlag  string             `json:"bad_flag,omitempty"` // an unknown selector / format to add
	FormatUp bool               `json:"format_uppercase,omitempty"`
}

func encodeInput(in c15Input) (content []byte, format string, decodable bool) {
	pemType := "CERTIFICATE"
	if in.Kind == gen.CRL {
		pemType = "X509 CRL"
	}
	switch in.Encoding {
	case "pem":
		return pem.EncodeToMemory(&pem.Block{Type: pemType, Bytes: in.DER}), "pem", true
	case "pem-leading-text":
		return append([]byte("Subject: something\nsome leading text\n\n"), pem.EncodeToMemory(&pem.Block{Type: pemType, Bytes: in.DER})...), "pem", true
	case "pem-crlf":
		return bytes.ReplaceAll(pem.EncodeToMemory(&pem.Block{Type: pemType, Bytes: in.DER}), []byte("\n"), []byte("\r\n")), "pem", true
	case "der":
		return in.DER, "der", in.Kind == gen.Cert
	case "base64":
		return []byte(base64.StdEncoding.EncodeToString(in.DER)), "base64", in.Kind == gen.Cert
	case "base64-newline":
		return []byte(base64.StdEncoding.EncodeToString(in.DER) + "\n"), "base64", in.Kind == gen.Cert
	case "base64-wrapped":
		s := base64.StdEncoding.EncodeToString(in.DER)
		var b strings.Builder
		for i := 0; i < len(s); i += 64 {
			j := i + 64
			if j > len(s) {
				j = len(s)
			}
			b.WriteString(s[i:j] + "\n")
		}
		return []byte(b.String()), "base64", in.Kind == gen.Cert
	case "raw-garbage":
		return []byte("this is not a certificate\x00\x01\x02"), "pem", false
	case "garbage-der":
		return []byte{0x30, 0x03, 0x02, 0x01, 0x00}, "der", false
	case "truncated":
		return in.DER[:len(in.DER)/2], "der", false
	case "bad-base64":
		return []byte("!!!" + base64.StdEncoding.EncodeToString(in.DER)), "base64", false
	case "wrong-pem-type":
		return pem.EncodeToMemory(&pem.Block{Type: "PRIVATE KEY", Bytes: in.DER}), "pem", false
	}
	return nil, "", false
}

func filterFlags(f *engine.FilterSpec) []string {
	if f == nil {
		return nil
	}
	var a []string
	if len(f.IncludeNames) > 0 {
		a = append(a, "-includeNames="+strings.Join(f.IncludeNames, ","))
	}
	if len(f.ExcludeNames) > 0 {
		a = append(a, "-excludeNames="+strings.Join(f.ExcludeNames, ","))
	}
	if len(f.IncludeSources) > 0 {
		a = append(a, "-includeSources="+strings.Join(f.IncludeSources, ","))
	}
	if len(f.ExcludeSources) > 0 {
		a = append(a, "-excludeSources="+strings.Join(f.ExcludeSources, ","))
	}
	if f.NameFilter != nil {
		a = append(a, "-nameFilter="+*f.NameFilter)
	}
	return a
}

// libraryResults: what the library computes for one input with the same selection.
func libraryResults(in c15Input, f *engine.FilterSpec, cfg *string) (map[string]model.Verdict, bool) {
	c := engine.Case{Kind: in.Kind, DER: in.DER, Config: cfg}
	if f != nil {
		c.Filters = []engine.FilterSpec{*f}
	}
	r := engine.Execute(c, false)
	if !r.Parsed || r.RS == nil || r.SetupErr != "" {
		return nil, false
	}
	return engine.Verdicts(r.RS), true
}

type wireResult struct {
	Result  string `json:"result"`
	Details string `json:"details"`
}

func parseSummary(out string, long bool) []map[string]int {
	// one table per input; tables start at a heading line
	var tables []map[string]int
	var cur map[string]int
	for _, ln := range strings.Split(out, "\n") {
		if !strings.HasPrefix(ln, "|") {
			continue
		}
		if strings.Contains(ln, "LEVEL") {
			cur = map[string]int{}
			tables = append(tables, cur)
			continue
		}
		fields := strings.Fields(strings.ReplaceAll(ln, "|", " "))
		if len(fields) >= 2 && cur != nil {
			if _, isLabel := labelSet()[fields[0]]; isLabel {
				if n, err := strconv.Atoi(fields[1]); err == nil {
					cur[fields[0]] = n
				}
			}
		}
	}
	return tables
}

func judgeC15(rec *stats.Rec, c c15Case, cli, dir string) (string, string) {
	args := []string{}
	args = append(args, filterFlags(c.Filter)...)
	if c.Config != nil {
		p := filepath.Join(dir, "config.toml")
		if err := os.WriteFile(p, []byte(*c.Config), 0o644); err != nil {
			return "", ""
		}
		args = append(args, "-config="+p)
	}
	switch c.Output {
	case "pretty":
		args = append(args, "-pretty")
	case "summary":
		args = append(args, "-summary")
	case "longSummary":
		args = append(args, "-longSummary")
	}
	if c.BadFlag != "" {
		args = append(args, c.BadFlag)
	}
	var stdin []byte
	stdinKind := ""
	var files []string
	format := c.Format
	expectOK := c.BadFlag == ""
	okPrefix := 0 // number of leading inputs that must produce a result
	stillOK := true
	for i, in := range c.Inputs {
		content, f, decodable := encodeInput(in)
		if _, parsed := libraryResults(in, nil, nil); !parsed {
			decodable = false
		}
		name := fmt.Sprintf("in%d.bin", i)
		switch in.Delivery {
		case "file-suffix":
			// a .pem / .der suffix overrides -format
			if f == "pem" {
				name = fmt.Sprintf("in%d.pem", i)
			} else if f == "der" {
				name = fmt.Sprintf("in%d.der", i)
			} else if f != format {
				decodable = false
			}
		case "file-wrong-suffix":
			// DER bytes in a .pem file (and vice versa) cannot be decoded
			if f == "pem" {
				name = fmt.Sprintf("in%d.der", i)
			} else {
				name = fmt.Sprintf("in%d.pem", i)
			}
			decodable = false
		default:
			if f != format {
				decodable = false
			}
		}
		if in.Delivery == "stdin" || in.Delivery == "dash" {
			stdin, stdinKind = content, in.Stdin
		} else {
			p := filepath.Join(dir, name)
			if err := os.WriteFile(p, content, 0o644); err != nil {
				return "", ""
			}
			files = append(files, p)
		}
		if stillOK && decodable {
			okPrefix++
		} else {
			stillOK = false
		}
	}
	if !stillOK {
		expectOK = false
	}
	if format != "" && !strings.HasPrefix(c.BadFlag, "-format=") {
		fv := format
		if c.FormatUp {
			fv = strings.ToUpper(fv)
		}
		args = append(args, "-format="+fv)
	}
	if len(c.Inputs) == 1 && c.Inputs[0].Delivery == "dash" {
		args = append(args, "-")
	}
	args = append(args, files...)
	res := runCLIStdin(cli, stdinKind, stdin, dir, nil, args...)
	if res.Exit == -1 {
		rec.Class("spawn_failed")
		return "", ""
	}
	desc := fmt.Sprintf("zlint %s (exit %d)", strings.Join(args, " "), res.Exit)
	if c.BadFlag != "" {
		okPrefix = 0
	}
	// ---- what must be on stdout
	if !expectOK {
		if res.Exit == 0 {
			return "fail-open|exit-zero", desc + ": undecodable input or unknown selector but exit status 0"
		}
	} else if res.Exit != 0 {
		return "unexpected-failure", desc + ": exit status non-zero for valid input: " + short(res.Stderr, 300)
	}
	switch c.Output {
	case "default", "pretty":
		dec := json.NewDecoder(strings.NewReader(res.Stdout))
		var objs []map[string]wireResult
		for {
			var m map[string]wireResult
			if err := dec.Decode(&m); err != nil {
				break
			}
			objs = append(objs, m)
		}
		if len(objs) != okPrefix {
			return "result-objects", fmt.Sprintf("%s: %d result objects on stdout, want %d", desc, len(objs), okPrefix)
		}
		for i := 0; i < okPrefix; i++ {
			want, _ := libraryResults(c.Inputs[i], c.Filter, c.Config)
			got := objs[i]
			if len(got) != len(want) {
				return "cli-vs-library|keys", fmt.Sprintf("%s: input %d: CLI prints %d results, library computes %d", desc, i, len(got), len(want))
			}
			names := make([]string, 0, len(want))
			for n := range want {
				names = append(names, n)
			}
			sort.Strings(names)
			for _, n := range names {
				g, ok := got[n]
				if !ok {
					return "cli-vs-library|missing|" + n, fmt.Sprintf("%s: input %d: no CLI result for %s", desc, i, n)
				}
				if g.Result != want[n].Status.String() {
					return "cli-vs-library|status|" + n, fmt.Sprintf("%s: input %d: CLI says %s, library says %s", desc, i, g.Result, want[n].Status)
				}
				if g.Details != jsonString(want[n].Details) {
					return "cli-vs-library|details|" + n, fmt.Sprintf("%s: input %d: CLI details %q, library %q", desc, i, short(g.Details, 100), short(want[n].Details, 100))
				}
			}
		}
	case "summary", "longSummary":
		tabs := parseSummary(res.Stdout, c.Output == "longSummary")
		if len(tabs) != okPrefix {
			return "summary-tables", fmt.Sprintf("%s: %d summary tables on stdout, want %d", desc, len(tabs), okPrefix)
		}
		if strings.Contains(res.Stdout, `"result"`) {
			return "summary-json", desc + ": JSON result object printed in summary mode"
		}
		for i := 0; i < okPrefix; i++ {
			want, _ := libraryResults(c.Inputs[i], c.Filter, c.Config)
			cnt := map[string]int{"info": 0, "warn": 0, "error": 0, "fatal": 0}
			for _, v := range want {
				if v.Status > lint.Pass {
					cnt[v.Status.String()]++
				}
			}
			for lvl, n := range cnt {
				if g, ok := tabs[i][lvl]; !ok || g != n {
					return "summary-count|" + lvl, fmt.Sprintf("%s: input %d: summary says %s=%d (present=%v), results have %d", desc, i, lvl, g, ok, n)
				}
			}
			if len(tabs[i]) != 4 {
				return "summary-levels", fmt.Sprintf("%s: summary lists levels %v, want exactly info/warn/error/fatal", desc, tabs[i])
			}
		}
	}
	return "", ""
}

func TestC15(t *testing.T) {
	rec := newRec(t, "C15")
	cli := cliPath(t)
	co := gen.LoadCorpus()
	goodEnc := []string{"pem", "pem-leading-text", "pem-crlf", "der", "base64", "base64-wrapped", "base64-newline"}
	badEnc := []string{"raw-garbage", "garbage-der", "truncated", "bad-base64", "wrong-pem-type"}
	badFlags := []string{"-includeNames=e_no_such_lint", "-excludeNames=e_ca_country_name_missing,bogus", "-includeSources=NotASource", "-excludeSources=RFC5280,Nope",
		"-nameFilter=(", "-profile=no_such_profile", "-format=xml", "-config=/nonexistent/verif.toml"}
	cliConfigMatrix(t, rec, cli, stats.Scale(2, 6), "")
	// enumerated: every corpus certificate in every input format (PEM, DER, base64), and every corpus CRL in
	// PEM armour, six files per invocation - whatever shape the library lints, the tool must print the same
	{
		type group struct {
			fmt  string
			objs []gen.Obj
		}
		var groups []group
		for _, f := range []string{"pem", "der", "base64"} {
			var cur []gen.Obj
			for _, o := range co.Certs {
				cur = append(cur, o)
				if len(cur) == 6 {
					groups = append(groups, group{f, cur})
					cur = nil
				}
			}
			if len(cur) > 0 {
				groups = append(groups, group{f, cur})
			}
		}
		for i := 0; i < len(co.CRLs); i += 6 {
			groups = append(groups, group{"pem", co.CRLs[i:min(i+6, len(co.CRLs))]})
		}
		for gi, g := range groups {
			if !stats.Mine(gi) {
				continue
			}
			c := c15Case{Format: g.fmt, Output: "default"}
			for _, o := range g.objs {
				c.Inputs = append(c.Inputs, c15Input{Kind: o.Kind, DER: o.DER, Encoding: g.fmt, Delivery: "file", Base: o.Name})
			}
			dir, err := os.MkdirTemp("", "verif-c15-")
			if err != nil {
				continue
			}
			sig, msg := judgeC15(rec, c, cli, dir)
			os.RemoveAll(dir)
			rec.Eval()
			rec.Class("corpus_enumerated_" + g.fmt)
			rec.NT(stats.HashS("corpus", g.fmt, g.objs[0].Name))
			if msg != "" {
				if rec.Report("c15", sig, msg, c) {
					t.Fatalf("c15 corpus group %d (%s, first %s): %s: %s", gi, g.fmt, g.objs[0].Name, sig, msg)
				}
			}
		}
		rec.Exhaustive("every corpus certificate x {pem, der, base64} and every corpus CRL (pem) through the CLI", true)
	}
	// one certificate of more than 48 KiB (thousands of names): the same result in every input format, file and stdin
	if shard, _ := stats.Shard(); shard == 0 && len(co.Certs) > 0 {
		if v, err := gen.ViewCert(co.Certs[0].DER); err == nil {
			var gns []*dt.Node
			for i := 0; i < 2600; i++ {
				gns = append(gns, gen.GNDNS([]byte(fmt.Sprintf("host-%04d.example.com", i))))
			}
			v.SetSAN(false, gns...)
			huge := v.DER()
			for _, enc := range []string{"pem", "der", "base64", "base64-newline", "base64-wrapped"} {
				for _, del := range []string{"file", "stdin", "stdin/file", "stdin/file-offset", "stdin/socket"} {
					f := map[string]string{"pem": "pem", "der": "der"}[enc]
					if f == "" {
						f = "base64"
					}
					skind := ""
					if i := strings.Index(del, "/"); i > 0 {
						del, skind = del[:i], del[i+1:]
					}
					c := c15Case{Inputs: []c15Input{{Kind: gen.Cert, DER: huge, Encoding: enc, Delivery: del, Stdin: skind, Base: "huge-san"}}, Format: f, Output: "default", Filter: &engine.FilterSpec{IncludeSources: []string{"RFC5280"}}}
					dir, err := os.MkdirTemp("", "verif-c15-")
					if err != nil {
						continue
					}
					sig, msg := judgeC15(rec, c, cli, dir)
					os.RemoveAll(dir)
					rec.Eval()
					rec.Class("huge_certificate")
					if msg != "" {
						if rec.Report("c15", sig, msg, c15Case{Inputs: []c15Input{{Kind: gen.Cert, Encoding: enc, Delivery: del, Base: "huge-san (2600 dNSNames, DER omitted)"}}, Format: f, Output: "default"}) {
							t.Fatalf("c15 huge certificate as %s via %s: %s: %s", enc, del, sig, msg)
						}
					}
				}
			}
		}
		// many files in one invocation under a small open-file limit: every file gets its result (files are closed as the tool goes)
		if sh, err := exec.LookPath("sh"); err == nil {
			dir, err := os.MkdirTemp("", "verif-c15-")
			if err == nil {
				var files []string
				n := 200
				for i := 0; i < n; i++ {
					o := co.Certs[i%len(co.Certs)]
					p := filepath.Join(dir, fmt.Sprintf("f%03d.pem", i))
					_ = os.WriteFile(p, pem.EncodeToMemory(&pem.Block{Type: "CERTIFICATE", Bytes: o.DER}), 0o644)
					files = append(files, p)
				}
				args := append([]string{"-c", "ulimit -n 48; exec \"$0\" \"$@\"", cli, "-includeNames=e_ca_country_name_missing"}, files...)
				res := runCLI(sh, nil, dir, nil, args...)
				got := strings.Count(res.Stdout, "e_ca_country_name_missing")
				rec.Eval()
				rec.Class("many_files_low_fd_limit")
				if res.Exit != 0 || got != n {
					if rec.Report("c15", "many-files|fd-limit", fmt.Sprintf("%d files in one invocation under `ulimit -n 48`: exit %d, %d result objects; stderr %s", n, res.Exit, got, short(res.Stderr, 200)), c15Case{Format: "pem", Output: "default", BadFlag: "(200 files, ulimit -n 48)"}) {
						t.Fatalf("c15 many files under a small descriptor limit: exit %d, %d/%d results", res.Exit, got, n)
					}
				}
				os.RemoveAll(dir)
			}
		}
	}
	rapidRun(t, "invocations", perShard(stats.Scale(420, 40000)), func(rt *rapid.T) {
		dir, err := os.MkdirTemp("", "verif-c15-")
		if err != nil {
			rt.Skip("no temp dir")
		}
		defer os.RemoveAll(dir)
		var c c15Case
		n := rapid.SampledFrom([]int{1, 1, 1, 2, 3, 4}).Draw(rt, "ninputs")
		mode := rapid.IntRange(0, 9).Draw(rt, "mode") // 0-6 all good, 7-8 one bad input, 9 bad selector
		badAt := -1
		if mode == 7 || mode == 8 {
			badAt = rapid.IntRange(0, n-1).Draw(rt, "badat")
		}
		c.Format = rapid.SampledFrom([]string{"pem", "pem", "der", "base64"}).Draw(rt, "format")
		family := map[string][]string{"pem": goodEnc[:3], "der": {"der"}, "base64": goodEnc[4:]}
		for i := 0; i < n; i++ {
			var in c15Input
			if rapid.IntRange(0, 5).Draw(rt, "crl") == 0 {
				o := co.CRLs[rapid.IntRange(0, len(co.CRLs)-1).Draw(rt, "crlidx")]
				in = c15Input{Kind: gen.CRL, DER: o.DER, Base: o.Name}
			} else {
				cc := gen.DrawCert(rt, 2, true)
				in = c15Input{Kind: gen.Cert, DER: cc.DER, Base: cc.Base}
			}
			if n == 1 {
				in.Delivery = rapid.SampledFrom([]string{"file", "file-suffix", "stdin", "dash"}).Draw(rt, "delivery")
				if in.Delivery == "stdin" || in.Delivery == "dash" {
					in.Stdin = rapid.SampledFrom([]string{"pipe", "pipe", "file", "file-offset", "socket"}).Draw(rt, "stdinkind")
				}
			} else {
				in.Delivery = rapid.SampledFrom([]string{"file", "file-suffix"}).Draw(rt, "delivery")
			}
			if in.Kind == gen.CRL && c.Format != "pem" {
				in.Delivery = "file-suffix" // CRLs travel in their PEM armor only
			}
			switch {
			case i == badAt && rapid.IntRange(0, 3).Draw(rt, "wrongsuffix") == 0:
				in.Encoding = rapid.SampledFrom([]string{"pem", "der"}).Draw(rt, "wsenc")
				in.Delivery = "file-wrong-suffix"
			case i == badAt:
				in.Encoding = rapid.SampledFrom(badEnc).Draw(rt, "badenc")
			case in.Delivery == "file-suffix":
				if in.Kind == gen.CRL {
					in.Encoding = rapid.SampledFrom(goodEnc[:3]).Draw(rt, "crlenc")
				} else {
					in.Encoding = rapid.SampledFrom(goodEnc[:4]).Draw(rt, "sfxenc") // pem family or der
				}
			default:
				in.Encoding = rapid.SampledFrom(family[c.Format]).Draw(rt, "enc")
			}
			c.Inputs = append(c.Inputs, in)
		}
		if rapid.IntRange(0, 2).Draw(rt, "withfilter") > 0 {
			f := engine.DrawValidFilter(rt, globalNames())
			// the CLI splits name lists at commas and trims blanks; tabs/newlines inside
			// one argument are fine. Names never contain commas.
			c.Filter = &f
		}
		if rapid.IntRange(0, 3).Draw(rt, "withcfg") == 0 {
			var tmp engine.Case
			drawConfig(rt, &tmp, false)
			c.Config = tmp.Config
		}
		c.Output = rapid.SampledFrom([]string{"default", "default", "pretty", "summary", "longSummary"}).Draw(rt, "output")
		c.FormatUp = rapid.IntRange(0, 5).Draw(rt, "upper") == 0
		if mode == 9 {
			c.BadFlag = rapid.SampledFrom(badFlags).Draw(rt, "badflag")
			if strings.HasPrefix(c.BadFlag, "-format=") {
				// an unknown format only matters where no file suffix overrides it
				c.Format = "pem"
				for i := range c.Inputs {
					if c.Inputs[i].Delivery == "file-suffix" {
						c.Inputs[i].Delivery = "file"
					}
				}
			}
			if strings.HasPrefix(c.BadFlag, "-nameFilter") || strings.HasPrefix(c.BadFlag, "-includeNames") || strings.HasPrefix(c.BadFlag, "-excludeNames") || strings.HasPrefix(c.BadFlag, "-includeSources") || strings.HasPrefix(c.BadFlag, "-excludeSources") {
				c.Filter = nil
			}
			if strings.HasPrefix(c.BadFlag, "-config") {
				c.Config = nil
			}
		}
		rec.Eval()
		rec.Class("output_" + c.Output)
		rec.Class(fmt.Sprintf("inputs_%d", len(c.Inputs)))
		for _, in := range c.Inputs {
			rec.Class("enc_" + in.Encoding)
			rec.Class("delivery_" + in.Delivery)
			if in.Stdin != "" {
				rec.Class("stdin_" + in.Stdin)
			}
		}
		if c.BadFlag != "" {
			rec.Class("bad_selector")
		}
		if sig, msg := judgeC15(rec, c, cli, dir); msg != "" {
			fail(rt, rec, "c15", sig, msg, c)
		}
		if c.Filter != nil || c.Inputs[0].Encoding != "pem" {
			b, _ := json.Marshal(c)
			rec.NT(stats.Hash(b))
		}
		if rec.WantSample() && rapid.IntRange(0, 10).Draw(rt, "smp") == 0 {
			var ins []map[string]interface{}
			for _, in := range c.Inputs {
				ins = append(ins, map[string]interface{}{"kind": in.Kind, "base": in.Base, "encoding": in.Encoding, "delivery": in.Delivery})
			}
			rec.Sample(map[string]interface{}{"inputs": ins, "filter": c.Filter, "output": c.Output, "bad_flag": c.BadFlag})
		}
	})
}

func init() {
	registerReplayer("c15", func(rec *stats.Rec, raw json.RawMessage) (string, string) {
		var c c15Case
		if err := json.Unmarshal(raw, &c); err != nil {
			return "decode", err.Error()
		}
		cli := "/verif/.build/zlint-cli"
		if p := getenv("VERIF_CLI"); p != "" {
			cli = p
		}
		dir, err := os.MkdirTemp("", "verif-c15-")
		if err != nil {
			return "", ""
		}
		defer os.RemoveAll(dir)
		return judgeC15(rec, c, cli, dir)
	})
}
