package props

import (
	"fmt"
	"sort"
	"sync"

	"github.com/zmap/zlint/v3/lint"

	"verifharness/engine"
	"verifharness/gen"
	"verifharness/stats"

	dt "verifharness/dertree"
)

// The home sweep gives EVERY registered lint a complete single-edit
// neighbourhood: a small set of corpus objects is chosen (greedy cover) so that
// each lint has up to K objects on which its body runs - one where it passes and
// one where it reports, where the corpus has both - and every (leaf x type-aware
// edit) mutant of those objects is linted with the lints the object was chosen
// for. A finite generated domain, enumerated; no random choice.

type sweepBase struct {
	Obj   gen.Obj
	Lints []string
	// Exclude (instead of Lints): lint with everything but these
	Exclude []string
	// KeyLeavesOnly restricts the sweep to leaves inside the subjectPublicKeyInfo
	KeyLeavesOnly bool
	// Under, when non-nil, restricts the sweep to leaves and inner nodes inside the subtrees rooted at
	// these inner-node indices (document order of Inner())
	Under []int
}

// homeCover computes the cover for quota K per lint (deterministic).
func homeCover(K int) []sweepBase {
	coverMu.Lock()
	defer coverMu.Unlock()
	if c, ok := coverMemo[K]; ok {
		return c
	}
	homeObjects()
	var out []sweepBase
	for _, kind := range []string{"cert", "crl", "ocsp"} {
		var lints []string
		for _, l := range registryLints(lint.GlobalRegistry()) {
			if l.Kind == kind && len(homeClass[l.Name]) > 0 {
				lints = append(lints, l.Name)
			}
		}
		sort.Strings(lints)
		objs := kindObjs(kind)
		// serve[i] = (lint index, class) pairs object i could serve
		type sv struct {
			l  int
			cl int8
		}
		serve := make([][]sv, len(objs))
		need := make([][3]int, len(lints)) // by class: 0 NE, 1 pass, 2 finding
		for li, name := range lints {
			var cnt [3]int
			idx := make([]int, 0, len(homeClass[name]))
			for i := range homeClass[name] {
				idx = append(idx, i)
			}
			sort.Ints(idx)
			for _, i := range idx {
				cl := homeClass[name][i]
				cnt[cl]++
				serve[i] = append(serve[i], sv{li, int8(cl)})
			}
			half := (K + 1) / 2
			nf := min(cnt[2], half)
			np := min(cnt[1], K-nf)
			if np+nf < K {
				nf = min(cnt[2], K-np)
			}
			nn := 0
			if np+nf == 0 {
				nn = min(cnt[0], K)
			}
			need[li] = [3]int{nn, np, nf}
		}
		used := make([]bool, len(objs))
		for {
			best, bestGain := -1, 0
			for i := range objs {
				if used[i] {
					continue
				}
				gain := 0
				for _, x := range serve[i] {
					if need[x.l][x.cl] > 0 {
						gain++
					}
				}
				if gain > bestGain {
					best, bestGain = i, gain
				}
			}
			if best < 0 {
				break
			}
			used[best] = true
			b := sweepBase{Obj: objs[best]}
			for _, x := range serve[best] {
				if need[x.l][x.cl] > 0 {
					need[x.l][x.cl]--
					b.Lints = append(b.Lints, lints[x.l])
				}
			}
			sort.Strings(b.Lints)
			out = append(out, b)
		}
	}
	coverMemo[K] = out
	return out
}

// featureCover: shared helpers (scope predicates, name collectors, ...) read structures that no single
// lint's home object may contain. For every OBJECT IDENTIFIER value that occurs in the corpus but in none of
// the given bases, one corpus certificate that has it (greedy: certificates covering most first); the sweep
// is confined to the enclosing unit - the Extension, the RDN, or the top-level tbsCertificate field.
func featureCover(home []sweepBase) []sweepBase {
	homeObjects()
	covered := map[string]bool{}
	oidsOf := func(der []byte) map[string]bool {
		m := map[string]bool{}
		if root, err := dt.Parse(der); err == nil {
			for _, l := range root.Leaves() {
				if l.Class == 0 && l.Tag == 6 {
					m[string(l.Content)] = true
				}
			}
		}
		return m
	}
	for _, b := range home {
		if b.Obj.Kind == gen.Cert {
			for k := range oidsOf(b.Obj.DER) {
				covered[k] = true
			}
		}
	}
	co := gen.LoadCorpus()
	has := make([]map[string]bool, len(co.Certs))
	for i, o := range co.Certs {
		has[i] = oidsOf(o.DER)
	}
	var out []sweepBase
	for {
		best, gain := -1, 0
		for i := range co.Certs {
			g := 0
			for k := range has[i] {
				if !covered[k] {
					g++
				}
			}
			if g > gain {
				best, gain = i, g
			}
		}
		if best < 0 {
			break
		}
		o := co.Certs[best]
		root, err := dt.Parse(o.DER)
		if err != nil {
			for k := range has[best] {
				covered[k] = true
			}
			continue
		}
		parent := map[*dt.Node]*dt.Node{}
		root.Walk(func(x, p *dt.Node, _ int) { parent[x] = p })
		// units: children of the extension list, RDNs, children of tbsCertificate
		unit := map[*dt.Node]bool{}
		if v, err := gen.ViewCertTree(root); err == nil {
			for _, ch := range v.TBS.Children {
				unit[ch] = true
			}
			if e := v.Extensions(); e != nil {
				for _, ch := range e.Children {
					unit[ch] = true
				}
			}
			for _, nm := range []*dt.Node{v.Subject(), v.Issuer()} {
				for _, ch := range nm.Children {
					unit[ch] = true
				}
			}
		}
		innerIdx := map[*dt.Node]int{}
		for i, n := range root.Inner() {
			innerIdx[n] = i
		}
		underSet := map[int]bool{}
		for _, l := range root.Leaves() {
			if l.Class == 0 && l.Tag == 6 && !covered[string(l.Content)] {
				x := parent[l]
				for x != nil && !unit[x] && parent[x] != nil {
					x = parent[x]
				}
				if x != nil {
					if ii, ok := innerIdx[x]; ok && ii > 0 {
						underSet[ii] = true
					}
				}
			}
		}
		for k := range has[best] {
			covered[k] = true
		}
		if len(underSet) == 0 {
			continue
		}
		b := sweepBase{Obj: o}
		for ii := range underSet {
			b.Under = append(b.Under, ii)
		}
		sort.Ints(b.Under)
		for _, l := range registryLints(lint.GlobalRegistry()) {
			if l.Kind == "cert" && homeClass[l.Name][best] >= 1 && l.Name != "e_rsa_fermat_factorization" {
				b.Lints = append(b.Lints, l.Name)
			}
		}
		sort.Strings(b.Lints)
		if len(b.Lints) > 0 {
			out = append(out, b)
		}
	}
	return out
}

var (
	coverMu   sync.Mutex
	coverMemo = map[int][]sweepBase{}
)

// sweepStride / sweepOffset thin a sweep out: only every sweepStride-th unit (a leaf or an inner node of a base)
// is enumerated. 1 = everything. Set (and reset) by the caller around a sweep.
var sweepStride, sweepOffset = 1, 0

// sweepSelect, when set, decides per mutant (by its bytes) whether it is linted at all - a cheap way to give an
// expensive oracle a fixed share of the neighbourhood.
var sweepSelect func(der []byte) bool

// sweepVariant post-processes a mutant tree (after the single edit); nil = the edit alone.
type sweepVariant struct {
	Name  string
	Apply func(v *gen.CertView) bool
}

// homeSweep enumerates the mutants (this shard's share, partitioned by (base,
// leaf)) and hands each run to judge. A non-empty message is reported under
// oracle; the function returns after the first unlisted violation.
func homeSweep(rec *stats.Rec, K int, withExp bool, oracle string, judge func(c engine.Case, run *engine.Run) (string, string), onViolation func(string)) {
	gen.OIDFamilyMode = !stats.Thorough()
	defer func() { gen.OIDFamilyMode = false }()
	cover := homeCover(K)
	lintsCovered := map[string]bool{}
	for _, b := range cover {
		for _, n := range b.Lints {
			lintsCovered[n] = true
		}
	}
	fc := featureCover(cover)
	// synthetic revocation lists and OCSP responses with the fields the corpus lacks, linted with every lint of their kind
	var rich []sweepBase
	var crlLints, ocspLints []string
	for _, l := range registryLints(lint.GlobalRegistry()) {
		switch l.Kind {
		case "crl":
			crlLints = append(crlLints, l.Name)
		case "ocsp":
			ocspLints = append(ocspLints, l.Name)
		}
	}
	for _, o := range gen.RichCRLs() {
		if _, ok := gen.ParseCRL(o.DER); ok && len(crlLints) > 0 {
			rich = append(rich, sweepBase{Obj: o, Lints: crlLints})
		}
	}
	for _, o := range gen.RichOCSPs() {
		if _, ok := gen.ParseOCSP(o.DER); ok && len(ocspLints) > 0 {
			rich = append(rich, sweepBase{Obj: o, Lints: ocspLints})
		}
	}
	rec.ClassN("rich_synthetic_bases", int64(len(rich)))
	sweepBases(rec, append(append(append([]sweepBase{}, cover...), fc...), rich...), nil, withExp, oracle, judge, onViolation)
	rec.Note("featuresweep", fmt.Sprintf("%d further certificates carry an object identifier that no home object has; the field around it (extension / RDN / top-level field) is swept with every lint that runs on the certificate", len(fc)))
	rec.Note("homesweep", fmt.Sprintf("K=%d: %d base objects cover %d lints; every (leaf x type-aware edit) mutant enumerated", K, len(cover), len(lintsCovered)))
	rec.Exhaustive("home-sweep", true)
}

// sweepBases: every (leaf x type-aware edit) mutant of every base, linted with the
// base's lints; certificates additionally in every extra variant.
func sweepBases(rec *stats.Rec, cover []sweepBase, extra []sweepVariant, withExp bool, oracle string, judge func(c engine.Case, run *engine.Run) (string, string), onViolation func(string)) {
	unit, cases, parsed := 0, int64(0), int64(0)
	for _, b := range cover {
		root, err := dt.Parse(b.Obj.DER)
		if err != nil {
			continue
		}
		// a self-signed base gives two mutants per edit: the edit alone (the parser then
		// sees a certificate that is no longer self-signed - and algorithm / key edits
		// survive) and the edit followed by re-signing (stays a root).
		variants := []sweepVariant{{Name: ""}}
		if b.Obj.Kind == gen.Cert {
			if pc, ok := gen.ParseCert(b.Obj.DER); ok && pc.SelfSigned {
				variants = append(variants, sweepVariant{"selfsign", func(v *gen.CertView) bool { v.SelfSign(); return true }})
			}
			variants = append(variants, extra...)
		}
		filters := []engine.FilterSpec{{IncludeNames: b.Lints}}
		if len(b.Lints) == 0 {
			filters = []engine.FilterSpec{{ExcludeNames: b.Exclude}}
			if len(b.Exclude) == 0 {
				filters = nil
			}
		}
		var keyLeaf map[*dt.Node]bool
		if b.KeyLeavesOnly {
			keyLeaf = map[*dt.Node]bool{}
			if v, err := gen.ViewCertTree(root); err == nil {
				v.SPKI().Walk(func(x, _ *dt.Node, _ int) { keyLeaf[x] = true })
			}
		}
		reg, cfg, restore, err := engine.BuildRegistry(engine.Case{Filters: filters})
		restore()
		if err != nil {
			continue
		}
		// one mutant: apply edits to a clone, every variant
		try := func(apply func(m *dt.Node) string, where string) bool {
			for _, vr := range variants {
				m := root.Clone()
				op := apply(m)
				if vr.Apply != nil {
					v, err := gen.ViewCertTree(m)
					if err != nil || !vr.Apply(v) {
						continue
					}
					op += "+" + vr.Name
				}
				c := engine.Case{Kind: b.Obj.Kind, DER: m.Encode(), Base: b.Obj.Name, Filters: filters, Ops: []string{fmt.Sprintf("sweep %s(%s)", where, op)}}
				if sweepSelect != nil && !sweepSelect(c.DER) {
					continue
				}
				run := engine.ExecuteReg(c, reg, cfg, withExp)
				cases++
				rec.Eval()
				if run.Parsed {
					parsed++
				}
				if sig, msg := judge(c, run); msg != "" {
					if rec.Report(oracle, sig, msg, c) {
						onViolation(fmt.Sprintf("%s sweep %s %s(%s): %s: %s", oracle, b.Obj.Name, where, op, sig, msg))
						return false
					}
				}
			}
			return true
		}
		var under map[*dt.Node]bool
		if b.Under != nil {
			under = map[*dt.Node]bool{}
			inn := root.Inner()
			for _, ii := range b.Under {
				if ii < len(inn) {
					inn[ii].Walk(func(x, _ *dt.Node, _ int) { under[x] = true })
				}
			}
		}
		nl := len(root.Leaves())
		for li := 0; li < nl; li++ {
			if keyLeaf != nil && !keyLeaf[root.Leaves()[li]] {
				continue
			}
			if under != nil && !under[root.Leaves()[li]] {
				continue
			}
			unit++
			if !stats.Mine(unit/sweepStride) || unit%sweepStride != sweepOffset%sweepStride {
				continue
			}
			ne := gen.LeafEditCount(root.Leaves()[li])
			for e := 0; e < ne; e++ {
				li, e := li, e
				if !try(func(m *dt.Node) string { return gen.ApplyLeafEdit(m.Leaves()[li], e) }, fmt.Sprintf("leaf=%d edit=%d", li, e)) {
					return
				}
			}
		}
		// structural edits on every inner node (not the outermost SEQUENCE)
		ni := len(root.Inner())
		for ii := 1; ii < ni && keyLeaf == nil; ii++ {
			if under != nil && !under[root.Inner()[ii]] {
				continue
			}
			unit++
			if !stats.Mine(unit/sweepStride) || unit%sweepStride != sweepOffset%sweepStride {
				continue
			}
			for e := 0; e < gen.NumInnerEdits; e++ {
				ii, e := ii, e
				if !try(func(m *dt.Node) string { return gen.ApplyInnerEdit(m.Inner()[ii], e) }, fmt.Sprintf("inner=%d edit=%d", ii, e)) {
					return
				}
			}
		}
	}
	rec.ClassN("sweep_cases", cases)
	rec.ClassN("sweep_parsed", parsed)
}

func genLeafCount(n *dt.Node) int { return gen.LeafEditCount(n) }
