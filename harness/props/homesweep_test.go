package props

import (
	"fmt"
	"sort"
	"sync"

	"github.com/zmap/zlint/v3/lint"

	"verifharness/engine"
	"verifharness/gen"
	"verifharness/stats"

	dt "verifharness/dertree"
)

// The home sweep gives EVERY registered lint a complete single-edit
// neighbourhood: a small set of corpus objects is chosen (greedy cover) so that
// each lint has up to K objects on which its body runs - one where it passes and
// one where it reports, where the corpus has both - and every (leaf x type-aware
// edit) mutant of those objects is linted with the lints the object was chosen
// for. A finite generated domain, enumerated; no random choice.

type sweepBase struct {
	Obj   gen.Obj
	Lints []string
	// Exclude (instead of Lints): lint with everything but these
	Exclude []string
	// KeyLeavesOnly restricts the sweep to leaves inside the subjectPublicKeyInfo
	KeyLeavesOnly bool
}

// homeCover computes the cover for quota K per lint (deterministic).
func homeCover(K int) []sweepBase {
	coverMu.Lock()
	defer coverMu.Unlock()
	if c, ok := coverMemo[K]; ok {
		return c
	}
	homeObjects()
	var out []sweepBase
	for _, kind := range []string{"cert", "crl", "ocsp"} {
		var lints []string
		for _, l := range registryLints(lint.GlobalRegistry()) {
			if l.Kind == kind && len(homeClass[l.Name]) > 0 {
				lints = append(lints, l.Name)
			}
		}
		sort.Strings(lints)
		objs := kindObjs(kind)
		// serve[i] = (lint index, class) pairs object i could serve
		type sv struct {
			l  int
			cl int8
		}
		serve := make([][]sv, len(objs))
		need := make([][3]int, len(lints)) // by class: 0 NE, 1 pass, 2 finding
		for li, name := range lints {
			var cnt [3]int
			idx := make([]int, 0, len(homeClass[name]))
			for i := range homeClass[name] {
				idx = append(idx, i)
			}
			sort.Ints(idx)
			for _, i := range idx {
				cl := homeClass[name][i]
				cnt[cl]++
				serve[i] = append(serve[i], sv{li, int8(cl)})
			}
			half := (K + 1) / 2
			nf := min(cnt[2], half)
			np := min(cnt[1], K-nf)
			if np+nf < K {
				nf = min(cnt[2], K-np)
			}
			nn := 0
			if np+nf == 0 {
				nn = min(cnt[0], K)
			}
			need[li] = [3]int{nn, np, nf}
		}
		used := make([]bool, len(objs))
		for {
			best, bestGain := -1, 0
			for i := range objs {
				if used[i] {
					continue
				}
				gain := 0
				for _, x := range serve[i] {
					if need[x.l][x.cl] > 0 {
						gain++
					}
				}
				if gain > bestGain {
					best, bestGain = i, gain
				}
			}
			if best < 0 {
				break
			}
			used[best] = true
			b := sweepBase{Obj: objs[best]}
			for _, x := range serve[best] {
				if need[x.l][x.cl] > 0 {
					need[x.l][x.cl]--
					b.Lints = append(b.Lints, lints[x.l])
				}
			}
			sort.Strings(b.Lints)
			out = append(out, b)
		}
	}
	coverMemo[K] = out
	return out
}

var (
	coverMu   sync.Mutex
	coverMemo = map[int][]sweepBase{}
)

// sweepVariant post-processes a mutant tree (after the single edit); nil = the edit alone.
type sweepVariant struct {
	Name  string
	Apply func(v *gen.CertView) bool
}

// homeSweep enumerates the mutants (this shard's share, partitioned by (base,
// leaf)) and hands each run to judge. A non-empty message is reported under
// oracle; the function returns after the first unlisted violation.
func homeSweep(rec *stats.Rec, K int, withExp bool, oracle string, judge func(c engine.Case, run *engine.Run) (string, string), onViolation func(string)) {
	gen.OIDFamilyMode = !stats.Thorough()
	defer func() { gen.OIDFamilyMode = false }()
	cover := homeCover(K)
	lintsCovered := map[string]bool{}
	for _, b := range cover {
		for _, n := range b.Lints {
			lintsCovered[n] = true
		}
	}
	sweepBases(rec, cover, nil, withExp, oracle, judge, onViolation)
	rec.Note("homesweep", fmt.Sprintf("K=%d: %d base objects cover %d lints; every (leaf x type-aware edit) mutant enumerated", K, len(cover), len(lintsCovered)))
	rec.Exhaustive("home-sweep", true)
}

// sweepBases: every (leaf x type-aware edit) mutant of every base, linted with the
// base's lints; certificates additionally in every extra variant.
func sweepBases(rec *stats.Rec, cover []sweepBase, extra []sweepVariant, withExp bool, oracle string, judge func(c engine.Case, run *engine.Run) (string, string), onViolation func(string)) {
	unit, cases, parsed := 0, int64(0), int64(0)
	for _, b := range cover {
		root, err := dt.Parse(b.Obj.DER)
		if err != nil {
			continue
		}
		// a self-signed base gives two mutants per edit: the edit alone (the parser then
		// sees a certificate that is no longer self-signed - and algorithm / key edits
		// survive) and the edit followed by re-signing (stays a root).
		variants := []sweepVariant{{Name: ""}}
		if b.Obj.Kind == gen.Cert {
			if pc, ok := gen.ParseCert(b.Obj.DER); ok && pc.SelfSigned {
				variants = append(variants, sweepVariant{"selfsign", func(v *gen.CertView) bool { v.SelfSign(); return true }})
			}
			variants = append(variants, extra...)
		}
		filters := []engine.FilterSpec{{IncludeNames: b.Lints}}
		if len(b.Lints) == 0 {
			filters = []engine.FilterSpec{{ExcludeNames: b.Exclude}}
			if len(b.Exclude) == 0 {
				filters = nil
			}
		}
		var keyLeaf map[*dt.Node]bool
		if b.KeyLeavesOnly {
			keyLeaf = map[*dt.Node]bool{}
			if v, err := gen.ViewCertTree(root); err == nil {
				v.SPKI().Walk(func(x, _ *dt.Node, _ int) { keyLeaf[x] = true })
			}
		}
		reg, cfg, restore, err := engine.BuildRegistry(engine.Case{Filters: filters})
		restore()
		if err != nil {
			continue
		}
		nl := len(root.Leaves())
		for li := 0; li < nl; li++ {
			if keyLeaf != nil && !keyLeaf[root.Leaves()[li]] {
				continue
			}
			unit++
			if !stats.Mine(unit) {
				continue
			}
			ne := gen.LeafEditCount(root.Leaves()[li])
			for e := 0; e < ne; e++ {
				for _, vr := range variants {
					m := root.Clone()
					op := gen.ApplyLeafEdit(m.Leaves()[li], e)
					if vr.Apply != nil {
						v, err := gen.ViewCertTree(m)
						if err != nil || !vr.Apply(v) {
							continue
						}
						op += "+" + vr.Name
					}
					c := engine.Case{Kind: b.Obj.Kind, DER: m.Encode(), Base: b.Obj.Name, Filters: filters,
						Ops: []string{fmt.Sprintf("sweep leaf=%d edit=%d(%s)", li, e, op)}}
					run := engine.ExecuteReg(c, reg, cfg, withExp)
					cases++
					rec.Eval()
					if run.Parsed {
						parsed++
					}
					if sig, msg := judge(c, run); msg != "" {
						if rec.Report(oracle, sig, msg, c) {
							onViolation(fmt.Sprintf("%s sweep %s leaf=%d edit=%d(%s): %s: %s", oracle, b.Obj.Name, li, e, op, sig, msg))
							return
						}
					}
				}
			}
		}
	}
	rec.ClassN("sweep_cases", cases)
	rec.ClassN("sweep_parsed", parsed)
}

func genLeafCount(n *dt.Node) int { return gen.LeafEditCount(n) }
