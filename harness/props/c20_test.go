package props

import (
	"bytes"
	"encoding/json"
	"fmt"
	"sort"
	"testing"

	"github.com/zmap/zlint/v3/lint"
	"pgregory.net/rapid"

	"verifharness/engine"
	"verifharness/gen"
	"verifharness/model"
	"verifharness/stats"

	dt "verifharness/dertree"
)

type rulePair struct {
	A, B string
	Kind string // "twin" (same rule twice) or "companion" (A = error-level limit, B = stricter warning-level companion)
	Fam  string
}

var rulePairs = []rulePair{
	{"e_rfc_dnsname_empty_label", "e_dnsname_empty_label", "twin", "rfc-br-dns"},
	{"e_rfc_dnsname_hyphen_in_sld", "e_dnsname_hyphen_in_sld", "twin", "rfc-br-dns"},
	{"e_rfc_dnsname_label_too_long", "e_dnsname_label_too_long", "twin", "rfc-br-dns"},
	{"e_rfc_dnsname_underscore_in_sld", "e_dnsname_underscore_in_sld", "twin", "rfc-br-dns"},
	{"w_rfc_dnsname_underscore_in_trd", "w_dnsname_underscore_in_trd", "twin", "rfc-br-dns"},
	{"e_prohibit_dsa_usage", "e_br_prohibit_dsa_usage", "twin", "dsa"},
	{"w_sub_cert_aia_contains_internal_names", "w_smime_aia_contains_internal_names", "twin", "aia"},
	{"e_ext_san_dns_not_ia5_string", "e_ext_ian_dns_not_ia5_string", "twin", "san-ian"},
	{"e_ext_san_empty_name", "e_ext_ian_empty_name", "twin", "san-ian"},
	{"e_ext_san_no_entries", "e_ext_ian_no_entries", "twin", "san-ian"},
	{"e_ext_san_rfc822_format_invalid", "e_ext_ian_rfc822_format_invalid", "twin", "san-ian"},
	{"e_ext_san_space_dns_name", "e_ext_ian_space_dns_name", "twin", "san-ian"},
	{"e_ext_san_uri_format_invalid", "e_ext_ian_uri_format_invalid", "twin", "san-ian"},
	{"e_ext_san_uri_host_not_fqdn_or_ip", "e_ext_ian_uri_host_not_fqdn_or_ip", "twin", "san-ian"},
	{"e_ext_san_uri_not_ia5", "e_ext_ian_uri_not_ia5", "twin", "san-ian"},
	{"e_ext_san_uri_relative", "e_ext_ian_uri_relative", "twin", "san-ian"},
	{"w_subject_dn_leading_whitespace", "w_issuer_dn_leading_whitespace", "twin", "subject-issuer"},
	{"w_subject_dn_trailing_whitespace", "w_issuer_dn_trailing_whitespace", "twin", "subject-issuer"},
	{"n_multiple_subject_rdn", "w_multiple_issuer_rdn", "twin", "subject-issuer"},
	{"e_subject_dn_country_not_printable_string", "e_issuer_dn_country_not_printable_string", "twin", "subject-issuer"},
	{"e_tls_server_cert_valid_time_longer_than_398_days", "w_tls_server_cert_valid_time_longer_than_397_days", "companion", "validity"},
	{"e_subject_given_name_max_length", "w_subject_given_name_recommended_max_length", "companion", "name-length"},
	{"e_subject_surname_max_length", "w_subject_surname_recommended_max_length", "companion", "name-length"},
}

type c20Case struct {
	DER  []byte   `json:"der"`
	Base string   `json:"base,omitempty"`
	Fam  string   `json:"family,omitempty"`
	Desc []string `json:"desc,omitempty"`
}

func isFinding(s lint.LintStatus) bool { return s == lint.Notice || s == lint.Warn || s == lint.Error }

// sameContent: does the certificate present the same content to both members of a family?
func sameContent(fam string, run *engine.Run) bool {
	c := run.Cert
	switch fam {
	case "rfc-br-dns":
		// BR copies also read the common name: judge only when CN is empty, an IP, or one of the SAN DNS names
		cn := c.Subject.CommonName
		if cn == "" || netParseIP(cn) {
			return true
		}
		for _, d := range c.DNSNames {
			if d == cn {
				return true
			}
		}
		return false
	case "san-ian":
		v, err := gen.ViewCert(c.Raw)
		if err != nil {
			return false
		}
		// exactly one SAN and one IAN extension, with identical values
		ns, ni := 0, 0
		if e := v.Extensions(); e != nil {
			for _, x := range e.Children {
				if len(x.Children) >= 2 && x.Children[0].OIDEquals(gen.OIDExtSAN...) {
					ns++
				}
				if len(x.Children) >= 2 && x.Children[0].OIDEquals(gen.OIDExtIAN...) {
					ni++
				}
			}
		}
		s, i := gen.ExtValue(v.Ext(gen.OIDExtSAN...)), gen.ExtValue(v.Ext(gen.OIDExtIAN...))
		return ns == 1 && ni == 1 && s != nil && i != nil && bytes.Equal(s.Body(), i.Body())
	case "subject-issuer":
		return bytes.Equal(c.RawSubject, c.RawIssuer)
	}
	return true
}

func judgeC20(rec *stats.Rec, c c20Case) (string, string) {
	return judgeC20Run(rec, c, engine.Execute(engine.Case{Kind: gen.Cert, DER: c.DER}, true))
}

func judgeC20Run(rec *stats.Rec, c c20Case, run *engine.Run) (string, string) {
	if !run.Parsed || run.RS == nil {
		rec.Class("parse_rejected")
		return "", ""
	}
	v := engine.Verdicts(run.RS)
	content := map[string]bool{}
	for _, p := range rulePairs {
		ea, oka := run.Exp[p.A]
		eb, okb := run.Exp[p.B]
		if !oka || !okb {
			rec.Class("pair_member_missing:" + p.A + "+" + p.B)
			continue
		}
		if ea.Stage != model.StExecuted || eb.Stage != model.StExecuted {
			continue
		}
		same, done := content[p.Fam]
		if !done {
			same = sameContent(p.Fam, run)
			content[p.Fam] = same
		}
		if !same {
			rec.Class("both_ran_different_content:" + p.Fam)
			continue
		}
		rec.Class("both_ran:" + p.A)
		a, b := v[p.A].Status, v[p.B].Status
		if a == lint.Fatal || b == lint.Fatal {
			continue
		}
		if isFinding(a) || isFinding(b) {
			rec.NT(stats.HashS(p.A, fmt.Sprint(stats.Hash(c.DER))))
		}
		switch p.Kind {
		case "twin":
			samePrefix := p.A[:2] == p.B[:2]
			if samePrefix && a != b {
				return "twin|" + p.A + "|" + p.B, fmt.Sprintf("%s says %s but %s says %s on the same content (%v)", p.A, a, p.B, b, c.Desc)
			}
			if !samePrefix && isFinding(a) != isFinding(b) {
				return "twin|" + p.A + "|" + p.B, fmt.Sprintf("%s says %s but %s says %s on the same content (%v)", p.A, a, p.B, b, c.Desc)
			}
		case "companion":
			if a == lint.Error && !isFinding(b) {
				return "companion|" + p.A + "|" + p.B, fmt.Sprintf("%s reports error but its stricter companion %s reports %s", p.A, p.B, b)
			}
		}
	}
	return "", ""
}

var (
	oidOCSP      = []int{1, 3, 6, 1, 5, 5, 7, 48, 1}
	oidCAIssuers = []int{1, 3, 6, 1, 5, 5, 7, 48, 2}
)

func TestC20(t *testing.T) {
	rec := newRec(t, "C20")
	for _, p := range rulePairs {
		if len(homeObjects()[p.A]) == 0 || len(homeObjects()[p.B]) == 0 {
			rec.Class("pair_without_home:" + p.A + "+" + p.B)
		}
	}
	counts := map[string][2]int{"rfc-br-dns": {4000, 130000}, "san-ian": {4000, 130000}, "subject-issuer": {3000, 100000}, "aia": {2000, 60000},
		"validity": {1500, 40000}, "name-length": {800, 20000}}
	for _, fam := range []string{"rfc-br-dns", "san-ian", "subject-issuer", "aia", "validity", "name-length"} {
		fam := fam
		rapidRun(t, fam, perShard(stats.Scale(counts[fam][0], counts[fam][1])), func(rt *rapid.T) {
			sc, ok := drawStructured(rt, fam)
			if !ok {
				return
			}
			c := c20Case{DER: sc.DER, Base: sc.Base, Fam: fam, Desc: sc.Desc}
			rec.Eval()
			rec.Class("family_" + fam)
			if sig, msg := judgeC20(rec, c); msg != "" {
				fail(rt, rec, "c20", sig, msg, c)
			}
			if rec.WantSample() && rapid.IntRange(0, 80).Draw(rt, "smp") == 0 {
				rec.Sample(map[string]interface{}{"family": fam, "base": sc.Base, "content": sc.Desc})
			}
		})
	}
	// enumerated: the URI grammar's cross product (scheme x userinfo x host x port x path) as the one entry of both
	// subjectAltName and issuerAltName - the nine SAN / IAN URI rule copies must agree on every shape of authority
	if fb, _ := structBases(); len(fb["san-ian"]) > 0 {
		o := gen.LoadCorpus().Certs[fb["san-ian"][0]]
		k := 0
		for _, scheme := range []string{"https", "ldap", "X-y.z"} {
			for _, user := range []string{"", "user@", "u:p@", "@"} {
				for _, host := range []string{"example.com", "www.example.co.uk", "localhost", "intranet", "a_b.example.com", "1.2.3.4", "10.0.0.1", "[::1]", "[2001:db8::1]", "", "*.example.com", "*", "example.com.", "EXAMPLE.COM",
					"xn--bcher-kva.example", "-a.com", "exa mple.com", "host.invalidtld", "a..b", "999.1.1.1"} {
					for _, port := range []string{"", ":80", ":", ":x", ":99999"} {
						for _, path := range []string{"", "/", "/a?b=c#d", "?q"} {
							k++
							if !stats.Mine(k) {
								continue
							}
							u := scheme + "://" + user + host + port + path
							v, err := gen.ViewCert(o.DER)
							if err != nil {
								continue
							}
							v.SetSAN(false, gen.GNURI([]byte(u)))
							for v.Ext(gen.OIDExtIAN...) != nil {
								v.RemoveExt(gen.OIDExtIAN...)
							}
							v.SetIAN(gen.GNURI([]byte(u)))
							if pc, ok := gen.ParseCert(o.DER); ok {
								gen.Redate(v, pc, latestEffective, gen.UTCZ)
							}
							c := c20Case{DER: v.DER(), Base: o.Name, Fam: "uri-product", Desc: []string{u}}
							rec.Eval()
							rec.Class("uri_product_enumerated")
							if sig, msg := judgeC20(rec, c); msg != "" {
								if rec.Report("c20", sig, msg, c) {
									t.Fatalf("c20 URI %q in SAN and IAN: %s: %s", u, sig, msg)
								}
							}
						}
					}
				}
			}
		}
	}
	// pair sweep (enumerated): for every pair, corpus certificates on which both members run x every
	// (leaf x type-aware edit) mutant - the edit alone, the edit with the subjectAltName value then copied
	// into issuerAltName, and the edit with the subject then copied into the issuer - linted with all
	// pair members; the pair relation is judged wherever both members ran on the same content.
	{
		homeObjects()
		var members []string
		seenM := map[string]bool{}
		g := lint.GlobalRegistry().CertificateLints()
		for _, p := range rulePairs {
			for _, n := range []string{p.A, p.B} {
				if !seenM[n] && g.ByName(n) != nil {
					seenM[n] = true
					members = append(members, n)
				}
			}
		}
		sort.Strings(members)
		co := gen.LoadCorpus()
		chosen := map[int]bool{}
		var cover []sweepBase
		K := stats.Scale(1, 5)
		for _, p := range rulePairs {
			// prefer objects on which a member reports (class 2), then both-pass objects
			var cand []int
			for cl := 2; cl >= 1; cl-- {
				var idx []int
				for i, ca := range homeClass[p.A] {
					if cb, ok := homeClass[p.B][i]; ok && ca >= 1 && cb >= 1 && max(ca, cb) == cl {
						idx = append(idx, i)
					}
				}
				sort.Ints(idx)
				cand = append(cand, idx...)
			}
			n := 0
			for _, i := range cand {
				if n >= K {
					break
				}
				n++
				if !chosen[i] {
					chosen[i] = true
					cover = append(cover, sweepBase{Obj: co.Certs[i], Lints: members})
				}
			}
		}
		extra := []sweepVariant{
			{"san-into-ian", func(v *gen.CertView) bool {
				san := gen.ExtInner(v.Ext(gen.OIDExtSAN...))
				if san == nil || san.IsLeaf() {
					return false
				}
				for v.Ext(gen.OIDExtIAN...) != nil {
					v.RemoveExt(gen.OIDExtIAN...)
				}
				var gns []*dt.Node
				for _, ch := range san.Children {
					gns = append(gns, ch.Clone())
				}
				v.SetIAN(gns...)
				return true
			}},
			{"subject-into-issuer", func(v *gen.CertView) bool { v.SetIssuer(v.Subject().Clone()); return true }},
		}
		gen.OIDFamilyMode = !stats.Thorough()
		sweepBases(rec, cover, extra, true, "c20", func(ec engine.Case, run *engine.Run) (string, string) {
			return judgeC20Run(rec, c20Case{DER: ec.DER, Base: ec.Base, Fam: "pair-sweep", Desc: ec.Ops}, run)
		}, func(s string) { t.Fatalf("%s", s) })
		gen.OIDFamilyMode = false
		rec.Note("pairsweep", fmt.Sprintf("%d base certificates (K=%d per pair), %d pair members", len(cover), K, len(members)))
	}
	rapidRun(t, "generated", perShard(stats.Scale(4000, 100000)), func(rt *rapid.T) {
		// any generated certificate: pairs whose members both run are judged too (DSA, etc.)
		cc := gen.DrawCert(rt, 3, true)
		c := c20Case{DER: cc.DER, Base: cc.Base, Fam: "generated", Desc: cc.Ops}
		rec.Eval()
		rec.Class("family_generated")
		if sig, msg := judgeC20(rec, c); msg != "" {
			fail(rt, rec, "c20", sig, msg, c)
		}
	})
}

func init() {
	registerReplayer("c20", func(rec *stats.Rec, raw json.RawMessage) (string, string) {
		var c c20Case
		if err := json.Unmarshal(raw, &c); err != nil {
			return "decode", err.Error()
		}
		return judgeC20(rec, c)
	})
}
