package props

import (
	"bytes"
	"encoding/json"
	"fmt"
	"strings"
	"testing"
	"time"

	"github.com/zmap/zlint/v3/lint"
	"pgregory.net/rapid"

	"verifharness/engine"
	"verifharness/gen"
	"verifharness/model"
	"verifharness/stats"

	dt "verifharness/dertree"
)

type rulePair struct {
	A, B string
	Kind string // "twin" (same rule twice) or "companion" (A = error-level limit, B = stricter warning-level companion)
	Fam  string
}

var rulePairs = []rulePair{
	{"e_rfc_dnsname_empty_label", "e_dnsname_empty_label", "twin", "rfc-br-dns"},
	{"e_rfc_dnsname_hyphen_in_sld", "e_dnsname_hyphen_in_sld", "twin", "rfc-br-dns"},
	{"e_rfc_dnsname_label_too_long", "e_dnsname_label_too_long", "twin", "rfc-br-dns"},
	{"e_rfc_dnsname_underscore_in_sld", "e_dnsname_underscore_in_sld", "twin", "rfc-br-dns"},
	{"w_rfc_dnsname_underscore_in_trd", "w_dnsname_underscore_in_trd", "twin", "rfc-br-dns"},
	{"e_prohibit_dsa_usage", "e_br_prohibit_dsa_usage", "twin", "dsa"},
	{"w_sub_cert_aia_contains_internal_names", "w_smime_aia_contains_internal_names", "twin", "aia"},
	{"e_ext_san_dns_not_ia5_string", "e_ext_ian_dns_not_ia5_string", "twin", "san-ian"},
	{"e_ext_san_empty_name", "e_ext_ian_empty_name", "twin", "san-ian"},
	{"e_ext_san_no_entries", "e_ext_ian_no_entries", "twin", "san-ian"},
	{"e_ext_san_rfc822_format_invalid", "e_ext_ian_rfc822_format_invalid", "twin", "san-ian"},
	{"e_ext_san_space_dns_name", "e_ext_ian_space_dns_name", "twin", "san-ian"},
	{"e_ext_san_uri_format_invalid", "e_ext_ian_uri_format_invalid", "twin", "san-ian"},
	{"e_ext_san_uri_host_not_fqdn_or_ip", "e_ext_ian_uri_host_not_fqdn_or_ip", "twin", "san-ian"},
	{"e_ext_san_uri_not_ia5", "e_ext_ian_uri_not_ia5", "twin", "san-ian"},
	{"e_ext_san_uri_relative", "e_ext_ian_uri_relative", "twin", "san-ian"},
	{"w_subject_dn_leading_whitespace", "w_issuer_dn_leading_whitespace", "twin", "subject-issuer"},
	{"w_subject_dn_trailing_whitespace", "w_issuer_dn_trailing_whitespace", "twin", "subject-issuer"},
	{"n_multiple_subject_rdn", "w_multiple_issuer_rdn", "twin", "subject-issuer"},
	{"e_subject_dn_country_not_printable_string", "e_issuer_dn_country_not_printable_string", "twin", "subject-issuer"},
	{"e_tls_server_cert_valid_time_longer_than_398_days", "w_tls_server_cert_valid_time_longer_than_397_days", "companion", "validity"},
	{"e_subject_given_name_max_length", "w_subject_given_name_recommended_max_length", "companion", "name-length"},
	{"e_subject_surname_max_length", "w_subject_surname_recommended_max_length", "companion", "name-length"},
}

type c20Case struct {
	DER  []byte   `json:"der"`
	Base string   `json:"base,omitempty"`
	Fam  string   `json:"family,omitempty"`
	Desc []string `json:"desc,omitempty"`
}

func isFinding(s lint.LintStatus) bool { return s == lint.Notice || s == lint.Warn || s == lint.Error }

// sameContent: does the certificate present the same content to both members of a family?
func sameContent(fam string, run *engine.Run) bool {
	c := run.Cert
	switch fam {
	case "rfc-br-dns":
		// BR copies also read the common name: judge only when CN is empty, an IP, or one of the SAN DNS names
		cn := c.Subject.CommonName
		if cn == "" || netParseIP(cn) {
			return true
		}
		for _, d := range c.DNSNames {
			if d == cn {
				return true
			}
		}
		return false
	case "san-ian":
		v, err := gen.ViewCert(c.Raw)
		if err != nil {
			return false
		}
		// exactly one SAN and one IAN extension, with identical values
		ns, ni := 0, 0
		if e := v.Extensions(); e != nil {
			for _, x := range e.Children {
				if len(x.Children) >= 2 && x.Children[0].OIDEquals(gen.OIDExtSAN...) {
					ns++
				}
				if len(x.Children) >= 2 && x.Children[0].OIDEquals(gen.OIDExtIAN...) {
					ni++
				}
			}
		}
		s, i := gen.ExtValue(v.Ext(gen.OIDExtSAN...)), gen.ExtValue(v.Ext(gen.OIDExtIAN...))
		return ns == 1 && ni == 1 && s != nil && i != nil && bytes.Equal(s.Body(), i.Body())
	case "subject-issuer":
		return bytes.Equal(c.RawSubject, c.RawIssuer)
	}
	return true
}

func judgeC20(rec *stats.Rec, c c20Case) (string, string) {
	run := engine.Execute(engine.Case{Kind: gen.Cert, DER: c.DER}, true)
	if !run.Parsed || run.RS == nil {
		rec.Class("parse_rejected")
		return "", ""
	}
	v := engine.Verdicts(run.RS)
	content := map[string]bool{}
	for _, p := range rulePairs {
		ea, oka := run.Exp[p.A]
		eb, okb := run.Exp[p.B]
		if !oka || !okb {
			rec.Class("pair_member_missing:" + p.A + "+" + p.B)
			continue
		}
		if ea.Stage != model.StExecuted || eb.Stage != model.StExecuted {
			continue
		}
		same, done := content[p.Fam]
		if !done {
			same = sameContent(p.Fam, run)
			content[p.Fam] = same
		}
		if !same {
			rec.Class("both_ran_different_content:" + p.Fam)
			continue
		}
		rec.Class("both_ran:" + p.A)
		a, b := v[p.A].Status, v[p.B].Status
		if a == lint.Fatal || b == lint.Fatal {
			continue
		}
		if isFinding(a) || isFinding(b) {
			rec.NT(stats.HashS(p.A, fmt.Sprint(stats.Hash(c.DER))))
		}
		switch p.Kind {
		case "twin":
			samePrefix := p.A[:2] == p.B[:2]
			if samePrefix && a != b {
				return "twin|" + p.A + "|" + p.B, fmt.Sprintf("%s says %s but %s says %s on the same content (%v)", p.A, a, p.B, b, c.Desc)
			}
			if !samePrefix && isFinding(a) != isFinding(b) {
				return "twin|" + p.A + "|" + p.B, fmt.Sprintf("%s says %s but %s says %s on the same content (%v)", p.A, a, p.B, b, c.Desc)
			}
		case "companion":
			if a == lint.Error && !isFinding(b) {
				return "companion|" + p.A + "|" + p.B, fmt.Sprintf("%s reports error but its stricter companion %s reports %s", p.A, p.B, b)
			}
		}
	}
	return "", ""
}

var (
	oidOCSP      = []int{1, 3, 6, 1, 5, 5, 7, 48, 1}
	oidCAIssuers = []int{1, 3, 6, 1, 5, 5, 7, 48, 2}
)

func TestC20(t *testing.T) {
	rec := newRec(t, "C20")
	hm := homeObjects()
	co := gen.LoadCorpus()
	// bases per family: corpus certificates that are home to both members of some pair of the family
	famBases := map[string][]int{}
	for _, p := range rulePairs {
		in := map[int]bool{}
		for _, i := range hm[p.A] {
			in[i] = true
		}
		for _, i := range hm[p.B] {
			if in[i] {
				famBases[p.Fam] = append(famBases[p.Fam], i)
			}
		}
		if len(hm[p.A]) == 0 || len(hm[p.B]) == 0 {
			rec.Class("pair_without_home:" + p.A + "+" + p.B)
		}
	}
	// TLS subscriber bases (homes of the BR dns lints) serve most families
	tls := famBases["rfc-br-dns"]
	pickBase := func(rt *rapid.T, fam string) gen.Obj {
		bs := famBases[fam]
		if len(bs) == 0 || rapid.IntRange(0, 3).Draw(rt, "tlsbase") == 0 {
			bs = tls
		}
		return co.Certs[bs[rapid.IntRange(0, len(bs)-1).Draw(rt, "base")]]
	}
	latest := time.Date(2024, 6, 1, 0, 0, 0, 0, time.UTC) // after every member's effective date
	finish := func(rt *rapid.T, o gen.Obj, v *gen.CertView, fam string, desc []string) {
		pc, _ := gen.ParseCert(o.DER)
		if pc != nil && rapid.IntRange(0, 2).Draw(rt, "redate") > 0 && fam != "validity" {
			gen.Redate(v, pc, latest.Add(time.Duration(rapid.IntRange(0, 200).Draw(rt, "days"))*24*time.Hour), gen.UTCZ)
		}
		if pc != nil && pc.SelfSigned {
			v.SelfSign()
		}
		c := c20Case{DER: v.DER(), Base: o.Name, Fam: fam, Desc: desc}
		rec.Eval()
		rec.Class("family_" + fam)
		if sig, msg := judgeC20(rec, c); msg != "" {
			fail(rt, rec, "c20", sig, msg, c)
		}
		if rec.WantSample() && rapid.IntRange(0, 80).Draw(rt, "smp") == 0 {
			rec.Sample(map[string]interface{}{"family": fam, "base": o.Name, "content": desc})
		}
	}
	rapidRun(t, "dns", perShard(stats.Scale(4000, 130000)), func(rt *rapid.T) {
		o := pickBase(rt, "rfc-br-dns")
		v, err := gen.ViewCert(o.DER)
		if err != nil {
			return
		}
		n := rapid.IntRange(1, 5).Draw(rt, "n")
		var gns []*dt.Node
		var desc []string
		for i := 0; i < n; i++ {
			var s string
			if rapid.IntRange(0, 5).Draw(rt, "rndname") == 0 {
				s = rapid.StringMatching(`[a-z0-9_*.-]{1,30}\.(com|org|co\.uk|invalid)`).Draw(rt, "name")
			} else {
				s = gen.DNSDict[rapid.IntRange(0, len(gen.DNSDict)-1).Draw(rt, "dns")]
			}
			gns = append(gns, gen.GNDNS([]byte(s)))
			desc = append(desc, s)
		}
		v.SetSAN(false, gns...)
		switch rapid.IntRange(0, 2).Draw(rt, "cn") {
		case 0:
			v.RemoveCN()
			desc = append(desc, "cn:none")
		case 1:
			cn := desc[rapid.IntRange(0, n-1).Draw(rt, "cnidx")]
			v.SetCN([]byte(cn), 12)
			desc = append(desc, "cn:"+cn)
		default:
			desc = append(desc, "cn:kept")
		}
		finish(rt, o, v, "rfc-br-dns", desc)
	})
	rapidRun(t, "san-ian", perShard(stats.Scale(4000, 130000)), func(rt *rapid.T) {
		o := pickBase(rt, "san-ian")
		v, err := gen.ViewCert(o.DER)
		if err != nil {
			return
		}
		n := rapid.IntRange(0, 4).Draw(rt, "n")
		var gns, gns2 []*dt.Node
		var desc []string
		for i := 0; i < n; i++ {
			g, d := gen.DrawGN(rt)
			if rapid.IntRange(0, 6).Draw(rt, "hostile") == 0 {
				b := gen.Dict[rapid.IntRange(0, len(gen.Dict)-1).Draw(rt, "dict")]
				if len(b) < 400 {
					arm := rapid.SampledFrom([]uint32{1, 2, 6}).Draw(rt, "arm")
					g, d = dt.Prim(2, arm, b), fmt.Sprintf("arm%d:%q", arm, short(string(b), 40))
				}
			}
			gns = append(gns, g)
			gns2 = append(gns2, g.Clone())
			desc = append(desc, d)
		}
		v.SetSAN(false, gns...)
		v.SetIAN(gns2...)
		finish(rt, o, v, "san-ian", desc)
	})
	strTags := []uint32{12, 19, 20, 22, 30, 28}
	rapidRun(t, "subject-issuer", perShard(stats.Scale(3000, 100000)), func(rt *rapid.T) {
		o := pickBase(rt, "subject-issuer")
		v, err := gen.ViewCert(o.DER)
		if err != nil {
			return
		}
		var rdns [][]*dt.Node
		var desc []string
		for i, n := 0, rapid.IntRange(1, 5).Draw(rt, "nrdn"); i < n; i++ {
			var rdn []*dt.Node
			for j, m := 0, rapid.SampledFrom([]int{1, 1, 1, 2, 3}).Draw(rt, "natv"); j < m; j++ {
				oid := rapid.SampledFrom([][]int{gen.OIDC, gen.OIDO, gen.OIDOU, gen.OIDCN, gen.OIDL, gen.OIDST, gen.OIDSerial, gen.OIDGiven, gen.OIDSurname}).Draw(rt, "attr")
				val := rapid.SampledFrom([]string{"US", "us", " US", "DE ", "Example Org", " lead", "trail ", "  both  ", "x", "", "\tx", "x\n", "Exämple", "Jane", "Doe"}).Draw(rt, "val")
				tag := strTags[rapid.IntRange(0, len(strTags)-1).Draw(rt, "tag")]
				b := []byte(val)
				if tag == 30 { // BMPString: UTF-16BE
					b = nil
					for _, r := range val {
						b = append(b, byte(r>>8), byte(r))
					}
				}
				rdn = append(rdn, gen.ATV(oid, tag, b))
				desc = append(desc, fmt.Sprintf("%v/%d=%q", oid[len(oid)-1], tag, val))
			}
			rdns = append(rdns, rdn)
		}
		name := gen.RDNSeq(rdns...)
		v.SetSubject(name)
		v.SetIssuer(name.Clone())
		finish(rt, o, v, "subject-issuer", desc)
	})
	rapidRun(t, "aia", perShard(stats.Scale(2000, 60000)), func(rt *rapid.T) {
		o := pickBase(rt, "aia")
		v, err := gen.ViewCert(o.DER)
		if err != nil {
			return
		}
		var ads []*dt.Node
		var desc []string
		for i, n := 0, rapid.IntRange(1, 3).Draw(rt, "n"); i < n; i++ {
			u := gen.URIDict[rapid.IntRange(0, len(gen.URIDict)-1).Draw(rt, "uri")]
			if rapid.IntRange(0, 3).Draw(rt, "internal") == 0 {
				u = "http://" + rapid.SampledFrom([]string{"intranet", "ocsp.corp", "ca.local", "10.1.2.3", "[::1]", "ocsp.example.com", "host.invalidtld", "x.test", "ca.example.com:8080", "%41.com"}).Draw(rt, "host") + "/x"
			}
			m := oidOCSP
			if rapid.Bool().Draw(rt, "caissuers") {
				m = oidCAIssuers
			}
			ads = append(ads, dt.Seq(dt.OID(m...), gen.GNURI([]byte(u))))
			desc = append(desc, u)
		}
		v.SetExt(gen.OIDExtAIA, false, dt.Seq(ads...))
		// both scopes: serverAuth + emailProtection, S/MIME policy, e-mail SAN
		v.SetEKU(gen.EKUServerAuth, gen.EKUEmail)
		v.SetPolicies([]int{2, 23, 140, 1, 2, 1}, []int{2, 23, 140, 1, 5, 1, rapid.IntRange(1, 3).Draw(rt, "gen")})
		v.SetSAN(false, gen.GNDNS([]byte("www.example.com")), gen.GNEmail([]byte("user@example.com")))
		finish(rt, o, v, "aia", desc)
	})
	rapidRun(t, "validity", perShard(stats.Scale(1500, 40000)), func(rt *rapid.T) {
		o := pickBase(rt, "validity")
		v, err := gen.ViewCert(o.DER)
		if err != nil {
			return
		}
		nb := time.Date(2020, 9, 1, 0, 0, 0, 0, time.UTC).Add(time.Duration(rapid.IntRange(-3, 1500).Draw(rt, "day")) * 24 * time.Hour)
		days := rapid.SampledFrom([]int{396, 397, 398, 399, 365, 825}).Draw(rt, "days")
		off := rapid.SampledFrom([]int{-2, -1, 0, 1, 2, 86399}).Draw(rt, "off")
		na := nb.Add(time.Duration(days)*24*time.Hour + time.Duration(off)*time.Second)
		v.SetValidity(nb, na, gen.TimeForm(rapid.IntRange(0, 3).Draw(rt, "form")))
		finish(rt, o, v, "validity", []string{fmt.Sprintf("notBefore=%s length=%dd%+ds", nb.Format(time.RFC3339), days, off)})
	})
	rapidRun(t, "name-length", perShard(stats.Scale(800, 20000)), func(rt *rapid.T) {
		o := pickBase(rt, "name-length")
		v, err := gen.ViewCert(o.DER)
		if err != nil {
			return
		}
		mk := func(lbl string) (int, []byte) {
			n := rapid.SampledFrom([]int{1, 63, 64, 65, 66, 32767, 32768, 32769, 33000}).Draw(rt, lbl)
			unit := rapid.SampledFrom([]string{"a", "é", "€"}).Draw(rt, lbl+"unit")
			return n, []byte(strings.Repeat(unit, n))
		}
		gl, gv := mk("given")
		sl, sv := mk("surname")
		subj := v.Subject()
		subj.Children = append(subj.Children, dt.Set(gen.ATV(gen.OIDGiven, 12, gv)), dt.Set(gen.ATV(gen.OIDSurname, 12, sv)))
		finish(rt, o, v, "name-length", []string{fmt.Sprintf("givenName=%d runes surname=%d runes", gl, sl)})
	})
	rapidRun(t, "generated", perShard(stats.Scale(4000, 100000)), func(rt *rapid.T) {
		// any generated certificate: pairs whose members both run are judged too (DSA, etc.)
		cc := gen.DrawCert(rt, 3, true)
		c := c20Case{DER: cc.DER, Base: cc.Base, Fam: "generated", Desc: cc.Ops}
		rec.Eval()
		rec.Class("family_generated")
		if sig, msg := judgeC20(rec, c); msg != "" {
			fail(rt, rec, "c20", sig, msg, c)
		}
	})
}

func init() {
	registerReplayer("c20", func(rec *stats.Rec, raw json.RawMessage) (string, string) {
		var c c20Case
		if err := json.Unmarshal(raw, &c); err != nil {
			return "decode", err.Error()
		}
		return judgeC20(rec, c)
	})
}
