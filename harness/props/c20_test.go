package props

import (
	"bytes"
	"encoding/json"
	"fmt"
	"testing"

	"github.com/zmap/zlint/v3/lint"
	"pgregory.net/rapid"

	"verifharness/engine"
	"verifharness/gen"
	"verifharness/model"
	"verifharness/stats"
)

type rulePair struct {
	A, B string
	Kind string // "twin" (same rule twice) or "companion" (A = error-level limit, B = stricter warning-level companion)
	Fam  string
}

var rulePairs = []rulePair{
	{"e_rfc_dnsname_empty_label", "e_dnsname_empty_label", "twin", "rfc-br-dns"},
	{"e_rfc_dnsname_hyphen_in_sld", "e_dnsname_hyphen_in_sld", "twin", "rfc-br-dns"},
	{"e_rfc_dnsname_label_too_long", "e_dnsname_label_too_long", "twin", "rfc-br-dns"},
	{"e_rfc_dnsname_underscore_in_sld", "e_dnsname_underscore_in_sld", "twin", "rfc-br-dns"},
	{"w_rfc_dnsname_underscore_in_trd", "w_dnsname_underscore_in_trd", "twin", "rfc-br-dns"},
	{"e_prohibit_dsa_usage", "e_br_prohibit_dsa_usage", "twin", "dsa"},
	{"w_sub_cert_aia_contains_internal_names", "w_smime_aia_contains_internal_names", "twin", "aia"},
	{"e_ext_san_dns_not_ia5_string", "e_ext_ian_dns_not_ia5_string", "twin", "san-ian"},
	{"e_ext_san_empty_name", "e_ext_ian_empty_name", "twin", "san-ian"},
	{"e_ext_san_no_entries", "e_ext_ian_no_entries", "twin", "san-ian"},
	{"e_ext_san_rfc822_format_invalid", "e_ext_ian_rfc822_format_invalid", "twin", "san-ian"},
	{"e_ext_san_space_dns_name", "e_ext_ian_space_dns_name", "twin", "san-ian"},
	{"e_ext_san_uri_format_invalid", "e_ext_ian_uri_format_invalid", "twin", "san-ian"},
	{"e_ext_san_uri_host_not_fqdn_or_ip", "e_ext_ian_uri_host_not_fqdn_or_ip", "twin", "san-ian"},
	{"e_ext_san_uri_not_ia5", "e_ext_ian_uri_not_ia5", "twin", "san-ian"},
	{"e_ext_san_uri_relative", "e_ext_ian_uri_relative", "twin", "san-ian"},
	{"w_subject_dn_leading_whitespace", "w_issuer_dn_leading_whitespace", "twin", "subject-issuer"},
	{"w_subject_dn_trailing_whitespace", "w_issuer_dn_trailing_whitespace", "twin", "subject-issuer"},
	{"n_multiple_subject_rdn", "w_multiple_issuer_rdn", "twin", "subject-issuer"},
	{"e_subject_dn_country_not_printable_string", "e_issuer_dn_country_not_printable_string", "twin", "subject-issuer"},
	{"e_tls_server_cert_valid_time_longer_than_398_days", "w_tls_server_cert_valid_time_longer_than_397_days", "companion", "validity"},
	{"e_subject_given_name_max_length", "w_subject_given_name_recommended_max_length", "companion", "name-length"},
	{"e_subject_surname_max_length", "w_subject_surname_recommended_max_length", "companion", "name-length"},
}

type c20Case struct {
	DER  []byte   `json:"der"`
	Base string   `json:"base,omitempty"`
	Fam  string   `json:"family,omitempty"`
	Desc []string `json:"desc,omitempty"`
}

func isFinding(s lint.LintStatus) bool { return s == lint.Notice || s == lint.Warn || s == lint.Error }

// sameContent: does the certificate present the same content to both members of a family?
func sameContent(fam string, run *engine.Run) bool {
	c := run.Cert
	switch fam {
	case "rfc-br-dns":
		// BR copies also read the common name: judge only when CN is empty, an IP, or one of the SAN DNS names
		cn := c.Subject.CommonName
		if cn == "" || netParseIP(cn) {
			return true
		}
		for _, d := range c.DNSNames {
			if d == cn {
				return true
			}
		}
		return false
	case "san-ian":
		v, err := gen.ViewCert(c.Raw)
		if err != nil {
			return false
		}
		// exactly one SAN and one IAN extension, with identical values
		ns, ni := 0, 0
		if e := v.Extensions(); e != nil {
			for _, x := range e.Children {
				if len(x.Children) >= 2 && x.Children[0].OIDEquals(gen.OIDExtSAN...) {
					ns++
				}
				if len(x.Children) >= 2 && x.Children[0].OIDEquals(gen.OIDExtIAN...) {
					ni++
				}
			}
		}
		s, i := gen.ExtValue(v.Ext(gen.OIDExtSAN...)), gen.ExtValue(v.Ext(gen.OIDExtIAN...))
		return ns == 1 && ni == 1 && s != nil && i != nil && bytes.Equal(s.Body(), i.Body())
	case "subject-issuer":
		return bytes.Equal(c.RawSubject, c.RawIssuer)
	}
	return true
}

func judgeC20(rec *stats.Rec, c c20Case) (string, string) {
	run := engine.Execute(engine.Case{Kind: gen.Cert, DER: c.DER}, true)
	if !run.Parsed || run.RS == nil {
		rec.Class("parse_rejected")
		return "", ""
	}
	v := engine.Verdicts(run.RS)
	content := map[string]bool{}
	for _, p := range rulePairs {
		ea, oka := run.Exp[p.A]
		eb, okb := run.Exp[p.B]
		if !oka || !okb {
			rec.Class("pair_member_missing:" + p.A + "+" + p.B)
			continue
		}
		if ea.Stage != model.StExecuted || eb.Stage != model.StExecuted {
			continue
		}
		same, done := content[p.Fam]
		if !done {
			same = sameContent(p.Fam, run)
			content[p.Fam] = same
		}
		if !same {
			rec.Class("both_ran_different_content:" + p.Fam)
			continue
		}
		rec.Class("both_ran:" + p.A)
		a, b := v[p.A].Status, v[p.B].Status
		if a == lint.Fatal || b == lint.Fatal {
			continue
		}
		if isFinding(a) || isFinding(b) {
			rec.NT(stats.HashS(p.A, fmt.Sprint(stats.Hash(c.DER))))
		}
		switch p.Kind {
		case "twin":
			samePrefix := p.A[:2] == p.B[:2]
			if samePrefix && a != b {
				return "twin|" + p.A + "|" + p.B, fmt.Sprintf("%s says %s but %s says %s on the same content (%v)", p.A, a, p.B, b, c.Desc)
			}
			if !samePrefix && isFinding(a) != isFinding(b) {
				return "twin|" + p.A + "|" + p.B, fmt.Sprintf("%s says %s but %s says %s on the same content (%v)", p.A, a, p.B, b, c.Desc)
			}
		case "companion":
			if a == lint.Error && !isFinding(b) {
				return "companion|" + p.A + "|" + p.B, fmt.Sprintf("%s reports error but its stricter companion %s reports %s", p.A, p.B, b)
			}
		}
	}
	return "", ""
}

var (
	oidOCSP      = []int{1, 3, 6, 1, 5, 5, 7, 48, 1}
	oidCAIssuers = []int{1, 3, 6, 1, 5, 5, 7, 48, 2}
)

func TestC20(t *testing.T) {
	rec := newRec(t, "C20")
	for _, p := range rulePairs {
		if len(homeObjects()[p.A]) == 0 || len(homeObjects()[p.B]) == 0 {
			rec.Class("pair_without_home:" + p.A + "+" + p.B)
		}
	}
	counts := map[string][2]int{"rfc-br-dns": {4000, 130000}, "san-ian": {4000, 130000}, "subject-issuer": {3000, 100000}, "aia": {2000, 60000},
		"validity": {1500, 40000}, "name-length": {800, 20000}}
	for _, fam := range []string{"rfc-br-dns", "san-ian", "subject-issuer", "aia", "validity", "name-length"} {
		fam := fam
		rapidRun(t, fam, perShard(stats.Scale(counts[fam][0], counts[fam][1])), func(rt *rapid.T) {
			sc, ok := drawStructured(rt, fam)
			if !ok {
				return
			}
			c := c20Case{DER: sc.DER, Base: sc.Base, Fam: fam, Desc: sc.Desc}
			rec.Eval()
			rec.Class("family_" + fam)
			if sig, msg := judgeC20(rec, c); msg != "" {
				fail(rt, rec, "c20", sig, msg, c)
			}
			if rec.WantSample() && rapid.IntRange(0, 80).Draw(rt, "smp") == 0 {
				rec.Sample(map[string]interface{}{"family": fam, "base": sc.Base, "content": sc.Desc})
			}
		})
	}
	rapidRun(t, "generated", perShard(stats.Scale(4000, 100000)), func(rt *rapid.T) {
		// any generated certificate: pairs whose members both run are judged too (DSA, etc.)
		cc := gen.DrawCert(rt, 3, true)
		c := c20Case{DER: cc.DER, Base: cc.Base, Fam: "generated", Desc: cc.Ops}
		rec.Eval()
		rec.Class("family_generated")
		if sig, msg := judgeC20(rec, c); msg != "" {
			fail(rt, rec, "c20", sig, msg, c)
		}
	})
}

func init() {
	registerReplayer("c20", func(rec *stats.Rec, raw json.RawMessage) (string, string) {
		var c c20Case
		if err := json.Unmarshal(raw, &c); err != nil {
			return "decode", err.Error()
		}
		return judgeC20(rec, c)
	})
}
