package racecheck

import (
	"bytes"
	"encoding/json"
	"fmt"
	"math/big"
	"net"
	"os"
	"regexp"
	"runtime"
	"sort"
	"strings"
	"sync"
	"sync/atomic"
	"testing"
	"time"

	"github.com/zmap/zcrypto/x509"
	"github.com/zmap/zlint/v3"
	"github.com/zmap/zlint/v3/lint"
	"github.com/zmap/zlint/v3/util"

	dt "verifharness/dertree"
	"verifharness/engine"
	"verifharness/gen"
	"verifharness/stats"
)

// Pure helpers and encoders under concurrency (race-detector build, one fresh process per shard).
//
// A table built on first use, a scratch value moved to package level, a pooled buffer handed out and put back: the
// change is invisible to any sequential sweep of the function's domain, and it is not a lint run, so the generated
// programs of C10 only meet it by accident. Here the very first calls of a process are concurrent (eight goroutines,
// each starting at another function), then the same calls are made alone, and every answer must agree.

type pureCall struct {
	name string
	f    func() string
}

func pureCalls() []pureCall {
	var out []pureCall
	add := func(name string, f func() string) { out = append(out, pureCall{name, f}) }
	ips := []string{"10.1.2.3", "8.8.8.8", "127.0.0.1", "192.168.1.1", "172.16.0.1", "172.32.0.1", "100.64.0.1", "100.128.0.1", "169.254.1.1", "192.0.2.1", "198.51.100.7", "203.0.113.9",
		"198.18.0.1", "198.20.0.1", "224.0.0.1", "240.0.0.1", "255.255.255.255", "0.0.0.0", "1.1.1.1", "193.0.14.129", "::1", "::", "fc00::1", "fe80::1", "ff02::1", "2001:db8::1", "2002::1", "100::1",
		"2001:4860:4860::8888", "2606:4700:4700::1111", "::ffff:10.0.0.1", "::ffff:8.8.8.8", "2001:10::1", "2001:2::1", "64:ff9b::1", "192.0.0.1", "192.88.99.1"}
	for _, s := range ips {
		ip := net.ParseIP(s)
		s := s
		add("IsIANAReserved("+s+")", func() string { return fmt.Sprint(util.IsIANAReserved(ip)) })
		if v4 := ip.To4(); v4 != nil {
			add("IsIANAReserved4("+s+")", func() string { return fmt.Sprint(util.IsIANAReserved(v4)) })
		}
	}
	for _, s := range []string{"10.0.0.0/8", "8.0.0.0/7", "126.0.0.0/7", "8.8.8.0/24", "0.0.0.0/0", "192.0.0.0/8", "128.0.0.0/1", "198.0.0.0/8", "200.0.0.0/5", "172.0.0.0/8", "100.0.0.0/8", "169.0.0.0/8",
		"2001:db8::/32", "2001::/16", "2000::/3", "::/0", "fc00::/7", "2606:4700::/32", "fe80::/10", "8000::/1", "1.1.1.0/24", "193.0.0.0/8", "::ffff:10.0.0.0/104", "::ffff:8.8.8.0/120"} {
		_, n, err := net.ParseCIDR(s)
		if err != nil {
			continue
		}
		s := s
		add("IntersectsIANAReserved("+s+")", func() string { return fmt.Sprint(util.IntersectsIANAReserved(*n)) })
	}
	// a mask with a hole: public base, covers reserved space
	add("IntersectsIANAReserved(8.0.0.0 mask 253.255.255.255)", func() string {
		return fmt.Sprint(util.IntersectsIANAReserved(net.IPNet{IP: net.IP{8, 0, 0, 0}, Mask: net.IPMask{253, 255, 255, 255}}))
	})
	instants := []time.Time{time.Date(1990, 1, 1, 0, 0, 0, 0, time.UTC), time.Date(2014, 6, 1, 0, 0, 0, 0, time.UTC), time.Date(2016, 6, 10, 0, 0, 0, 0, time.UTC), time.Date(2024, 1, 1, 0, 0, 0, 0, time.UTC)}
	for _, d := range []string{"example.com", "EXAMPLE.COM", "a.aaa", "x.abarth", "host.internal", "host.local", "x.onion", "x.zuerich", "a.xn--p1ai", "nodots", "a.b.c.museum", "x.airbus", "x.doosan", "x.mutuelle", "trailing.dot."} {
		d := d
		add("IsInTLDMap("+d+")", func() string { return fmt.Sprint(util.IsInTLDMap(d[strings.LastIndex(d, ".")+1:])) })
		for _, at := range instants {
			at := at
			add(fmt.Sprintf("HasValidTLD(%s,%d)", d, at.Year()), func() string { return fmt.Sprint(util.HasValidTLD(d, at)) })
		}
	}
	for _, s := range []string{"example.com", "*.example.com", "?.example.com", "a_b.example.com", "xn--mnchen-3ya.de", "-a.example.com", "example", "1.2.3.4", "[::1]", "a..b", "", "EXAMPLE.Co.Uk", "www.example.internal", "xn--a.com", "ab--c.com"} {
		s := s
		add("IsFQDN("+s+")", func() string { return fmt.Sprint(util.IsFQDN(s)) })
		add("IsFQDNOrIP("+s+")", func() string { return fmt.Sprint(util.IsFQDNOrIP(s)) })
		add("HasReservedLabelPrefix("+s+")", func() string { return fmt.Sprint(util.HasReservedLabelPrefix(s), util.HasXNLabelPrefix(s)) })
		add("IdnaToUnicode("+s+")", func() string { u, err := util.IdnaToUnicode(s); return fmt.Sprint(u, err != nil) })
		add("IsLDHLabel("+s+")", func() string { return fmt.Sprint(util.IsLDHLabel(s), util.IsInPrefSyn(s)) })
		add("AuthIsFQDNOrIP("+s+")", func() string {
			return fmt.Sprint(util.AuthIsFQDNOrIP(s+":443"), util.GetHost(util.GetAuthority("https://"+s+"/x")))
		})
		add("IsMailboxAddress("+s+")", func() string { return fmt.Sprint(util.IsMailboxAddress("user@"+s), util.IsMailboxAddress(s)) })
	}
	for _, s := range []string{"US", "us", "XX", "DE", "ZZ", "GB", "UK", "EU", "", "USA", "XK"} {
		s := s
		add("IsISOCountryCode("+s+")", func() string { return fmt.Sprint(util.IsISOCountryCode(s)) })
	}
	for _, s := range []string{"facebookcorewwwi.onion", "www.facebookcorewwwi.onion", "pg6mmjiyjmcrsslvykfwnntlaru7p5svn6y2ymmju6nubxndf4pscryd.onion", "x.onion", "example.com"} {
		s := s
		add("IsOnion("+s+")", func() string { return fmt.Sprint(util.IsOnionV2Address(s), util.IsOnionV3Address(s)) })
	}
	big2048 := new(big.Int).Lsh(big.NewInt(1), 2047)
	p2048 := new(big.Int).Add(big2048, big.NewInt(1))
	for !p2048.ProbablyPrime(4) {
		p2048.Add(p2048, big.NewInt(2))
	}
	for _, d := range []int64{1, 2, 3, 5, 313, 383, 751, 757, 761, 3 * 751, 65537} {
		n := new(big.Int).Mul(p2048, big.NewInt(d))
		d := d
		add(fmt.Sprintf("PrimeNoSmallerThan752(%d*p)", d), func() string { return fmt.Sprint(util.PrimeNoSmallerThan752(n)) })
	}
	for _, ku := range []int{1, 3, 5, 0x1ff, 0x80} {
		ku := ku
		add(fmt.Sprintf("GetKeyUsageStrings(%d)", ku), func() string { return strings.Join(util.GetKeyUsageStrings(zKeyUsage(ku)), ",") })
	}
	return out
}

// TestColdUtil: the first calls of the process are concurrent; then a steady hammer; all against the answers of the
// same calls made alone afterwards. VERIF_PROPERTY names the property the leg belongs to (C18 / C19 / C10).
func TestColdUtil(t *testing.T) {
	prop := os.Getenv("VERIF_PROPERTY")
	if prop == "" {
		prop = "C10"
	}
	rec := stats.New(prop)
	t.Cleanup(rec.Flush)
	calls := pureCalls()
	shard, _ := stats.Shard()
	const W = 8
	runtime.GOMAXPROCS(W)
	got := make([][]string, W)
	panics := make([]string, W)
	var coldReady atomic.Int32
	var wg sync.WaitGroup
	start := make(chan struct{})
	for w := 0; w < W; w++ {
		wg.Add(1)
		go func(w int) {
			defer wg.Done()
			defer func() {
				if r := recover(); r != nil {
					panics[w] = fmt.Sprint(r)
				}
			}()
			got[w] = make([]string, len(calls))
			<-start
			coldReady.Add(1)
			for coldReady.Load() < W {
				runtime.Gosched()
			}
			for k := range calls {
				i := (shard*37 + w*((len(calls)/W)|1) + k) % len(calls)
				got[w][i] = calls[i].f()
			}
		}(w)
	}
	close(start)
	wg.Wait()
	alone := make([]string, len(calls))
	for i, c := range calls {
		alone[i] = c.f()
	}
	report := func(sig, msg string) {
		if rec.Report("c10", sig, msg, program{}) {
			t.Fatalf("%s: %s", sig, msg)
		}
	}
	for w := 0; w < W; w++ {
		if panics[w] != "" {
			report("panic|util", fmt.Sprintf("first concurrent calls of the helper functions: worker %d panicked: %s", w, panics[w]))
		}
		for i := range calls {
			rec.Eval()
			if got[w] != nil && got[w][i] != alone[i] {
				report("pure-differs-from-sequential|"+strings.SplitN(calls[i].name, "(", 2)[0], fmt.Sprintf("%s answered %q as one of the first, concurrent calls of the process and %q alone afterwards", calls[i].name, got[w][i], alone[i]))
			}
		}
	}
	rec.Class("cold_pure_calls")
	rec.NT(stats.HashS("cold-util", fmt.Sprint(shard)))
	// steady state
	iters := stats.Scale(150, 1500)
	errs := make(chan string, W)
	for w := 0; w < W; w++ {
		wg.Add(1)
		go func(w int) {
			defer wg.Done()
			defer func() {
				if r := recover(); r != nil {
					errs <- fmt.Sprintf("panic|util\x00worker %d panicked: %v", w, r)
				}
			}()
			x := uint64(shard*1000+w) + 1
			for it := 0; it < iters*len(calls)/W; it++ {
				x = x*6364136223846793005 + 1442695040888963407
				i := int((x >> 33) % uint64(len(calls)))
				if g := calls[i].f(); g != alone[i] {
					errs <- fmt.Sprintf("pure-differs-from-sequential|%s\x00%s answered %q while other goroutines were calling helper functions and %q alone", strings.SplitN(calls[i].name, "(", 2)[0], calls[i].name, g, alone[i])
					return
				}
			}
		}(w)
	}
	wg.Wait()
	close(errs)
	for e := range errs {
		p := strings.SplitN(e, "\x00", 2)
		report(p[0], p[1])
	}
	rec.EvalN(int64(iters * len(calls)))
	rec.Class("hammer_pure_calls")
}

// TestConcurrentJSON (C14): result sets, single results, statuses and the registry listing are encoded by eight
// goroutines at once; every encoding equals the one made alone, and decodes to what was encoded.
func TestConcurrentJSON(t *testing.T) {
	prop := os.Getenv("VERIF_PROPERTY")
	if prop == "" {
		prop = "C14"
	}
	rec := stats.New(prop)
	t.Cleanup(rec.Flush)
	co := gen.LoadCorpus()
	shard, nshards := stats.Shard()
	g := lint.GlobalRegistry()
	var sets []*zlint.ResultSet
	for i := shard; i < len(co.Certs) && len(sets) < 40; i += nshards * 7 {
		if c, ok := gen.ParseCert(co.Certs[i].DER); ok {
			sets = append(sets, zlint.LintCertificateEx(c, g))
		}
	}
	for i := 0; i < len(co.CRLs) && i < 6; i++ {
		if c, ok := gen.ParseCRL(co.CRLs[i].DER); ok {
			sets = append(sets, zlint.LintRevocationListEx(c, g))
		}
	}
	// details with bytes that JSON must replace or escape
	syn := &zlint.ResultSet{Version: 3, Results: map[string]*lint.LintResult{}}
	for i, d := range []string{"plain", "quote\" back\\slash", "<&>", "\xff\xfe invalid", "  ", "nul\x00", strings.Repeat("long ", 3000), "é\xc3", ""} {
		syn.Results[fmt.Sprintf("e_verif_json_%d", i)] = &lint.LintResult{Status: lint.LintStatus(1 + i%7), Details: d}
	}
	sets = append(sets, syn)
	type unit struct {
		name string
		f    func() ([]byte, error)
	}
	var units []unit
	for i, rs := range sets {
		rs := rs
		units = append(units, unit{fmt.Sprintf("resultset-%d", i), func() ([]byte, error) { return json.Marshal(rs) }})
		units = append(units, unit{fmt.Sprintf("results-%d", i), func() ([]byte, error) { return json.Marshal(rs.Results) }})
	}
	for st := lint.Reserved; st <= lint.Fatal; st++ {
		st := st
		units = append(units, unit{fmt.Sprintf("status-%d", st), func() ([]byte, error) { return json.Marshal(st) }})
		units = append(units, unit{fmt.Sprintf("status-direct-%d", st), func() ([]byte, error) { b, err := st.MarshalJSON(); return append([]byte(nil), b...), err }})
	}
	units = append(units, unit{"listing", func() ([]byte, error) { var b bytes.Buffer; g.WriteJSON(&b); return b.Bytes(), nil }})
	for _, s := range g.Sources() {
		s := s
		units = append(units, unit{"source-" + string(s), func() ([]byte, error) { return json.Marshal(s) }})
	}
	alone := make([][]byte, len(units))
	for i, u := range units {
		b, err := u.f()
		if err != nil {
			t.Skipf("sequential encoding of %s fails: %v", u.name, err)
		}
		alone[i] = b
	}
	const W = 8
	runtime.GOMAXPROCS([]int{1, 2, 4, 16}[shard%4])
	iters := stats.Scale(120, 1200)
	errs := make(chan string, W)
	var wg sync.WaitGroup
	start := make(chan struct{})
	for w := 0; w < W; w++ {
		wg.Add(1)
		go func(w int) {
			defer wg.Done()
			defer func() {
				if r := recover(); r != nil {
					errs <- fmt.Sprintf("concurrent-json-panic\x00worker %d: %v", w, r)
				}
			}()
			<-start
			x := uint64(shard*100+w) + 7
			for it := 0; it < iters; it++ {
				x = x*6364136223846793005 + 1442695040888963407
				i := int((x >> 33) % uint64(len(units)))
				b, err := units[i].f()
				if err != nil {
					errs <- fmt.Sprintf("concurrent-json|%s\x00encoding %s fails while other goroutines encode: %v", strings.SplitN(units[i].name, "-", 2)[0], units[i].name, err)
					return
				}
				if !bytes.Equal(b, alone[i]) {
					errs <- fmt.Sprintf("concurrent-json|%s\x00%s encodes to other bytes while other goroutines encode (%d vs %d bytes; first difference at %d)", strings.SplitN(units[i].name, "-", 2)[0], units[i].name, len(b), len(alone[i]), firstDiff(b, alone[i]))
					return
				}
				if it%16 == 0 && strings.HasPrefix(units[i].name, "resultset-") {
					var back zlint.ResultSet
					if err := json.Unmarshal(b, &back); err != nil {
						errs <- fmt.Sprintf("concurrent-json|decode\x00%s does not decode while other goroutines encode: %v", units[i].name, err)
						return
					}
				}
			}
		}(w)
	}
	close(start)
	wg.Wait()
	close(errs)
	for e := range errs {
		p := strings.SplitN(e, "\x00", 2)
		if rec.Report("c10", p[0], p[1], program{}) {
			t.Fatalf("%s: %s", p[0], p[1])
		}
	}
	rec.EvalN(int64(W * iters))
	rec.Class("concurrent_encodings")
	rec.NT(stats.HashS("concurrent-json", fmt.Sprint(shard)))
}

func firstDiff(a, b []byte) int {
	for i := 0; i < len(a) && i < len(b); i++ {
		if a[i] != b[i] {
			return i
		}
	}
	if len(a) < len(b) {
		return len(a)
	}
	return len(b)
}

// TestConcurrentKeys (C16): certificates carrying chosen RSA keys (small factors, sizes either side of the limits,
// exponents) are judged by the key-quality lints from eight goroutines at once; every verdict equals the one given alone.
func TestConcurrentKeys(t *testing.T) {
	prop := os.Getenv("VERIF_PROPERTY")
	if prop == "" {
		prop = "C16"
	}
	rec := stats.New(prop)
	t.Cleanup(rec.Flush)
	co := gen.LoadCorpus()
	shard, _ := stats.Shard()
	// bases: corpus certificates with an RSA key on which the small-factor lint runs
	reg, err := lint.GlobalRegistry().Filter(lint.FilterOptions{NameFilter: mustRE(`rsa|modulus|exponent|mp_`)})
	if err != nil {
		t.Skip("no key-quality selection")
	}
	// (no lint runs yet: the concurrent phase below holds the process's first calls of the key-quality code)
	var bases [][]byte
	for i := shard * 13; i < len(co.Certs)+shard*13 && len(bases) < 3; i++ {
		o := co.Certs[i%len(co.Certs)]
		c, ok := gen.ParseCert(o.DER)
		if !ok || c.PublicKeyAlgorithm.String() != "RSA" || c.SelfSigned || c.IsCA || len(c.DNSNames) == 0 {
			continue
		}
		serverAuth := len(c.ExtKeyUsage) == 0
		for _, e := range c.ExtKeyUsage {
			serverAuth = serverAuth || e == x509.ExtKeyUsageServerAuth
		}
		if serverAuth {
			bases = append(bases, o.DER)
		}
	}
	if len(bases) == 0 {
		t.Skip("no RSA base")
	}
	p := new(big.Int).Add(new(big.Int).Lsh(big.NewInt(1), 2040), big.NewInt(int64(2*shard+1)))
	for !p.ProbablyPrime(4) {
		p.Add(p, big.NewInt(2))
	}
	var ders [][]byte
	for bi, b := range bases {
		for _, d := range []int64{1, 2, 3, 7, 313, 383, 751, 757, 761, 3 * 751} {
			for _, e := range []int64{65537, 3, 1, 65536} {
				if e != 65537 && d != 1 && d != 3 {
					continue
				}
				v, err := gen.ViewCert(b)
				if err != nil {
					continue
				}
				n := new(big.Int).Mul(p, big.NewInt(d))
				if bi == 1 {
					n.Rsh(n, 1030) // a short modulus
					n.SetBit(n, 0, uint(d&1))
				}
				v.SetSPKI(gen.RSASPKI(n, big.NewInt(e)))
				der := v.DER()
				if _, ok := gen.ParseCert(der); ok {
					ders = append(ders, der)
				}
			}
		}
	}
	const W = 8
	runtime.GOMAXPROCS(W)
	iters := stats.Scale(60, 600)
	type seen struct {
		i int
		d string
	}
	got := make([][]seen, W)
	var ready atomic.Int32
	var wg sync.WaitGroup
	start := make(chan struct{})
	for w := 0; w < W; w++ {
		wg.Add(1)
		go func(w int) {
			defer wg.Done()
			<-start
			// released together: the first calls of the key-quality code overlap in time
			ready.Add(1)
			for ready.Load() < W {
				runtime.Gosched()
			}
			for it := 0; it < iters; it++ {
				i := (w*31 + it*7) % len(ders)
				c, ok := gen.ParseCert(ders[i])
				if !ok {
					continue
				}
				got[w] = append(got[w], seen{i, engine.Digest(zlint.LintCertificateEx(c, reg))})
			}
		}(w)
	}
	close(start)
	wg.Wait()
	// the same calls alone, afterwards
	alone := make([]string, len(ders))
	ran := false
	for i, der := range ders {
		c, _ := gen.ParseCert(der)
		rs := zlint.LintCertificateEx(c, reg)
		alone[i] = engine.Digest(rs)
		if r := rs.Results["w_rsa_mod_factors_smaller_than_752"]; r != nil && r.Status >= lint.Pass {
			ran = true
		}
	}
	if !ran {
		rec.Class("key_lints_did_not_run")
	}
	for w := 0; w < W; w++ {
		for _, s := range got[w] {
			if s.d != alone[s.i] {
				e := fmt.Sprintf("key %d: key-quality verdicts %s while other goroutines judge other keys (among the first calls of the process), %s alone", s.i, s.d, alone[s.i])
				if rec.Report("c10", "keys-differ-from-sequential", e, program{}) {
					t.Fatalf("%s", e)
				}
				break
			}
		}
	}
	rec.EvalN(int64(W * iters))
	rec.Class("concurrent_key_verdicts")
	rec.NT(stats.HashS("concurrent-keys", fmt.Sprint(shard)))
	_ = sort.Strings
}

func mustRE(s string) *regexp.Regexp { return regexp.MustCompile(s) }

type zKeyUsage = x509.KeyUsage

// TestConcurrentScope (C04): certificates that differ in what puts them in or out of scope of the three CA/B Forum
// documents - key purposes, policy identifiers, a mailbox in the SAN - are linted by eight goroutines at once, quick
// ones next to ones whose lists are thousands of entries long (a scope walk over those takes long enough for another
// goroutine to pass through the same helper many times). Every verdict equals the one given alone.
func TestConcurrentScope(t *testing.T) {
	prop := os.Getenv("VERIF_PROPERTY")
	if prop == "" {
		prop = "C04"
	}
	rec := stats.New(prop)
	t.Cleanup(rec.Flush)
	co := gen.LoadCorpus()
	shard, _ := stats.Shard()
	g := lint.GlobalRegistry()
	var bases [][]byte
	for i := shard * 17; i < len(co.Certs)+shard*17 && len(bases) < 2; i++ {
		o := co.Certs[i%len(co.Certs)]
		if c, ok := gen.ParseCert(o.DER); ok && !c.SelfSigned && !c.IsCA && len(c.DNSNames) > 0 {
			bases = append(bases, o.DER)
		}
	}
	if len(bases) == 0 {
		t.Skip("no subscriber base")
	}
	tls := []int{2, 23, 140, 1, 2, 1}
	smime := []int{2, 23, 140, 1, 5, 1, 1}
	cs := []int{2, 23, 140, 1, 4, 1}
	other := []int{1, 3, 6, 1, 4, 1, 99999, 1}
	type scope struct {
		ekus     [][]int
		policies [][]int
		mail     bool
	}
	scopes := []scope{
		{ekus: [][]int{gen.EKUServerAuth}}, {ekus: [][]int{gen.EKUClientAuth}}, {ekus: [][]int{gen.EKUEmail}, mail: true}, {ekus: [][]int{gen.EKUClientAuth}, policies: [][]int{cs}},
		{ekus: [][]int{gen.EKUClientAuth}, policies: [][]int{tls}}, {ekus: [][]int{gen.EKUClientAuth}, policies: [][]int{smime}}, {ekus: [][]int{gen.EKUCodeSign}, policies: [][]int{other}}, {},
	}
	var ders [][]byte
	for _, b := range bases {
		for _, sc := range scopes {
			for bloat := 0; bloat < 2; bloat++ {
				v, err := gen.ViewCert(b)
				if err != nil {
					continue
				}
				v.SetEKU(sc.ekus...)
				pol := append([][]int{}, sc.policies...)
				if bloat == 1 {
					// the deciding identifier comes last, behind thousands of others
					var filler [][]int
					for i := 0; i < stats.Scale(600, 4000); i++ {
						filler = append(filler, []int{1, 3, 6, 1, 4, 1, 99999, 9, i})
					}
					pol = append(filler, pol...)
				}
				v.SetPolicies(pol...)
				if sc.mail {
					v.SetSAN(false, gen.GNEmail([]byte("user@example.com")), gen.GNDNS([]byte("example.com")))
				}
				der := v.DER()
				if _, ok := gen.ParseCert(der); ok {
					ders = append(ders, der)
				}
			}
		}
	}
	// names, likewise: certificates whose names decide what applies (.onion names, reverse-DNS names, internal names)
	// next to a certificate with thousands of unremarkable dNSNames - a walk over those takes long enough for the
	// short ones to pass through the same name helpers many times (even index: short, odd index: long)
	namesFrom := len(ders)
	{
		var short [][]byte
		for i := 0; i < len(co.Certs) && len(short) < 6; i++ {
			c, ok := gen.ParseCert(co.Certs[(i+shard*29)%len(co.Certs)].DER)
			if !ok {
				continue
			}
			for _, n := range c.DNSNames {
				if strings.HasSuffix(n, ".onion") || strings.HasSuffix(n, ".arpa") {
					short = append(short, co.Certs[(i+shard*29)%len(co.Certs)].DER)
					break
				}
			}
		}
		var gns []*dt.Node
		for i := 0; i < stats.Scale(700, 5000); i++ {
			gns = append(gns, gen.GNDNS([]byte(fmt.Sprintf("host%d.example.com", i))))
		}
		for _, sh := range short {
			if v, err := gen.ViewCert(bases[0]); err == nil {
				v.SetSAN(false, gns...)
				long := v.DER()
				if _, ok := gen.ParseCert(long); ok {
					ders = append(ders, sh, long)
				}
			}
		}
	}
	alone := make([]string, len(ders))
	for i, der := range ders {
		c, _ := gen.ParseCert(der)
		alone[i] = engine.Digest(zlint.LintCertificateEx(c, g))
	}
	const W = 8
	runtime.GOMAXPROCS(W)
	iters := stats.Scale(24, 300)
	errs := make(chan string, W)
	var wg sync.WaitGroup
	start := make(chan struct{})
	for w := 0; w < W; w++ {
		wg.Add(1)
		go func(w int) {
			defer wg.Done()
			<-start
			for it := 0; it < iters; it++ {
				// even workers stay with the quick certificates, odd ones with the long ones
				i := (2*((w*13+it*5)%(len(ders)/2)) + w%2) % len(ders)
				c, ok := gen.ParseCert(ders[i])
				if !ok {
					continue
				}
				if d := engine.Digest(zlint.LintCertificateEx(c, g)); d != alone[i] {
					errs <- fmt.Sprintf("certificate %d: verdicts %s while other goroutines lint certificates of other scope, %s alone", i, d, alone[i])
					return
				}
			}
		}(w)
	}
	close(start)
	wg.Wait()
	close(errs)
	for e := range errs {
		if rec.Report("c10", "scope-differs-from-sequential", e, program{}) {
			t.Fatalf("%s", e)
		}
	}
	// the name pairs once more among themselves: four goroutines stay with the long certificates, three walk the short ones
	if n := len(ders) - namesFrom; n >= 2 {
		errs2 := make(chan string, 8)
		start2 := make(chan struct{})
		for w := 0; w < 7; w++ {
			wg.Add(1)
			go func(w int) {
				defer wg.Done()
				<-start2
				for it := 0; it < stats.Scale(14, 300); it++ {
					i := namesFrom + 2*((w+it)%(n/2))
					if w < 4 {
						i++ // long
					}
					c, ok := gen.ParseCert(ders[i])
					if !ok {
						continue
					}
					if d := engine.Digest(zlint.LintCertificateEx(c, g)); d != alone[i] {
						errs2 <- fmt.Sprintf("certificate %d: verdicts %s while other goroutines lint certificates with other (and very many) names, %s alone", i, d, alone[i])
						return
					}
				}
			}(w)
		}
		close(start2)
		wg.Wait()
		close(errs2)
		for e := range errs2 {
			if rec.Report("c10", "names-differ-from-sequential", e, program{}) {
				t.Fatalf("%s", e)
			}
		}
	}
	rec.EvalN(int64(W * iters))
	rec.Class("concurrent_scope_verdicts")
	rec.NT(stats.HashS("concurrent-scope", fmt.Sprint(shard)))
}

// TestConcurrentCorpus (C06): the corpus objects on which some lint reports are linted by eight goroutines at
// once, every goroutine walking them in another rotation, so that any two lints meet in time on the same kind of
// object. Every result obeys the prefix rule of its lint's name, and every digest equals the sequential one.
func TestConcurrentCorpus(t *testing.T) {
	prop := os.Getenv("VERIF_PROPERTY")
	if prop == "" {
		prop = "C06"
	}
	rec := stats.New(prop)
	t.Cleanup(rec.Flush)
	co := gen.LoadCorpus()
	shard, nshards := stats.Shard()
	g := lint.GlobalRegistry()
	type item struct {
		c     engine.Case
		alone string
	}
	var items []item
	allowed := func(name string, st lint.LintStatus) bool {
		switch st {
		case lint.Notice:
			return strings.HasPrefix(name, "n_")
		case lint.Warn:
			return strings.HasPrefix(name, "w_")
		case lint.Error:
			return strings.HasPrefix(name, "e_")
		}
		return true
	}
	statusWord := map[lint.LintStatus]string{lint.Notice: "info", lint.Warn: "warn", lint.Error: "error"}
	for i := shard; i < len(co.Certs); i += nshards {
		o := co.Certs[i]
		c, ok := gen.ParseCert(o.DER)
		if !ok {
			continue
		}
		rs := zlint.LintCertificateEx(c, g)
		if rs.ErrorsPresent || rs.WarningsPresent || rs.NoticesPresent {
			items = append(items, item{engine.Case{Kind: gen.Cert, DER: o.DER, Base: o.Name}, engine.Digest(rs)})
		}
		if len(items) >= stats.Scale(60, 400) {
			break
		}
	}
	for i, o := range co.CRLs {
		if c, ok := gen.ParseCRL(o.DER); ok && i%nshards == shard%len(co.CRLs) {
			items = append(items, item{engine.Case{Kind: gen.CRL, DER: o.DER, Base: o.Name}, engine.Digest(zlint.LintRevocationListEx(c, g))})
		}
	}
	if len(items) == 0 {
		t.Skip("no reporting objects")
	}
	const W = 8
	runtime.GOMAXPROCS([]int{2, 4, 8, 16}[shard%4])
	rounds := stats.Scale(2, 10)
	errs := make(chan string, W)
	var wg sync.WaitGroup
	start := make(chan struct{})
	for w := 0; w < W; w++ {
		wg.Add(1)
		go func(w int) {
			defer wg.Done()
			<-start
			for r := 0; r < rounds; r++ {
				for k := range items {
					it := items[(k*(2*w+1)+w*7+r)%len(items)]
					var rs *zlint.ResultSet
					if it.c.Kind == gen.Cert {
						c, ok := gen.ParseCert(it.c.DER)
						if !ok {
							continue
						}
						rs = zlint.LintCertificateEx(c, g)
					} else {
						c, ok := gen.ParseCRL(it.c.DER)
						if !ok {
							continue
						}
						rs = zlint.LintRevocationListEx(c, g)
					}
					for n, res := range rs.Results {
						if !allowed(n, res.Status) && !stats.IsKnown("C06", "severity|"+n+"|"+statusWord[res.Status]) {
							errs <- fmt.Sprintf("severity|%s|%s\x00%s reports %s on %s while other goroutines lint (its name allows %s only)", n, statusWord[res.Status], n, statusWord[res.Status], it.c.Base, n[:2])
							return
						}
					}
					if d := engine.Digest(rs); d != it.alone {
						errs <- fmt.Sprintf("corpus-differs-from-sequential\x00%s: verdicts %s while other goroutines lint, %s alone", it.c.Base, d, it.alone)
						return
					}
				}
			}
		}(w)
	}
	close(start)
	wg.Wait()
	close(errs)
	for e := range errs {
		p := strings.SplitN(e, "\x00", 2)
		if rec.Report("c10", p[0], p[1], program{}) {
			t.Fatalf("%s: %s", p[0], p[1])
		}
	}
	rec.EvalN(int64(W * rounds * len(items)))
	rec.Class("concurrent_corpus_runs")
	rec.NT(stats.HashS("concurrent-corpus", fmt.Sprint(shard)))
}

// TestFreshRegistryReads (C10): what a registry builds on first use it builds once - so every round makes a fresh
// registry (a Filter result nobody has touched), lets six goroutines loop over its read calls, and has a seventh
// make one call "for the first time" in the middle of them (names, listing, sources, a filter, a lint run, the
// example configuration - another one each round). No panic, the answers equal those of an untouched twin registry
// asked alone, and every round ends: a round that does not end within 60 s is a deadlock (the goroutine dump is kept).
func TestFreshRegistryReads(t *testing.T) {
	prop := os.Getenv("VERIF_PROPERTY")
	if prop == "" {
		prop = "C10"
	}
	rec := stats.New(prop)
	t.Cleanup(rec.Flush)
	co := gen.LoadCorpus()
	shard, _ := stats.Shard()
	g := lint.GlobalRegistry()
	runtime.GOMAXPROCS([]int{2, 4, 8, 16}[shard%4])
	var cert *x509.Certificate
	for _, o := range co.Certs {
		if c, ok := gen.ParseCert(o.DER); ok {
			cert = c
			break
		}
	}
	opts := []lint.FilterOptions{
		{IncludeSources: lint.SourceList{lint.RFC5280, lint.CABFBaselineRequirements, lint.RFC6960}},
		{ExcludeNames: []string{"e_ca_country_name_missing"}},
		{IncludeNames: []string{"e_ca_country_name_missing", "e_crl_has_next_update", "e_this_update_not_after_produced_at", "w_ext_ian_critical", "e_ext_san_missing"}},
		{NameFilter: regexp.MustCompile("^e_ext")},
	}
	firsts := []struct {
		name string
		f    func(r lint.Registry) string
	}{
		{"Names", func(r lint.Registry) string { return strings.Join(r.Names(), ",") }},
		{"WriteJSON", func(r lint.Registry) string { var b bytes.Buffer; r.WriteJSON(&b); return sortedLines(b.String()) }},
		{"Sources", func(r lint.Registry) string { return fmt.Sprint(len(r.Sources())) }},
		{"Filter", func(r lint.Registry) string {
			x, err := r.Filter(lint.FilterOptions{ExcludeSources: lint.SourceList{lint.EtsiEsi}})
			if err != nil {
				return "error"
			}
			return strings.Join(x.Names(), ",")
		}},
		{"Lint", func(r lint.Registry) string {
			if cert == nil {
				return ""
			}
			c2 := *cert
			return engine.Digest(zlint.LintCertificateEx(&c2, r))
		}},
		{"DefaultConfiguration", func(r lint.Registry) string { b, _ := r.DefaultConfiguration(); return fmt.Sprint(len(b)) }},
		{"KindNames", func(r lint.Registry) string {
			return fmt.Sprint(len(r.CertificateLints().Names()), len(r.RevocationListLints().Names()), len(r.OcspResponseLints().Names()))
		}},
	}
	loopers := []func(r lint.Registry){
		func(r lint.Registry) {
			for _, s := range []lint.LintSource{lint.RFC5280, lint.CABFBaselineRequirements, lint.RFC6960, lint.Community} {
				_ = r.CertificateLints().BySource(s)
				_ = r.RevocationListLints().BySource(s)
				_ = r.OcspResponseLints().BySource(s)
				_ = r.BySource(s) //nolint:staticcheck
			}
		},
		func(r lint.Registry) {
			_ = r.CertificateLints().ByName("e_ca_country_name_missing")
			_ = r.ByName("e_ext_san_missing") //nolint:staticcheck
		},
		func(r lint.Registry) {
			_, _, _ = r.CertificateLints().Lints(), r.RevocationListLints().Lints(), r.OcspResponseLints().Lints()
		},
		func(r lint.Registry) {
			_, _, _ = r.CertificateLints().Sources(), r.RevocationListLints().Sources(), r.OcspResponseLints().Sources()
		},
		func(r lint.Registry) { _ = r.GetConfiguration() },
		func(r lint.Registry) { _ = r.Sources() },
	}
	rounds := stats.Scale(250, 3000)
	for round := 0; round < rounds; round++ {
		o := opts[(round+shard)%len(opts)]
		reg, err1 := g.Filter(o)
		twin, err2 := g.Filter(o)
		if err1 != nil || err2 != nil {
			continue
		}
		first := firsts[(round/len(opts)+shard)%len(firsts)]
		var wg sync.WaitGroup
		var stop atomic.Bool
		var running sync.WaitGroup
		panics := make(chan string, 16)
		for li := range loopers {
			wg.Add(1)
			running.Add(1)
			go func(li int) {
				defer wg.Done()
				signalled := false
				defer func() {
					if !signalled {
						running.Done() // a reader that panicked must not keep the first callers waiting
					}
				}()
				defer func() {
					if r := recover(); r != nil {
						panics <- fmt.Sprint(r)
					}
				}()
				f := loopers[(li+round)%len(loopers)]
				f(reg)
				running.Done()
				signalled = true
				for i := 0; i < 400 && !stop.Load(); i++ {
					f(reg)
				}
			}(li)
		}
		// the first call is made by three goroutines at the same moment (a spin barrier releases them together):
		// whatever is built on first use is built once, by one of them, and all three see the finished thing
		const firstCallers = 3
		gots := make([]string, firstCallers)
		var ready atomic.Int32
		var firstsDone sync.WaitGroup
		for fc := 0; fc < firstCallers; fc++ {
			wg.Add(1)
			firstsDone.Add(1)
			go func(fc int) {
				defer wg.Done()
				defer firstsDone.Done()
				defer func() {
					if r := recover(); r != nil {
						panics <- fmt.Sprint(r)
					}
				}()
				running.Wait()
				ready.Add(1)
				for ready.Load() < firstCallers {
					runtime.Gosched()
				}
				gots[fc] = first.f(reg)
			}(fc)
		}
		wg.Add(1)
		go func() {
			defer wg.Done()
			firstsDone.Wait()
			stop.Store(true)
		}()
		done := make(chan struct{})
		go func() { wg.Wait(); close(done) }()
		select {
		case <-done:
		case <-time.After(60 * time.Second):
			buf := make([]byte, 1<<20)
			n := runtime.Stack(buf, true)
			msg := fmt.Sprintf("round %d: the first %s on a fresh registry, made while six goroutines loop over its read calls, did not return within 60 s; goroutines:\n%s", round, first.name, buf[:n])
			rec.Report("c10", "deadlock", msg, program{})
			rec.Flush()
			fmt.Println("DEADLOCK recorded; leaving the process")
			os.Exit(1)
		}
		close(panics)
		for p := range panics {
			if rec.Report("c10", "panic|registry-read", fmt.Sprintf("round %d (first %s): %s", round, first.name, p), program{}) {
				t.Fatalf("panic in registry reads: %s", p)
			}
		}
		want := first.f(twin)
		for _, got := range gots {
			if got != want {
				if rec.Report("c10", "read-differs-from-sequential|"+first.name, fmt.Sprintf("round %d: the first %s on a fresh registry (made by three goroutines at once while six others were reading it) answered %s, and %s on an untouched twin asked alone", round, first.name, short(got), short(want)), program{}) {
					t.Fatalf("first %s differs", first.name)
				}
				break
			}
		}
		// and the registry is none the worse for it afterwards: its names, and a filter of it, are the twin's
		if a, b := strings.Join(reg.Names(), ","), strings.Join(twin.Names(), ","); a != b {
			if rec.Report("c10", "registry-damaged|names", fmt.Sprintf("round %d: after a concurrent first %s the registry lists %d names, its untouched twin %d", round, first.name, len(reg.Names()), len(twin.Names())), program{}) {
				t.Fatalf("names differ after first %s", first.name)
			}
		}
		if _, err := reg.Filter(lint.FilterOptions{ExcludeSources: lint.SourceList{lint.EtsiEsi}}); err != nil {
			if rec.Report("c10", "registry-damaged|filter", fmt.Sprintf("round %d: after a concurrent first %s the registry cannot be filtered any more: %v", round, first.name, err), program{}) {
				t.Fatalf("filter fails after first %s", first.name)
			}
		}
		rec.Eval()
	}
	rec.Class("fresh_registry_rounds")
	rec.NT(stats.HashS("fresh-registry", fmt.Sprint(shard)))
}
