// Package racecheck holds the C10 check; its test binary is built with -race.
package racecheck

import (
	"bytes"
	"encoding/json"
	"flag"
	"fmt"
	"os"
	"regexp"
	"runtime"
	"sort"
	"strconv"
	"strings"
	"sync"
	"testing"
	"time"

	"github.com/zmap/zcrypto/x509"
	"github.com/zmap/zlint/v3"
	"github.com/zmap/zlint/v3/lint"
	"pgregory.net/rapid"

	"golang.org/x/net/idna"

	dt "verifharness/dertree"
	"verifharness/engine"
	"verifharness/gen"
	"verifharness/stats"
)

type op struct {
	Kind  string `json:"op"` // lint | filter | names | sources | byname | bysource | lints | writejson | getconfig | defaultconfig
	Obj   int    `json:"obj,omitempty"`
	Reg   int    `json:"reg,omitempty"`
	Yield bool   `json:"yield,omitempty"`
	Name  string `json:"name,omitempty"`
}

type program struct {
	Filters    []engine.FilterSpec `json:"filters"`
	Objects    []engine.Case       `json:"objects"` // kind + DER only
	Workers    [][]op              `json:"workers"`
	GOMAXPROCS int                 `json:"gomaxprocs"`
	Runs       int                 `json:"runs"`
	// the hammer: HammerWorkers goroutines lint HammerObjs - and never-seen-before variants of
	// them, derived from FreshSeed - HammerIters times each through a registry holding only the Focus lints
	Focus         []string      `json:"focus,omitempty"`
	HammerObjs    []engine.Case `json:"hammer_objs,omitempty"`
	HammerIters   int           `json:"hammer_iters,omitempty"`
	HammerWorkers int           `json:"hammer_workers,omitempty"`
	FreshSeed     uint64        `json:"fresh_seed,omitempty"`
	// kind-focused programs hammer a second time: their revocation lists (OCSP responses) through a registry
	// holding only the lints of that kind
	KindFocus []string      `json:"kind_focus,omitempty"`
	KindObjs  []engine.Case `json:"kind_objs,omitempty"`
}

// freshVariant gives the certificate names nobody has seen before in this process: three dNSNames whose first
// label is a newly minted A-label (ACE prefix in lower, upper or mixed case), derived from (seed, w, i) alone.
// Caches keyed by content only fill on first sight, so only fresh content makes their writers run.
func freshVariant(der []byte, seed uint64, w, i int) []byte {
	v, err := gen.ViewCert(der)
	if err != nil {
		return der
	}
	alphabet := []rune("abcdefghijklmnopqrstuvwxyz0123456789\u00fc\u00e9\u00f1\u00e5\u0431\u0434\u03bb\u4e2d")
	x := seed*6364136223846793005 + uint64(w)*1442695040888963407 + uint64(i)*2862933555777941757 + 1
	var gns []*dt.Node
	for j := 0; j < 3; j++ {
		var rs []rune
		for k := 0; k < 7; k++ {
			x = x*6364136223846793005 + 1442695040888963407
			rs = append(rs, alphabet[(x>>33)%uint64(len(alphabet))])
		}
		rs = append(rs, '\u00fc')
		a, err := idna.Punycode.ToASCII(string(rs))
		if err != nil || !strings.HasPrefix(a, "xn--") {
			a = "fresh" + fmt.Sprint(x>>40)
		} else {
			a = []string{"xn--", "XN--", "Xn--", "xn--"}[(w+i+j)%4] + a[4:]
		}
		gns = append(gns, gen.GNDNS([]byte(a+".example.com")))
	}
	v.SetSAN(false, gns...)
	return v.DER()
}

// hammer: the concurrent phase first (nothing warmed up), the sequential reference afterwards.
func hammer(p program) (sig, msg string) {
	if len(p.Focus) == 0 || len(p.HammerObjs) == 0 || p.HammerIters == 0 {
		return "", ""
	}
	reg, err := lint.GlobalRegistry().Filter(lint.FilterOptions{IncludeNames: p.Focus})
	if err != nil {
		return "", ""
	}
	W := p.HammerWorkers
	if W < 2 {
		W = 2
	}
	old := runtime.GOMAXPROCS(W)
	defer runtime.GOMAXPROCS(old)
	object := func(w, i int) engine.Case {
		c := p.HammerObjs[(w*7+i)%len(p.HammerObjs)]
		if c.Kind == gen.Cert && (w+i)%3 == 0 {
			c.DER = freshVariant(c.DER, p.FreshSeed, w, i)
		}
		return c
	}
	got := make([][]string, W)
	panics := make([]string, W)
	var wg sync.WaitGroup
	start := make(chan struct{})
	for w := 0; w < W; w++ {
		got[w] = make([]string, p.HammerIters)
		wg.Add(1)
		go func(w int) {
			defer wg.Done()
			defer func() {
				if r := recover(); r != nil {
					panics[w] = fmt.Sprint(r)
				}
			}()
			<-start
			for i := 0; i < p.HammerIters; i++ {
				got[w][i] = lintOne(object(w, i), reg)
			}
		}(w)
	}
	done := make(chan struct{})
	go func() { wg.Wait(); close(done) }()
	close(start)
	select {
	case <-done:
	case <-time.After(120 * time.Second):
		buf := make([]byte, 1<<20)
		n := runtime.Stack(buf, true)
		return "deadlock", fmt.Sprintf("%d goroutines linting %d objects and fresh variants of them with %v did not finish within 120 s; goroutines:\n%s", W, len(p.HammerObjs), p.Focus, buf[:n])
	}
	for w, pm := range panics {
		if pm != "" {
			return "panic", fmt.Sprintf("hammer worker %d panicked: %s", w, pm)
		}
	}
	ref, err := lint.GlobalRegistry().Filter(lint.FilterOptions{IncludeNames: p.Focus})
	if err != nil {
		return "", ""
	}
	for w := 0; w < W; w++ {
		for i := 0; i < p.HammerIters; i++ {
			c := object(w, i)
			if d := lintOne(c, ref); d != got[w][i] {
				return "differs-from-sequential", fmt.Sprintf("hammer worker %d, iteration %d (%s, fresh=%v) with lints %v: concurrently %s, alone %s", w, i, c.Base, (w+i)%3 == 0, p.Focus, got[w][i], d)
			}
		}
	}
	return "", ""
}

// ownDocs: configurations a worker puts on a filtered registry of its own (each changes the verdict of one
// configurable lint on suitable objects).
var ownDocs = []string{"[e_subj_contains_html_entities]\nSkip = true\n", "[e_subj_orgunit_in_ca_cert]\nCrossCert = true\n", "[e_crl_next_update_invalid]\nSubscriberCRL = false\n",
	"[e_rsa_fermat_factorization]\nRounds = 0\n"}

var (
	sensOnce sync.Once
	sensObjs []engine.Case
)

// sensitiveObjects: corpus objects (and one built CRL) whose verdict under the global registry's default
// configuration differs from the verdict under one of ownDocs - a configuration leaking into the shared
// registry shows on them.
func sensitiveObjects() []engine.Case {
	sensOnce.Do(func() {
		co := gen.LoadCorpus()
		this := time.Date(2024, 1, 1, 0, 0, 0, 0, time.UTC)
		next := this.Add(100 * 24 * time.Hour)
		num := int64(1)
		objs := append(append([]gen.Obj{}, co.Certs...), co.CRLs...)
		objs = append(objs, gen.Obj{Name: "built-crl-100d", Kind: gen.CRL, DER: gen.BuildCRL(gen.CRLSpec{V2: true, ThisUpdate: this, NextUpdate: &next, CRLNumber: &num, AKI: true})})
		g := lint.GlobalRegistry()
		// one lint at a time (the configurable lint named by the document), so the scan stays cheap under the race detector
		names := []string{"e_subj_contains_html_entities", "e_subj_orgunit_in_ca_cert", "e_crl_next_update_invalid", "e_rsa_fermat_factorization"}
		for di, d := range ownDocs {
			if di >= len(names) {
				break
			}
			alt, err := g.Filter(lint.FilterOptions{IncludeNames: []string{names[di]}})
			def, err2 := g.Filter(lint.FilterOptions{IncludeNames: []string{names[di]}})
			cfg, err3 := lint.NewConfigFromString(d)
			if err != nil || err2 != nil || err3 != nil {
				continue
			}
			alt.SetConfiguration(cfg)
			found := 0
			for _, o := range objs {
				if found >= 3 {
					break
				}
				c := engine.Case{Kind: o.Kind, DER: o.DER, Base: o.Name}
				if lintOne(c, def) != lintOne(c, alt) {
					found++
					sensObjs = append(sensObjs, c)
				}
			}
		}
	})
	return sensObjs
}

func lintOne(c engine.Case, reg lint.Registry) string {
	switch c.Kind {
	case gen.Cert:
		o, ok := gen.ParseCert(c.DER)
		if !ok {
			return "unparseable"
		}
		return engine.Digest(zlint.LintCertificateEx(o, reg))
	case gen.CRL:
		o, ok := gen.ParseCRL(c.DER)
		if !ok {
			return "unparseable"
		}
		return engine.Digest(zlint.LintRevocationListEx(o, reg))
	default:
		o, ok := gen.ParseOCSP(c.DER)
		if !ok {
			return "unparseable"
		}
		return engine.Digest(zlint.LintOcspResponseEx(o, reg))
	}
}

// runProgram executes the program; returns a violation signature/message.
func runProgram(p program) (sig, msg string) {
	g := lint.GlobalRegistry()
	// mkRegs builds the shared registries. The concurrent phase gets *fresh*
	// filtered registries that nothing has used yet (first use is concurrent);
	// the sequential reference uses separately built twins.
	mkRegs := func() []lint.Registry {
		regs := []lint.Registry{g}
		for _, f := range p.Filters {
			o, err := f.Options()
			if err != nil {
				continue
			}
			r, err := g.Filter(o)
			if err != nil {
				continue
			}
			regs = append(regs, r)
		}
		return regs
	}
	seqRegs := mkRegs()
	// sequential memo
	type key struct{ obj, reg int }
	memo := map[key]string{}
	for _, w := range p.Workers {
		for _, o := range w {
			if o.Kind == "lint" {
				k := key{o.Obj % len(p.Objects), o.Reg % len(seqRegs)}
				if _, ok := memo[k]; !ok {
					memo[k] = lintOne(p.Objects[k.obj], seqRegs[k.reg])
				}
			}
		}
	}
	wantNames := make([][]string, len(seqRegs))
	for i, r := range seqRegs {
		wantNames[i] = append([]string{}, r.Names()...)
	}
	old := runtime.GOMAXPROCS(p.GOMAXPROCS)
	defer runtime.GOMAXPROCS(old)
	runs := p.Runs
	if runs < 1 {
		runs = 1
	}
	for run := 0; run < runs; run++ {
		regs := mkRegs() // untouched until the workers start
		if len(regs) != len(seqRegs) {
			return "", ""
		}
		var wg sync.WaitGroup
		start := make(chan struct{})
		errs := make(chan [2]string, len(p.Workers)*4)
		for wi, w := range p.Workers {
			wg.Add(1)
			go func(wi int, w []op) {
				defer wg.Done()
				defer func() {
					if r := recover(); r != nil {
						errs <- [2]string{"panic", fmt.Sprintf("worker %d panicked: %v", wi, r)}
					}
				}()
				<-start
				for _, o := range w {
					if o.Yield {
						runtime.Gosched()
					}
					reg := regs[o.Reg%len(regs)]
					switch o.Kind {
					case "lint":
						k := key{o.Obj % len(p.Objects), o.Reg % len(regs)}
						if d := lintOne(p.Objects[k.obj], reg); d != memo[k] {
							errs <- [2]string{"differs-from-sequential", fmt.Sprintf("worker %d: concurrent lint of object %d on registry %d gives %s, alone %s", wi, k.obj, k.reg, d, memo[k])}
							return
						}
					case "filter":
						f := p.Filters[o.Obj%len(p.Filters)]
						if fo, err := f.Options(); err == nil {
							if r2, err := reg.Filter(fo); err != nil {
								if _, err2 := seqRegs[o.Reg%len(regs)].Filter(fo); err2 == nil {
									errs <- [2]string{"filter-differs-from-sequential", fmt.Sprintf("worker %d: Filter fails under concurrency (%v) but succeeds alone", wi, err)}
									return
								}
							} else if r2 != nil {
								_ = r2.Names()
							}
						}
					case "ownfilter":
						// a registry of one's own - Filter with non-empty options, some of which select every
						// lint - may be reconfigured at will: it is private to this worker
						var fo lint.FilterOptions
						switch o.Obj % 4 {
						case 0:
							fo.IncludeSources = reg.Sources()
						case 1:
							fo.NameFilter = regexp.MustCompile("_")
						case 2:
							fo.ExcludeNames = []string{"e_ca_country_name_missing"}
						default:
							fo.IncludeNames = reg.Names()
						}
						if fo.Empty() {
							break // empty options hand back the shared registry itself (documented): nothing of one's own
						}
						if r2, err := reg.Filter(fo); err == nil && r2 != nil {
							if cfg, err := lint.NewConfigFromString(ownDocs[o.Obj%len(ownDocs)]); err == nil {
								r2.SetConfiguration(cfg)
								_ = lintOne(p.Objects[o.Obj%len(p.Objects)], r2)
							}
						}
					case "names":
						n := reg.Names()
						w := wantNames[o.Reg%len(regs)]
						same := len(n) == len(w)
						for i := 0; same && i < len(n); i++ {
							same = n[i] == w[i]
						}
						if !same {
							errs <- [2]string{"names-differ-from-sequential", fmt.Sprintf("worker %d: Names() of registry %d differs from the same call made alone (%d vs %d entries)", wi, o.Reg%len(regs), len(n), len(w))}
							return
						}
					case "sources":
						_ = reg.Sources()
					case "byname":
						_ = reg.CertificateLints().ByName(o.Name)
						_ = reg.RevocationListLints().ByName(o.Name)
						_ = reg.OcspResponseLints().ByName(o.Name)
						_ = reg.ByName(o.Name)
					case "bysource":
						_ = reg.CertificateLints().BySource(lint.CABFBaselineRequirements)
						_ = reg.BySource(lint.RFC5280)
					case "lints":
						_ = reg.CertificateLints().Lints()
						_ = reg.RevocationListLints().Lints()
						_ = reg.OcspResponseLints().Lints()
					case "writejson":
						var b bytes.Buffer
						reg.WriteJSON(&b)
					case "getconfig":
						_ = reg.GetConfiguration()
					case "defaultconfig":
						_, _ = reg.DefaultConfiguration()
					}
				}
			}(wi, w)
		}
		done := make(chan struct{})
		go func() { wg.Wait(); close(done) }()
		close(start)
		select {
		case <-done:
		case <-time.After(180 * time.Second):
			buf := make([]byte, 1<<20)
			n := runtime.Stack(buf, true)
			return "deadlock", "program did not finish within 180 s; goroutines:\n" + string(buf[:n])
		}
		close(errs)
		for e := range errs {
			return e[0], e[1]
		}
	}
	if sig, msg := hammer(p); msg != "" {
		return sig, msg
	}
	p2 := p
	p2.Focus, p2.HammerObjs = p.KindFocus, p.KindObjs
	return hammer(p2)
}

// appliesSafely asks a fresh instance of the lint whether it applies (a panic counts as no).
func appliesSafely(l *lint.CertificateLint, c *x509.Certificate) (ok bool) {
	defer func() {
		if recover() != nil {
			ok = false
		}
	}()
	return l.Lint().CheckApplies(c)
}

func mustJSON(v interface{}) json.RawMessage {
	b, _ := json.Marshal(v)
	return b
}

func newRec(t *testing.T) *stats.Rec {
	r := stats.New("C10")
	t.Cleanup(r.Flush)
	return r
}

func seedFor(name string) uint64 {
	v, _ := strconv.ParseUint(os.Getenv("VERIF_SEED"), 10, 64)
	if v == 0 {
		v = 1
	}
	shard, _ := stats.Shard()
	return 1 + (v*1000003+uint64(shard)*7919+stats.HashS(name)%100003)%(1<<31-1)
}

// coldStart: the very first use of the global registry in this process is concurrent - eight goroutines lint the
// same few objects at once, before anything has listed, filtered or linted; then two lints are registered through
// the public API and the first use after that is concurrent again. Every result set must be complete and equal
// to what a later sequential run gives.
func coldStart(rec *stats.Rec, co *gen.Corpus) (sig, msg string) {
	var objs []engine.Case
	for i := 0; i < 3 && i < len(co.Certs); i++ {
		o := co.Certs[(i*131)%len(co.Certs)]
		objs = append(objs, engine.Case{Kind: o.Kind, DER: o.DER, Base: o.Name})
	}
	if len(co.CRLs) > 0 {
		objs = append(objs, engine.Case{Kind: gen.CRL, DER: co.CRLs[0].DER, Base: co.CRLs[0].Name})
	}
	if len(co.OCSPs) > 0 {
		objs = append(objs, engine.Case{Kind: gen.OCSP, DER: co.OCSPs[0].DER, Base: co.OCSPs[0].Name})
	}
	old := runtime.GOMAXPROCS(8)
	defer runtime.GOMAXPROCS(old)
	for phase := 0; phase < 2; phase++ {
		if phase == 1 {
			for i := 0; i < 2; i++ {
				lint.RegisterCertificateLint(&lint.CertificateLint{LintMetadata: lint.LintMetadata{Name: fmt.Sprintf("e_a_verif_cold_%d", i), Description: "cold start", Source: lint.Community},
					Lint: func() lint.CertificateLintInterface { return coldLint{} }})
			}
		}
		const W = 8
		got := make([][]string, W)
		counts := make([][]int, W)
		panics := make([]string, W+coldReaders)
		var wg sync.WaitGroup
		start := make(chan struct{})
		for w := 0; w < W; w++ {
			wg.Add(1)
			go func(w int) {
				defer wg.Done()
				defer func() {
					if r := recover(); r != nil {
						panics[w] = fmt.Sprint(r)
					}
				}()
				<-start
				for round := 0; round < 2; round++ {
					for i := range objs {
						o := objs[(i+w)%len(objs)]
						d, n := lintCount(o, lint.GlobalRegistry())
						if round == 0 {
							got[w] = append(got[w], d)
							counts[w] = append(counts[w], n)
						}
					}
				}
			}(w)
		}
		// ... while three more goroutines make the registry's *read* calls for the first time in this process
		// (listing, names, sources, per-kind lists, lookups by source and name, a filter, the example
		// configuration): a lazily built or lazily ordered table is built by whichever of them comes first.
		// Each shard starts the walk at another call, so every call is the very first one in some process.
		shard, _ := stats.Shard()
		seen := make([][]string, coldReaders)
		for r := 0; r < coldReaders; r++ {
			wg.Add(1)
			go func(r int) {
				defer wg.Done()
				defer func() {
					if x := recover(); x != nil {
						panics[W+r] = fmt.Sprint(x)
					}
				}()
				<-start
				for k := 0; k < (shard+r)%4; k++ {
					runtime.Gosched()
				}
				seen[r] = make([]string, len(coldReads))
				for k := range coldReads {
					i := (shard*coldReaders + r*5 + k) % len(coldReads)
					seen[r][i] = coldReads[i].f(lint.GlobalRegistry())
				}
			}(r)
		}
		close(start)
		wg.Wait()
		rec.Eval()
		rec.Class(fmt.Sprintf("cold_start_phase_%d", phase))
		g := lint.GlobalRegistry()
		for r := 0; r < coldReaders; r++ {
			if panics[W+r] != "" {
				return "panic", fmt.Sprintf("first concurrent use of the global registry (phase %d): reader %d panicked: %s", phase, r, panics[W+r])
			}
			for i, cr := range coldReads {
				if alone := cr.f(g); seen[r] != nil && seen[r][i] != alone {
					return "read-differs-from-sequential|" + cr.name, fmt.Sprintf("first concurrent use of the global registry (phase %d): %s answered %s while lints were running and %s alone afterwards", phase, cr.name, short(seen[r][i]), short(alone))
				}
			}
		}
		want := map[gen.Kind]int{gen.Cert: len(g.CertificateLints().Lints()), gen.CRL: len(g.RevocationListLints().Lints()), gen.OCSP: len(g.OcspResponseLints().Lints())}
		for w := 0; w < W; w++ {
			if panics[w] != "" {
				return "panic", fmt.Sprintf("first concurrent use of the global registry (phase %d): worker %d panicked: %s", phase, w, panics[w])
			}
			for i := range got[w] {
				o := objs[(i+w)%len(objs)]
				d, n := lintCount(o, g)
				if d == "unparseable" {
					continue
				}
				if counts[w][i] != want[o.Kind] || n != want[o.Kind] {
					return "incomplete-result-set", fmt.Sprintf("first concurrent use of the global registry (phase %d): %s gets %d results concurrently, %d afterwards, for %d registered lints of its kind", phase, o.Base, counts[w][i], n, want[o.Kind])
				}
				if d != got[w][i] {
					return "differs-from-sequential", fmt.Sprintf("first concurrent use of the global registry (phase %d): %s gives %s concurrently and %s afterwards", phase, o.Base, got[w][i], d)
				}
			}
		}
	}
	return "", ""
}

const coldReaders = 3

func sortedLines(s string) string {
	l := strings.Split(s, "\n")
	sort.Strings(l)
	return fmt.Sprintf("%d lines, hash %x", len(l), stats.HashS(l...))
}

// coldReads: the read-only calls of a registry, each reduced to a string that must not depend on when it is made.
var coldReads = []struct {
	name string
	f    func(lint.Registry) string
}{
	{"WriteJSON", func(g lint.Registry) string {
		var b bytes.Buffer
		g.WriteJSON(&b)
		return sortedLines(b.String())
	}},
	{"Names", func(g lint.Registry) string { return strings.Join(g.Names(), ",") }},
	{"Sources", func(g lint.Registry) string {
		var l []string
		for _, s := range g.Sources() {
			l = append(l, string(s))
		}
		sort.Strings(l)
		return strings.Join(l, ",")
	}},
	{"Lints", func(g lint.Registry) string {
		var l []string
		for _, x := range g.CertificateLints().Lints() {
			l = append(l, x.Name)
		}
		for _, x := range g.RevocationListLints().Lints() {
			l = append(l, x.Name)
		}
		for _, x := range g.OcspResponseLints().Lints() {
			l = append(l, x.Name)
		}
		sort.Strings(l)
		return fmt.Sprintf("%d lints, hash %x", len(l), stats.HashS(l...))
	}},
	{"BySource", func(g lint.Registry) string {
		var l []string
		for _, s := range g.Sources() {
			n := 0
			for _, x := range g.CertificateLints().BySource(s) {
				l = append(l, string(s)+"/"+x.Name)
				n++
			}
			for _, x := range g.RevocationListLints().BySource(s) {
				l = append(l, string(s)+"/"+x.Name)
			}
			for _, x := range g.OcspResponseLints().BySource(s) {
				l = append(l, string(s)+"/"+x.Name)
			}
			//nolint:staticcheck
			if d := len(g.BySource(s)); d != n {
				l = append(l, fmt.Sprintf("%s: deprecated BySource %d vs %d", s, d, n))
			}
		}
		sort.Strings(l)
		return fmt.Sprintf("%d, hash %x", len(l), stats.HashS(l...))
	}},
	{"ByName", func(g lint.Registry) string {
		miss := 0
		for _, n := range g.Names() {
			if g.CertificateLints().ByName(n) == nil && g.RevocationListLints().ByName(n) == nil && g.OcspResponseLints().ByName(n) == nil {
				miss++
			}
		}
		return fmt.Sprintf("%d listed names without a lint", miss)
	}},
	{"Filter", func(g lint.Registry) string {
		r, err := g.Filter(lint.FilterOptions{IncludeSources: lint.SourceList{lint.RFC5280, lint.CABFBaselineRequirements, lint.Community}, ExcludeNames: []string{"e_ca_country_name_missing"}})
		if err != nil {
			return "error " + err.Error()
		}
		n := r.Names()
		return fmt.Sprintf("%d names, hash %x", len(n), stats.HashS(n...))
	}},
	{"DefaultConfiguration", func(g lint.Registry) string {
		b, err := g.DefaultConfiguration()
		return fmt.Sprintf("%x %v", stats.Hash(b), err)
	}},
	{"GetConfiguration", func(g lint.Registry) string { _ = g.GetConfiguration(); return "ok" }},
}

type coldLint struct{}

func (coldLint) CheckApplies(*x509.Certificate) bool { return true }
func (coldLint) Execute(*x509.Certificate) *lint.LintResult {
	return &lint.LintResult{Status: lint.Pass}
}

// lintCount: digest and number of results.
func lintCount(c engine.Case, reg lint.Registry) (string, int) {
	switch c.Kind {
	case gen.Cert:
		if o, ok := gen.ParseCert(c.DER); ok {
			rs := zlint.LintCertificateEx(o, reg)
			return engine.Digest(rs), len(rs.Results)
		}
	case gen.CRL:
		if o, ok := gen.ParseCRL(c.DER); ok {
			rs := zlint.LintRevocationListEx(o, reg)
			return engine.Digest(rs), len(rs.Results)
		}
	default:
		if o, ok := gen.ParseOCSP(c.DER); ok {
			rs := zlint.LintOcspResponseEx(o, reg)
			return engine.Digest(rs), len(rs.Results)
		}
	}
	return "unparseable", 0
}

// TestColdStart is the cold start alone (a leg of C01: a complete result set also on the first, concurrent use).
func TestColdStart(t *testing.T) {
	prop := os.Getenv("VERIF_PROPERTY")
	if prop == "" {
		prop = "C10"
	}
	rec := stats.New(prop)
	t.Cleanup(rec.Flush)
	if sig, msg := coldStart(rec, gen.LoadCorpus()); msg != "" {
		if rec.Report("c10", sig, msg, program{}) {
			t.Fatalf("cold start: %s: %s", sig, msg)
		}
	}
	rec.NT(stats.HashS("cold-start", os.Getenv("VERIF_SHARD")))
}

func TestC10(t *testing.T) {
	rec := newRec(t)
	co := gen.LoadCorpus()
	if sig, msg := coldStart(rec, co); msg != "" {
		if rec.Report("c10", sig, msg, program{}) {
			t.Fatalf("c10 cold start: %s: %s", sig, msg)
		}
	}
	names := lint.GlobalRegistry().Names()
	shard, nshards := stats.Shard()
	procs := []int{1, 2, 4, 16}[shard%4]
	total := stats.Scale(120, 6000)
	checks := (total + nshards - 1) / nshards
	flag.Set("rapid.checks", strconv.Itoa(checks))
	flag.Set("rapid.seed", strconv.FormatUint(seedFor("programs"), 10))
	flag.Set("rapid.nofailfile", "true")
	flag.Set("rapid.shrinktime", "60s")
	// home objects per lint are approximated by walking the corpus round-robin: across a
	// shard's programs every corpus object (hence every lint body that the corpus reaches) is linted
	next := shard * 97
	nextCRL := shard * 5
	certLints := lint.GlobalRegistry().CertificateLints().Lints()
	sort.Slice(certLints, func(i, j int) bool { return certLints[i].Name < certLints[j].Name })
	nextLint := shard * ((len(certLints) + nshards - 1) / nshards)
	type parsedObj struct {
		idx  int
		cert *x509.Certificate
	}
	var parsedCorpus []parsedObj
	for i, o := range co.Certs {
		if c, ok := gen.ParseCert(o.DER); ok {
			parsedCorpus = append(parsedCorpus, parsedObj{i, c})
		}
	}
	t.Run("programs", func(t *testing.T) {
		rapid.Check(t, func(rt *rapid.T) {
			var p program
			p.GOMAXPROCS = procs
			p.Runs = stats.Scale(2, 3)
			for i, n := 0, rapid.IntRange(1, 3).Draw(rt, "nfilters"); i < n; i++ {
				p.Filters = append(p.Filters, engine.DrawValidFilter(rt, names))
			}
			// lint focus: four certificate lints per program (the registry is walked round-robin, so one quick run
			// visits nearly every lint once), up to three corpus certificates each on which the lint declares
			// itself applicable - their bodies then run side by side in the sweeping workers
			for i := 0; i < 4; i++ {
				l := certLints[nextLint%len(certLints)]
				nextLint++
				p.Focus = append(p.Focus, l.Name)
				found := 0
				for j := 0; j < len(parsedCorpus) && found < 3; j++ {
					k := (j + nextLint*37) % len(parsedCorpus)
					if appliesSafely(l, parsedCorpus[k].cert) {
						found++
						o := co.Certs[parsedCorpus[k].idx]
						p.Objects = append(p.Objects, engine.Case{Kind: o.Kind, DER: o.DER, Base: o.Name})
					}
				}
			}
			p.HammerObjs, p.HammerIters, p.HammerWorkers, p.FreshSeed = append([]engine.Case{}, p.Objects...), stats.Scale(150, 400), 8, uint64(rapid.IntRange(1, 1<<30).Draw(rt, "fresh"))
			nobj := rapid.IntRange(3, 12).Draw(rt, "nobj")
			// one program in four concentrates on revocation lists, one in eight on OCSP responses: lints of
			// those kinds are few, so shared state inside them only shows when many workers lint that kind
			// at the same time (the corpus CRLs are walked round-robin, findings included)
			focus := rapid.IntRange(0, 7).Draw(rt, "focus")
			if focus <= 2 {
				p.Objects = nil // kind-focused programs stay pure (their hammer keeps the focus objects)
				nobj += 6
			}
			for i := 0; i < nobj; i++ {
				okind := rapid.IntRange(0, 9).Draw(rt, "okind")
				if focus <= 1 && okind < 8 {
					if okind < 6 {
						o := co.CRLs[nextCRL%len(co.CRLs)]
						nextCRL++
						p.Objects = append(p.Objects, engine.Case{Kind: o.Kind, DER: o.DER, Base: o.Name})
					} else {
						der, ops := gen.DrawBuiltCRL(rt)
						p.Objects = append(p.Objects, engine.Case{Kind: gen.CRL, DER: der, Base: "built-crl", Ops: ops})
					}
					continue
				}
				if focus == 2 && okind < 8 {
					if okind < 4 {
						o := co.OCSPs[rapid.IntRange(0, len(co.OCSPs)-1).Draw(rt, "ocsp")]
						p.Objects = append(p.Objects, engine.Case{Kind: o.Kind, DER: o.DER, Base: o.Name})
					} else {
						der, ops := gen.DrawBuiltOCSP(rt)
						p.Objects = append(p.Objects, engine.Case{Kind: gen.OCSP, DER: der, Base: "built-ocsp", Ops: ops})
					}
					continue
				}
				switch okind {
				case 0:
					o := co.CRLs[rapid.IntRange(0, len(co.CRLs)-1).Draw(rt, "crl")]
					p.Objects = append(p.Objects, engine.Case{Kind: o.Kind, DER: o.DER, Base: o.Name})
				case 1:
					o := co.OCSPs[rapid.IntRange(0, len(co.OCSPs)-1).Draw(rt, "ocsp")]
					p.Objects = append(p.Objects, engine.Case{Kind: o.Kind, DER: o.DER, Base: o.Name})
				case 2, 3:
					cc := gen.DrawCert(rt, 2, true)
					p.Objects = append(p.Objects, engine.Case{Kind: gen.Cert, DER: cc.DER, Base: cc.Base, Ops: cc.Ops})
				default:
					o := co.Certs[next%len(co.Certs)]
					next++
					p.Objects = append(p.Objects, engine.Case{Kind: o.Kind, DER: o.DER, Base: o.Name})
				}
			}
			if focus <= 2 {
				kind := gen.CRL
				var ls []string
				if focus == 2 {
					kind = gen.OCSP
					for _, l := range lint.GlobalRegistry().OcspResponseLints().Lints() {
						ls = append(ls, l.Name)
					}
				} else {
					for _, l := range lint.GlobalRegistry().RevocationListLints().Lints() {
						ls = append(ls, l.Name)
					}
				}
				for _, o := range p.Objects {
					if o.Kind == kind {
						p.KindObjs = append(p.KindObjs, o)
					}
				}
				p.KindFocus = ls
			}
			nobj = len(p.Objects)
			// a few objects whose verdict depends on a configurable lint's option
			if so := sensitiveObjects(); len(so) > 0 {
				for i, n := 0, rapid.IntRange(1, 3).Draw(rt, "nsens"); i < n; i++ {
					p.Objects = append(p.Objects, so[rapid.IntRange(0, len(so)-1).Draw(rt, "sens")])
				}
				nobj = len(p.Objects)
			}
			G := rapid.IntRange(3, 16).Draw(rt, "goroutines")
			linters, others := 0, 0
			for w := 0; w < G; w++ {
				var ops []op
				role := rapid.IntRange(0, 3).Draw(rt, "role") // 0,1: mostly lint; 2: mixed; 3: registry reader
				for i, n := 0, rapid.IntRange(5, 40).Draw(rt, "nops"); i < n; i++ {
					o := op{Yield: rapid.IntRange(0, 5).Draw(rt, "yield") == 0, Reg: rapid.IntRange(0, len(p.Filters)).Draw(rt, "reg")}
					k := rapid.IntRange(0, 9).Draw(rt, "k")
					isLint := role <= 1 && k < 8 || role == 2 && k < 5
					if isLint {
						o.Kind, o.Obj = "lint", rapid.IntRange(0, nobj-1).Draw(rt, "obj")
					} else {
						o.Kind = rapid.SampledFrom([]string{"filter", "names", "sources", "byname", "bysource", "lints", "writejson", "getconfig", "defaultconfig", "ownfilter", "ownfilter"}).Draw(rt, "other")
						o.Obj = rapid.IntRange(0, len(p.Filters)-1).Draw(rt, "fidx")
						o.Name = names[rapid.IntRange(0, len(names)-1).Draw(rt, "name")]
					}
					ops = append(ops, o)
				}
				if w < 2 {
					// the first three workers are linters that sweep every object of the program (each starting
					// elsewhere): whatever lint bodies these objects reach run side by side, systematically
					var sweep []op
					for i := 0; i < nobj; i++ {
						sweep = append(sweep, op{Kind: "lint", Obj: (i + w*(nobj/2+1)) % nobj, Reg: 0, Yield: i%5 == w})
					}
					ops = append(sweep, ops...)
					role = 0
				}
				if role <= 1 {
					linters++
				} else {
					others++
				}
				p.Workers = append(p.Workers, ops)
			}
			rec.Eval()
			rec.Class(fmt.Sprintf("gomaxprocs_%d", procs))
			// the race detector / a runtime fatal error may end the process: keep
			// the program on disk first so the driver can attach it to the report
			if pfx := os.Getenv("VERIF_STATS"); pfx != "" {
				if b, err := json.Marshal(stats.Violation{Property: "C10", Oracle: "c10", Signature: "process-level", Case: mustJSON(p)}); err == nil {
					_ = os.WriteFile(pfx+".current.json", b, 0o644)
				}
			}
			sig, msg := runProgram(p)
			if msg != "" {
				if rec.Report("c10", sig, msg, p) {
					rt.Fatalf("c10: %s: %s", sig, msg)
				}
			}
			if linters >= 2 && others >= 1 {
				b, _ := json.Marshal(p.Workers)
				rec.NT(stats.Hash(b))
			}
			if rec.WantSample() {
				var kinds []string
				for _, w := range p.Workers {
					c := map[string]int{}
					for _, o := range w {
						c[o.Kind]++
					}
					var ks []string
					for k, n := range c {
						ks = append(ks, fmt.Sprintf("%s:%d", k, n))
					}
					sort.Strings(ks)
					kinds = append(kinds, fmt.Sprint(ks))
				}
				rec.Sample(map[string]interface{}{"goroutines": len(p.Workers), "objects": len(p.Objects), "filters": p.Filters, "gomaxprocs": procs, "worker_ops": kinds})
			}
		})
	})
}

// TestReplay re-runs a saved program (the race detector reports on its own).
func TestReplay(t *testing.T) {
	p := os.Getenv("VERIF_REPLAY")
	if p == "" {
		t.Skip("VERIF_REPLAY not set")
	}
	rec := newRec(t)
	st, err := os.Stat(p)
	if err != nil {
		t.Skip("no replay")
	}
	var files []string
	if st.IsDir() {
		es, _ := os.ReadDir(p)
		for _, e := range es {
			files = append(files, p+"/"+e.Name())
		}
	} else {
		files = []string{p}
	}
	for _, f := range files {
		b, err := os.ReadFile(f)
		if err != nil {
			continue
		}
		var v stats.Violation
		if json.Unmarshal(b, &v) != nil || v.Oracle != "c10" {
			continue
		}
		var prog program
		if json.Unmarshal(v.Case, &prog) != nil {
			continue
		}
		rec.Eval()
		for i := 0; i < 10; i++ {
			if sig, msg := runProgram(prog); msg != "" {
				if rec.Report("c10", sig, msg, prog) {
					t.Errorf("REPLAY-VIOLATION %s: %s", sig, msg)
				}
				break
			}
		}
	}
}

// TestHammerProbe (development aid, VERIF_HAMMER_FOCUS=lint,lint): runs the hammer alone a number of times.
func TestHammerProbe(t *testing.T) {
	focus := os.Getenv("VERIF_HAMMER_FOCUS")
	if focus == "" {
		t.Skip("no focus")
	}
	co := gen.LoadCorpus()
	p := program{Focus: strings.Split(focus, ","), HammerIters: 150, HammerWorkers: 8}
	for _, n := range p.Focus {
		l := lint.GlobalRegistry().CertificateLints().ByName(n)
		found := 0
		for _, o := range co.Certs {
			if c, ok := gen.ParseCert(o.DER); ok && l != nil && found < 4 && appliesSafely(l, c) {
				found++
				p.Objects = append(p.Objects, engine.Case{Kind: o.Kind, DER: o.DER, Base: o.Name})
			}
		}
	}
	p.HammerObjs = p.Objects
	for r := 0; r < 20; r++ {
		p.FreshSeed = uint64(r + 1)
		t0 := time.Now()
		sig, msg := hammer(p)
		t.Logf("run %d: %d objects, %s %s (%.2fs)", r, len(p.HammerObjs), sig, short(msg), time.Since(t0).Seconds())
		if sig != "" {
			break
		}
	}
}

func short(s string) string {
	if len(s) > 300 {
		return s[:300]
	}
	return s
}
