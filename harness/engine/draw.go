package engine

import (
	"fmt"
	"reflect"
	"sort"
	"strings"
	"sync"

	"github.com/zmap/zlint/v3/lint"
	"pgregory.net/rapid"
)

var AllSourceConsts = []string{"RFC3279", "RFC5280", "RFC5480", "RFC5891", "RFC6960", "RFC6962", "RFC8813", "CABF_BR", "CABF_CS_BR",
	"CABF_SMIME_BR", "CABF_EV", "Mozilla", "Apple", "Community", "ETSI_ESI"}

var regexDict = []string{`^e_`, `^w_`, `^n_`, `crl`, `.*`, `^$`, `ocsp`, `^e_(sub|ext)_`, `dnsname`, `[0-9]`, `_ca_`, `^e_.*_(san|ian)_`, `rsa`, `smime|cs_`, `^.{10,25}$`, `a{3}`, `\bext\b`, `(?i)RSA`, `^[ew]_ext`, `x`}

// DrawRegexp draws a name pattern: half from the dictionary, half from a small
// grammar over fragments of real lint names - a literal fragment (a whole name, a
// word between underscores, an arbitrary substring), optionally quoted, wrapped in
// text anchors (^ $ \A \z), word boundaries, a case-insensitive flag, a group, an
// alternation of two fragments, or followed by a quantified class. Go's regexp
// package is the specification of what "matches" means.
func DrawRegexp(t *rapid.T, names []string) string {
	if len(names) == 0 || rapid.Bool().Draw(t, "redict") {
		return regexDict[rapid.IntRange(0, len(regexDict)-1).Draw(t, "re")]
	}
	frag := func(lbl string) string {
		n := names[rapid.IntRange(0, len(names)-1).Draw(t, lbl+"name")]
		switch rapid.IntRange(0, 3).Draw(t, lbl+"kind") {
		case 0:
			return n
		case 1:
			w := strings.Split(n, "_")
			i := rapid.IntRange(0, len(w)-1).Draw(t, lbl+"w")
			j := rapid.IntRange(i, min(len(w)-1, i+2)).Draw(t, lbl+"w2")
			return strings.Join(w[i:j+1], "_")
		default:
			i := rapid.IntRange(0, len(n)-1).Draw(t, lbl+"i")
			j := rapid.IntRange(i+1, min(len(n), i+12)).Draw(t, lbl+"j")
			return n[i:j]
		}
	}
	quote := func(s string) string { return strings.NewReplacer(".", `\.`, "-", `\-`).Replace(s) }
	f := quote(frag("a"))
	switch rapid.IntRange(0, 11).Draw(t, "reshape") {
	case 0:
		return "^" + f + "$"
	case 1:
		return `\A` + f + `\z`
	case 2:
		return "^" + f
	case 3:
		return f + "$"
	case 4:
		return `\b` + f + `\b`
	case 5:
		return "(?i)" + strings.ToUpper(f)
	case 6:
		return "(?i)^" + strings.ToUpper(f) + "$"
	case 7:
		return "^(" + f + ")$"
	case 8:
		return "^(" + f + "|" + quote(frag("b")) + ")$"
	case 9:
		return f + "[a-z_]{0,6}$"
	case 10:
		return "^(?:" + f + ")"
	}
	return f
}

var pads = []string{"", " ", "  ", "\t", "\n", " \t", "\u00a0", "\u2003", "\u0085", "\u3000"}

func pad(t *rapid.T, s string) string {
	return pads[rapid.IntRange(0, len(pads)-1).Draw(t, "padl")] + s + pads[rapid.IntRange(0, len(pads)-1).Draw(t, "padr")]
}

// DrawValidFilter draws options that Filter must accept (known names only,
// no regexp together with names).
func DrawValidFilter(t *rapid.T, names []string) FilterSpec {
	var f FilterSpec
	mode := rapid.IntRange(0, 9).Draw(t, "fmode")
	drawNames := func(lbl string, max int) []string {
		n := rapid.IntRange(1, max).Draw(t, lbl+"n")
		out := make([]string, n)
		for i := range out {
			out[i] = names[rapid.IntRange(0, len(names)-1).Draw(t, lbl)]
			if rapid.IntRange(0, 3).Draw(t, lbl+"pad") == 0 {
				out[i] = pad(t, out[i])
			}
		}
		return out
	}
	drawSources := func(lbl string) []string {
		n := rapid.IntRange(1, 4).Draw(t, lbl+"n")
		out := make([]string, n)
		for i := range out {
			out[i] = AllSourceConsts[rapid.IntRange(0, len(AllSourceConsts)-1).Draw(t, lbl)]
		}
		return out
	}
	switch mode {
	case 0, 1: // singleton
		f.IncludeNames = drawNames("inc", 1)
	case 2: // small subset
		f.IncludeNames = drawNames("inc", 12)
	case 3: // all but a few
		f.ExcludeNames = drawNames("exc", 3)
	case 4:
		f.IncludeSources = drawSources("isrc")
	case 5:
		f.ExcludeSources = drawSources("xsrc")
	case 6:
		s := DrawRegexp(t, names)
		f.NameFilter = &s
		if rapid.Bool().Draw(t, "resrc") {
			f.IncludeSources = drawSources("isrc")
		}
	case 7:
		f.IncludeNames = drawNames("inc", 30)
		f.ExcludeNames = drawNames("exc", 5)
	case 8:
		f.IncludeSources = drawSources("isrc")
		f.ExcludeNames = drawNames("exc", 5)
	default:
		f.IncludeSources = drawSources("isrc")
		f.ExcludeSources = drawSources("xsrc")
		if rapid.Bool().Draw(t, "withnames") {
			f.IncludeNames = drawNames("inc", 40)
		}
	}
	return f
}

// ConfigurableInfo describes one configurable lint discovered at run time.
type ConfigurableInfo struct {
	Name   string
	Kind   string
	Fields []reflect.StructField
}

var (
	cfgOnce sync.Once
	cfgList []ConfigurableInfo
)

// Configurables lists every lint whose implementation is lint.Configurable.
func Configurables() []ConfigurableInfo {
	cfgOnce.Do(func() {
		add := func(name, kind string, inst interface{}) {
			c, ok := inst.(lint.Configurable)
			if !ok {
				return
			}
			ci := ConfigurableInfo{Name: name, Kind: kind}
			v := reflect.Indirect(reflect.ValueOf(c.Configure()))
			if v.Kind() == reflect.Struct {
				for i := 0; i < v.NumField(); i++ {
					f := v.Type().Field(i)
					if f.PkgPath == "" {
						ci.Fields = append(ci.Fields, f)
					}
				}
			}
			cfgList = append(cfgList, ci)
		}
		g := lint.GlobalRegistry()
		for _, l := range g.CertificateLints().Lints() {
			add(l.Name, "cert", l.Lint())
		}
		for _, l := range g.RevocationListLints().Lints() {
			add(l.Name, "crl", l.Lint())
		}
		for _, l := range g.OcspResponseLints().Lints() {
			add(l.Name, "ocsp", l.Lint())
		}
		sort.Slice(cfgList, func(i, j int) bool { return cfgList[i].Name < cfgList[j].Name })
	})
	return cfgList
}

var globalSections = []string{"Global", "RFC5280Config", "RFC5480Config", "RFC5891Config", "CABFBaselineRequirementsConfig",
	"CABFEVGuidelinesConfig", "MozillaRootStorePolicyConfig", "AppleRootStorePolicyConfig", "CommunityConfig", "EtsiEsiConfig"}

func tomlScalar(t *rapid.T, lbl string) string {
	switch rapid.IntRange(0, 4).Draw(t, lbl+"kind") {
	case 0:
		return fmt.Sprint(rapid.IntRange(-5, 5000).Draw(t, lbl+"int"))
	case 1:
		return fmt.Sprint(rapid.Bool().Draw(t, lbl+"bool"))
	case 2:
		return fmt.Sprintf("%q", rapid.StringMatching(`[a-z0-9 ]{0,8}`).Draw(t, lbl+"str"))
	case 3:
		return "[1, 2, 3]"
	default:
		return "1.5"
	}
}

// DrawUnrelatedTOML draws sections that name no configurable lint.
func DrawUnrelatedTOML(t *rapid.T, names []string) string {
	cfg := map[string]bool{}
	for _, c := range Configurables() {
		cfg[c.Name] = true
	}
	var sb strings.Builder
	used := map[string]bool{}
	// top-level keys first (must precede tables)
	for i, n := 0, rapid.IntRange(0, 2).Draw(t, "ntop"); i < n; i++ {
		k := "verif_top_" + rapid.StringMatching(`[a-z]{1,4}`).Draw(t, "topkey")
		if !used[k] {
			used[k] = true
			fmt.Fprintf(&sb, "%s = %s\n", k, tomlScalar(t, "top"))
		}
	}
	// unrelated names bound to something that is not a table: a well-known higher scoped name, another
	// (non-configurable) lint's name, a made-up name - as scalar, array or inline table
	for i, n := 0, rapid.IntRange(0, 2).Draw(t, "nodd"); i < n; i++ {
		var k string
		switch rapid.IntRange(0, 2).Draw(t, "oddkind") {
		case 0:
			k = globalSections[rapid.IntRange(0, len(globalSections)-1).Draw(t, "oddglobal")]
		case 1:
			k = names[rapid.IntRange(0, len(names)-1).Draw(t, "oddname")]
			if cfg[k] {
				continue
			}
		default:
			k = "verif_odd_" + rapid.StringMatching(`[a-z]{1,4}`).Draw(t, "oddrnd")
		}
		if used[k] {
			continue
		}
		used[k] = true
		switch rapid.IntRange(0, 3).Draw(t, "oddshape") {
		case 0:
			fmt.Fprintf(&sb, "%s = %s\n", k, tomlScalar(t, "odd"))
		case 1:
			fmt.Fprintf(&sb, "%s = [1, 2, 3]\n", k)
		case 2:
			fmt.Fprintf(&sb, "%s = []\n", k)
		default:
			fmt.Fprintf(&sb, "%s = { x = 1 }\n", k)
		}
	}
	for i, n := 0, rapid.IntRange(0, 4).Draw(t, "nsec"); i < n; i++ {
		var sec string
		switch rapid.IntRange(0, 3).Draw(t, "seckind") {
		case 0:
			sec = names[rapid.IntRange(0, len(names)-1).Draw(t, "secname")]
			if cfg[sec] {
				continue
			}
		case 1:
			sec = globalSections[rapid.IntRange(0, len(globalSections)-1).Draw(t, "global")]
		case 2:
			sec = "verif_" + rapid.StringMatching(`[a-z]{1,6}`).Draw(t, "rnd")
		default:
			sec = "verif_" + rapid.StringMatching(`[a-z]{1,4}`).Draw(t, "rnd") + ".nested"
		}
		if used[sec] {
			continue
		}
		used[sec] = true
		if !strings.Contains(sec, ".") && rapid.IntRange(0, 5).Draw(t, "arrtab") == 0 {
			// array of tables under an unrelated name
			fmt.Fprintf(&sb, "[[%s]]\nx = 1\n[[%s]]\nx = 2\n", sec, sec)
			continue
		}
		fmt.Fprintf(&sb, "[%s]\n", sec)
		ku := map[string]bool{}
		for j, m := 0, rapid.IntRange(0, 3).Draw(t, "nkeys"); j < m; j++ {
			k := rapid.SampledFrom([]string{"Skip", "Rounds", "CrossCert", "SubscriberCRL", "x", "Name", "foo_bar"}).Draw(t, "key")
			if ku[k] {
				continue
			}
			ku[k] = true
			fmt.Fprintf(&sb, "%s = %s\n", k, tomlScalar(t, "val"))
		}
	}
	return sb.String()
}

// WellTypedSection renders a section for a configurable lint with drawn,
// correctly typed values. vals receives field -> rendered value.
func WellTypedSection(t *rapid.T, ci ConfigurableInfo, vals map[string]interface{}) string {
	var sb strings.Builder
	fmt.Fprintf(&sb, "[%s]\n", ci.Name)
	for _, f := range ci.Fields {
		if rapid.IntRange(0, 4).Draw(t, "omit") == 0 {
			continue
		}
		switch f.Type.Kind() {
		case reflect.Bool:
			b := rapid.Bool().Draw(t, f.Name)
			vals[f.Name] = b
			fmt.Fprintf(&sb, "%s = %v\n", f.Name, b)
		case reflect.Int, reflect.Int64, reflect.Int32:
			n := rapid.IntRange(0, 2000).Draw(t, f.Name)
			vals[f.Name] = n
			fmt.Fprintf(&sb, "%s = %d\n", f.Name, n)
		case reflect.String:
			s := rapid.StringMatching(`[a-z]{0,6}`).Draw(t, f.Name)
			vals[f.Name] = s
			fmt.Fprintf(&sb, "%s = %q\n", f.Name, s)
		}
	}
	return sb.String()
}

// IllTypedSection renders something under the lint's name that cannot be
// applied to it. Returns the TOML and a label for the shape.
func IllTypedSection(t *rapid.T, ci ConfigurableInfo) (string, string) {
	switch rapid.IntRange(0, 7).Draw(t, "illkind") {
	case 6:
		// every other TOML value that is not a table: empty / nested / mixed arrays, date, float, bool
		v := rapid.SampledFrom([]string{"[]", "[[]]", "[[1], []]", "[[], [[]]]", `["a", "b"]`, "1979-05-27T07:32:00Z", "1.5", "true", `""`, "0", "-1", "[1.5]", "[true]", `[ [ "x" ] ]`}).Draw(t, "illval")
		return fmt.Sprintf("%s = %s\n", ci.Name, v), "value:" + v
	case 7:
		return fmt.Sprintf("[[%s]]\n[[%s]]\n", ci.Name, ci.Name), "array-of-empty-tables"
	case 0:
		return fmt.Sprintf("%s = 5\n", ci.Name), "scalar-int"
	case 1:
		return fmt.Sprintf("%s = \"x\"\n", ci.Name), "scalar-string"
	case 2:
		return fmt.Sprintf("%s = [1, 2]\n", ci.Name), "array"
	case 3:
		return fmt.Sprintf("[[%s]]\nx = 1\n", ci.Name), "array-of-tables"
	case 4:
		if len(ci.Fields) > 0 {
			f := ci.Fields[rapid.IntRange(0, len(ci.Fields)-1).Draw(t, "fld")]
			bad := `"notatype"`
			if f.Type.Kind() == reflect.String {
				bad = "[1]"
			}
			return fmt.Sprintf("[%s]\n%s = %s\n", ci.Name, f.Name, bad), "wrong-field-type"
		}
		return fmt.Sprintf("%s = true\n", ci.Name), "scalar-bool"
	default:
		if len(ci.Fields) > 0 {
			f := ci.Fields[rapid.IntRange(0, len(ci.Fields)-1).Draw(t, "fld")]
			return fmt.Sprintf("[%s.%s]\nx = 1\n", ci.Name, f.Name), "table-for-scalar"
		}
		return fmt.Sprintf("%s = 1.5\n", ci.Name), "scalar-float"
	}
}
