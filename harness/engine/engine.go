// Package engine runs zlint on a described case and, next to it, the
// reference lifecycle of package model; the per-property oracles judge the
// pair.
package engine

import (
	"fmt"
	"regexp"
	"runtime/debug"
	"strings"
	"time"

	"github.com/zmap/zcrypto/x509"
	"github.com/zmap/zlint/v3"
	"github.com/zmap/zlint/v3/lint"
	"golang.org/x/crypto/ocsp"

	"verifharness/gen"
	"verifharness/model"
)

// FilterSpec is a serialisable lint.FilterOptions.
type FilterSpec struct {
	IncludeNames   []string `json:"include_names,omitempty"`
	ExcludeNames   []string `json:"exclude_names,omitempty"`
	IncludeSources []string `json:"include_sources,omitempty"`
	ExcludeSources []string `json:"exclude_sources,omitempty"`
	NameFilter     *string  `json:"name_filter,omitempty"`
	// NilLists keeps the nil/empty distinction of the four lists (bit i set =
	// list i is nil rather than empty when it has no elements).
	EmptyNotNil int `json:"empty_not_nil,omitempty"`
}

func (f FilterSpec) Options() (lint.FilterOptions, error) {
	var o lint.FilterOptions
	o.IncludeNames = f.IncludeNames
	o.ExcludeNames = f.ExcludeNames
	if f.EmptyNotNil&1 != 0 && o.IncludeNames == nil {
		o.IncludeNames = []string{}
	}
	if f.EmptyNotNil&2 != 0 && o.ExcludeNames == nil {
		o.ExcludeNames = []string{}
	}
	for _, s := range f.IncludeSources {
		o.IncludeSources = append(o.IncludeSources, lint.LintSource(s))
	}
	for _, s := range f.ExcludeSources {
		o.ExcludeSources = append(o.ExcludeSources, lint.LintSource(s))
	}
	if f.EmptyNotNil&4 != 0 && o.IncludeSources == nil {
		o.IncludeSources = lint.SourceList{}
	}
	if f.EmptyNotNil&8 != 0 && o.ExcludeSources == nil {
		o.ExcludeSources = lint.SourceList{}
	}
	if f.NameFilter != nil {
		re, err := regexp.Compile(*f.NameFilter)
		if err != nil {
			return o, err
		}
		o.NameFilter = re
	}
	return o, nil
}

// Empty reports whether the options select nothing to filter by (Filter then returns the receiver).
func (f FilterSpec) Empty() bool {
	return f.NameFilter == nil && len(f.IncludeNames) == 0 && len(f.ExcludeNames) == 0 && len(f.IncludeSources) == 0 && len(f.ExcludeSources) == 0
}

// Case describes one lint call.
type Case struct {
	Kind    gen.Kind     `json:"kind"`
	DER     []byte       `json:"der"`
	Filters []FilterSpec `json:"filters,omitempty"` // applied in sequence to the global registry
	NilReg  bool         `json:"nil_registry,omitempty"`
	Config  *string      `json:"config,omitempty"` // TOML; nil = leave the registry's configuration alone
	Base    string       `json:"base,omitempty"`
	Ops     []string     `json:"ops,omitempty"`
	Note    string       `json:"note,omitempty"`
	// Late: the case presumes the first n late-registered harness lints (replays register them too)
	Late int `json:"late,omitempty"`
	// ConfigFirst: the configuration is installed on the global registry *before* the filters are applied - the
	// filtered registries have to inherit it (otherwise it is set on the last filter's result)
	ConfigFirst bool `json:"config_first,omitempty"`
}

// Run is the observed behaviour plus the reference expectation.
type Run struct {
	Parsed   bool
	Cert     *x509.Certificate
	CRL      *x509.RevocationList
	OCSP     *ocsp.Response
	Reg      lint.Registry
	Cfg      lint.Configuration
	SetupErr string // filter / config could not be built (case is void)
	RS       *zlint.ResultSet
	Panic    string // panic that reached the caller of Lint*Ex
	Stack    string
	Hang     bool
	Names    []string // names of the lints of the matching kind, computed before the call
	Metas    map[string]lint.LintMetadata
	Exp      map[string]model.Expected
	Elapsed  time.Duration
}

// Verdicts flattens a result set.
func Verdicts(rs *zlint.ResultSet) map[string]model.Verdict {
	out := map[string]model.Verdict{}
	if rs == nil {
		return out
	}
	for n, r := range rs.Results {
		if r == nil {
			out[n] = model.Verdict{Status: -1, Details: "<nil result>"}
			continue
		}
		out[n] = model.Verdict{Status: r.Status, Details: r.Details}
	}
	return out
}

// BuildRegistry applies the filters; the returned restore func undoes any
// configuration change on the global registry.
func BuildRegistry(c Case) (reg lint.Registry, cfg lint.Configuration, restore func(), err error) {
	g := lint.GlobalRegistry()
	old := g.GetConfiguration()
	restore = func() { g.SetConfiguration(old) }
	reg = g
	var first *lint.Configuration
	if c.Config != nil && c.ConfigFirst && len(c.Filters) > 0 {
		cf, e := lint.NewConfigFromString(*c.Config)
		if e != nil {
			return nil, cfg, restore, fmt.Errorf("config: %v", e)
		}
		g.SetConfiguration(cf)
		first = &cf
	}
	for _, f := range c.Filters {
		o, e := f.Options()
		if e != nil {
			return nil, cfg, restore, e
		}
		r, e := reg.Filter(o)
		if e != nil {
			return nil, cfg, restore, e
		}
		reg = r
	}
	cfg = reg.GetConfiguration()
	if first != nil {
		// what the filtered registry must be working with, whatever it says it holds
		return reg, *first, restore, nil
	}
	if c.Config != nil {
		cf, e := lint.NewConfigFromString(*c.Config)
		if e != nil {
			return nil, cfg, restore, fmt.Errorf("config: %v", e)
		}
		reg.SetConfiguration(cf)
		cfg = cf
	}
	return reg, cfg, restore, nil
}

// HangLimit is the per-call wall-clock limit beyond which a single lint call
// counts as a hang (full registry on one object normally takes ~1 ms).
var HangLimit = 45 * time.Second

// Execute runs the case. withExpected also computes the reference lifecycle
// for every lint of the matching kind (on a second, fresh parse).
func Execute(c Case, withExpected bool) *Run {
	r := &Run{}
	switch c.Kind {
	case gen.Cert:
		r.Cert, r.Parsed = gen.ParseCert(c.DER)
	case gen.CRL:
		r.CRL, r.Parsed = gen.ParseCRL(c.DER)
	case gen.OCSP:
		r.OCSP, r.Parsed = gen.ParseOCSP(c.DER)
	}
	if !r.Parsed {
		return r
	}
	reg, cfg, restore, err := BuildRegistry(c)
	defer restore()
	if err != nil {
		r.SetupErr = err.Error()
		return r
	}
	return executeParsed(c, r, reg, cfg, withExpected)
}

// ExecuteReg is Execute with a registry that the caller built once from
// c.Filters (and c.Config) - the enumerated sweeps lint thousands of mutants
// against one selection. The case stays replayable through Execute.
func ExecuteReg(c Case, reg lint.Registry, cfg lint.Configuration, withExpected bool) *Run {
	r := &Run{}
	switch c.Kind {
	case gen.Cert:
		r.Cert, r.Parsed = gen.ParseCert(c.DER)
	case gen.CRL:
		r.CRL, r.Parsed = gen.ParseCRL(c.DER)
	case gen.OCSP:
		r.OCSP, r.Parsed = gen.ParseOCSP(c.DER)
	}
	if !r.Parsed {
		return r
	}
	return executeParsed(c, r, reg, cfg, withExpected)
}

func executeParsed(c Case, r *Run, reg lint.Registry, cfg lint.Configuration, withExpected bool) *Run {
	r.Reg, r.Cfg = reg, cfg
	r.Metas = map[string]lint.LintMetadata{}
	switch c.Kind {
	case gen.Cert:
		for _, l := range reg.CertificateLints().Lints() {
			r.Names = append(r.Names, l.Name)
			r.Metas[l.Name] = l.LintMetadata
		}
	case gen.CRL:
		for _, l := range reg.RevocationListLints().Lints() {
			r.Names = append(r.Names, l.Name)
			r.Metas[l.Name] = l.LintMetadata
		}
	case gen.OCSP:
		for _, l := range reg.OcspResponseLints().Lints() {
			r.Names = append(r.Names, l.Name)
			r.Metas[l.Name] = l.LintMetadata
		}
	}
	// the lints of the matching kind, by a second road: the registry's name list and the per-kind lookup by name.
	// What either road shows is expected in the result set (a list accessor gone stale must not be its own witness).
	for _, n := range reg.Names() {
		if _, ok := r.Metas[n]; ok {
			continue
		}
		switch c.Kind {
		case gen.Cert:
			if l := reg.CertificateLints().ByName(n); l != nil {
				r.Names = append(r.Names, n)
				r.Metas[n] = l.LintMetadata
			}
		case gen.CRL:
			if l := reg.RevocationListLints().ByName(n); l != nil {
				r.Names = append(r.Names, n)
				r.Metas[n] = l.LintMetadata
			}
		case gen.OCSP:
			if l := reg.OcspResponseLints().ByName(n); l != nil {
				r.Names = append(r.Names, n)
				r.Metas[n] = l.LintMetadata
			}
		}
	}
	use := reg
	if c.NilReg && len(c.Filters) == 0 {
		use = nil
	}
	done := make(chan struct{})
	t0 := time.Now()
	go func() {
		defer close(done)
		defer func() {
			if p := recover(); p != nil {
				r.Panic = fmt.Sprint(p)
				r.Stack = string(debug.Stack())
			}
		}()
		switch c.Kind {
		case gen.Cert:
			r.RS = zlint.LintCertificateEx(r.Cert, use)
		case gen.CRL:
			r.RS = zlint.LintRevocationListEx(r.CRL, use)
		case gen.OCSP:
			r.RS = zlint.LintOcspResponseEx(r.OCSP, use)
		}
	}()
	select {
	case <-done:
	case <-time.After(HangLimit):
		r.Hang = true
		return r
	}
	r.Elapsed = time.Since(t0)
	if withExpected {
		r.Exp = map[string]model.Expected{}
		switch c.Kind {
		case gen.Cert:
			c2, _ := gen.ParseCert(c.DER)
			for _, l := range reg.CertificateLints().Lints() {
				r.Exp[l.Name] = model.ExpectCert(l, c2, cfg)
			}
		case gen.CRL:
			c2, _ := gen.ParseCRL(c.DER)
			for _, l := range reg.RevocationListLints().Lints() {
				r.Exp[l.Name] = model.ExpectCRL(l, c2, cfg)
			}
		case gen.OCSP:
			o2, _ := gen.ParseOCSP(c.DER)
			for _, l := range reg.OcspResponseLints().Lints() {
				r.Exp[l.Name] = model.ExpectOCSP(l, o2, cfg)
			}
		}
	}
	return r
}

// IsPanicReport recognises the framework's recovered-panic result.
func IsPanicReport(name string, v model.Verdict) bool {
	return v.Status == lint.Fatal && strings.Contains(v.Details, model.PanicMarker)
}
