package engine

import (
	"crypto/sha256"
	"encoding/hex"
	"encoding/json"
	"fmt"
	"os"
	"sort"

	"github.com/zmap/zlint/v3"
)

// Digest is a stable fingerprint of a result set: every lint's status and
// details, the four flags and the version (never the timestamp).
func Digest(rs *zlint.ResultSet) string {
	if rs == nil {
		return "nil"
	}
	names := make([]string, 0, len(rs.Results))
	for n := range rs.Results {
		names = append(names, n)
	}
	sort.Strings(names)
	h := sha256.New()
	for _, n := range names {
		r := rs.Results[n]
		if r == nil {
			fmt.Fprintf(h, "%s=<nil>\n", n)
			continue
		}
		fmt.Fprintf(h, "%s=%d|%q\n", n, int(r.Status), r.Details)
	}
	fmt.Fprintf(h, "flags=%v,%v,%v,%v version=%d\n", rs.NoticesPresent, rs.WarningsPresent, rs.ErrorsPresent, rs.FatalsPresent, rs.Version)
	return hex.EncodeToString(h.Sum(nil))[:32]
}

// BundleItem is one line of a oneshot bundle.
type BundleItem struct {
	Case
	ID string `json:"id"`
}

// WriteBundle writes cases as JSON lines.
func WriteBundle(path string, items []BundleItem) error {
	f, err := os.Create(path)
	if err != nil {
		return err
	}
	defer f.Close()
	enc := json.NewEncoder(f)
	for _, it := range items {
		if err := enc.Encode(it); err != nil {
			return err
		}
	}
	return nil
}
