// Package stats collects per-run counters, distinct non-trivial case hashes,
// samples, known-finding hits and violations; each shard flushes a fragment
// that the driver merges into evidence/<ID>.json.
package stats

import (
	"bufio"
	"encoding/binary"
	"encoding/json"
	"fmt"
	"hash/fnv"
	"os"
	"path/filepath"
	"sort"
	"strconv"
	"strings"
	"sync"
)

// Violation is a replayable failing case.
type Violation struct {
	Property  string          `json:"property"`
	Oracle    string          `json:"oracle"`
	Signature string          `json:"signature"`
	Message   string          `json:"message"`
	Case      json.RawMessage `json:"case"`
}

type Finding struct {
	Kind      string // "finding" or "fixed"
	Property  string
	Signature string
	Text      string
}

type Rec struct {
	mu        sync.Mutex
	Property  string
	evals     int64
	nt        map[uint64]struct{}
	classes   map[string]int64
	samples   []json.RawMessage
	maxSample int
	known     map[string]int64
	last      *Violation // most recent violation (rapid's final run = the shrunk one)
	nviol     int64
	notes     map[string]string
	exhaust   map[string]bool
}

func New(property string) *Rec {
	return &Rec{Property: property, nt: map[uint64]struct{}{}, classes: map[string]int64{},
		known: map[string]int64{}, maxSample: 12, notes: map[string]string{}, exhaust: map[string]bool{}}
}

func Hash(parts ...[]byte) uint64 {
	h := fnv.New64a()
	for _, p := range parts {
		var l [4]byte
		binary.LittleEndian.PutUint32(l[:], uint32(len(p)))
		h.Write(l[:])
		h.Write(p)
	}
	return h.Sum64()
}

func HashS(parts ...string) uint64 {
	bs := make([][]byte, len(parts))
	for i, p := range parts {
		bs[i] = []byte(p)
	}
	return Hash(bs...)
}

func (r *Rec) Eval() { r.mu.Lock(); r.evals++; r.mu.Unlock() }
func (r *Rec) EvalN(n int64) {
	r.mu.Lock()
	r.evals += n
	r.mu.Unlock()
}
func (r *Rec) NT(h uint64) { r.mu.Lock(); r.nt[h] = struct{}{}; r.mu.Unlock() }
func (r *Rec) Class(c string) {
	r.mu.Lock()
	r.classes[c]++
	r.mu.Unlock()
}
func (r *Rec) ClassN(c string, n int64) {
	r.mu.Lock()
	r.classes[c] += n
	r.mu.Unlock()
}
func (r *Rec) Note(k, v string) { r.mu.Lock(); r.notes[k] = v; r.mu.Unlock() }
func (r *Rec) Exhaustive(part string, v bool) {
	r.mu.Lock()
	r.exhaust[part] = v
	r.mu.Unlock()
}

// Sample keeps v if fewer than the cap were kept (cheap, deterministic).
func (r *Rec) Sample(v interface{}) {
	r.mu.Lock()
	defer r.mu.Unlock()
	if len(r.samples) >= r.maxSample {
		return
	}
	b, err := json.Marshal(v)
	if err == nil {
		r.samples = append(r.samples, b)
	}
}

func (r *Rec) WantSample() bool {
	r.mu.Lock()
	defer r.mu.Unlock()
	return len(r.samples) < r.maxSample
}

// Known records a hit on a listed known finding.
func (r *Rec) Known(sig string) { r.mu.Lock(); r.known[sig]++; r.mu.Unlock() }

// Violate records a violation (kept: the last one, which under rapid is the
// shrunk case because rapid re-runs the minimal case last).
func (r *Rec) Violate(v Violation) {
	r.mu.Lock()
	defer r.mu.Unlock()
	v.Property = r.Property
	r.last = &v
	r.nviol++
}

func (r *Rec) Violated() bool { r.mu.Lock(); defer r.mu.Unlock(); return r.last != nil }

// Flush writes the fragment to $VERIF_STATS (a path prefix). No-op when unset.
func (r *Rec) Flush() {
	r.mu.Lock()
	defer r.mu.Unlock()
	prefix := os.Getenv("VERIF_STATS")
	if prefix == "" {
		return
	}
	_ = os.MkdirAll(filepath.Dir(prefix), 0o755)
	frag := map[string]interface{}{
		"property":    r.Property,
		"evaluations": r.evals,
		"nt_count":    len(r.nt),
		"classes":     r.classes,
		"samples":     r.samples,
		"known":       r.known,
		"notes":       r.notes,
		"exhaustive":  r.exhaust,
		"violations":  r.nviol,
	}
	if r.last != nil {
		frag["violation"] = r.last
	}
	b, _ := json.Marshal(frag)
	_ = os.WriteFile(prefix+".json", b, 0o644)
	f, err := os.Create(prefix + ".hashes")
	if err == nil {
		w := bufio.NewWriter(f)
		hs := make([]uint64, 0, len(r.nt))
		for h := range r.nt {
			hs = append(hs, h)
		}
		sort.Slice(hs, func(i, j int) bool { return hs[i] < hs[j] })
		var buf [8]byte
		for _, h := range hs {
			binary.LittleEndian.PutUint64(buf[:], h)
			w.Write(buf[:])
		}
		w.Flush()
		f.Close()
	}
}

// --- environment -----------------------------------------------------------

func Tier() string {
	if t := os.Getenv("VERIF_TIER"); t == "thorough" {
		return "thorough"
	}
	return "quick"
}

func Thorough() bool { return Tier() == "thorough" }

func envInt(k string, def int) int {
	if v, err := strconv.Atoi(os.Getenv(k)); err == nil {
		return v
	}
	return def
}

// Shard returns (index, count).
func Shard() (int, int) {
	n := envInt("VERIF_SHARDS", 1)
	if n < 1 {
		n = 1
	}
	i := envInt("VERIF_SHARD", 0)
	if i < 0 || i >= n {
		i = 0
	}
	return i, n
}

// Mine reports whether enumerated index i belongs to this shard.
func Mine(i int) bool {
	s, n := Shard()
	return i%n == s
}

// Scale picks a case count by tier.
func Scale(quick, thorough int) int {
	if Thorough() {
		return thorough
	}
	return quick
}

// --- known findings ----------------------------------------------------------

var (
	kfOnce sync.Once
	kf     []Finding
)

// KnownFindings parses $VERIF_ROOT/KNOWN_FINDINGS.txt. Lines:
//
//	finding: property=<ID> sig=<signature> :: <text>
//	fixed: property=<ID> <commit> <text>
func KnownFindings() []Finding {
	kfOnce.Do(func() {
		root := os.Getenv("VERIF_ROOT")
		if root == "" {
			root = "/verif"
		}
		b, err := os.ReadFile(filepath.Join(root, "KNOWN_FINDINGS.txt"))
		if err != nil {
			return
		}
		for _, ln := range strings.Split(string(b), "\n") {
			ln = strings.TrimSpace(ln)
			if !strings.HasPrefix(ln, "finding:") {
				continue
			}
			rest := strings.TrimSpace(strings.TrimPrefix(ln, "finding:"))
			var f Finding
			f.Kind = "finding"
			if i := strings.Index(rest, "::"); i >= 0 {
				f.Text = strings.TrimSpace(rest[i+2:])
				rest = rest[:i]
			}
			for _, tok := range strings.Fields(rest) {
				if strings.HasPrefix(tok, "property=") {
					f.Property = strings.TrimPrefix(tok, "property=")
				} else if strings.HasPrefix(tok, "sig=") {
					f.Signature = strings.TrimPrefix(tok, "sig=")
				}
			}
			if f.Property != "" && f.Signature != "" {
				kf = append(kf, f)
			}
		}
	})
	return kf
}

// IsKnown reports whether (property, signature) is a listed finding.
func IsKnown(property, sig string) bool {
	for _, f := range KnownFindings() {
		if f.Property == property && f.Signature == sig {
			return true
		}
	}
	return false
}

// Report is the common path of every oracle failure: a listed signature is
// counted and skipped (returns false), anything else is recorded as a
// violation (returns true — caller should fail the test case).
func (r *Rec) Report(oracle, sig, msg string, cas interface{}) bool {
	if IsKnown(r.Property, sig) {
		r.Known(sig)
		return false
	}
	b, err := json.Marshal(cas)
	if err != nil {
		b = []byte(fmt.Sprintf("%q", fmt.Sprint(cas)))
	}
	r.Violate(Violation{Oracle: oracle, Signature: sig, Message: msg, Case: b})
	if strings.HasPrefix(sig, "hang|") {
		// A call that does not return leaves its goroutine spinning in this process: shrinking would
		// pay the hang limit once per attempt and every later measurement is disturbed. The case that
		// hung is the reproduction; flush and leave.
		r.Flush()
		fmt.Printf("HANG recorded (%s); leaving the process\n", sig)
		os.Exit(1)
	}
	return true
}
