// dumpverdicts prints "<lint> <status> <details>" for the first object of a bundle (debug aid).
package main

import (
	"bufio"
	"encoding/json"
	"fmt"
	"os"
	"sort"

	"github.com/zmap/zlint/v3"

	"verifharness/engine"
	"verifharness/gen"
)

func main() {
	f, _ := os.Open(os.Args[1])
	sc := bufio.NewScanner(f)
	sc.Buffer(make([]byte, 1<<24), 1<<24)
	sc.Scan()
	var it engine.BundleItem
	json.Unmarshal(sc.Bytes(), &it)
	c, _ := gen.ParseCert(it.DER)
	rs := zlint.LintCertificate(c)
	var names []string
	for n := range rs.Results {
		names = append(names, n)
	}
	sort.Strings(names)
	for _, n := range names {
		fmt.Printf("%s %s %q\n", n, rs.Results[n].Status, rs.Results[n].Details)
	}
}
