// oneshot lints the objects of a bundle in a fresh process and prints one
// digest per object. Everything that touches the file system (reading the
// bundle, parsing, building registries and configurations) happens before the
// BEGIN marker; the digests are printed after the END marker, so a system-call
// trace of the marked window shows what linting itself does.
package main

import (
	"bufio"
	"encoding/json"
	"flag"
	"fmt"
	"os"
	"syscall"
	"time"

	"github.com/zmap/zcrypto/x509"
	"github.com/zmap/zlint/v3"
	"github.com/zmap/zlint/v3/lint"
	"golang.org/x/crypto/ocsp"

	"verifharness/engine"
	"verifharness/gen"
)

type prepared struct {
	id   string
	kind gen.Kind
	cert *x509.Certificate
	crl  *x509.RevocationList
	ocsp *ocsp.Response
	reg  lint.Registry
}

func main() {
	bundle := flag.String("bundle", "", "bundle file (JSON lines)")
	mark := flag.Bool("mark", false, "write BEGIN/END markers to fd 2 around the lint phase")
	reps := flag.Int("reps", 1, "lint every object this many times (digest of the last run is printed; differing runs are reported)")
	flag.Parse()
	// Parsing is not linting: Go's time.Parse maps a numeric zone offset onto the
	// process's local zone when it matches one (so "…-0500" parsed under
	// TZ=America/New_York yields a *Local* time whose AddDate crosses DST), i.e. the
	// environment reaches the *parser's* output. The parse phase therefore runs with a
	// neutral local zone; the real one (from TZ) is back in force for the lint phase.
	realLocal := time.Local
	time.Local = time.UTC
	f, err := os.Open(*bundle)
	if err != nil {
		fmt.Fprintln(os.Stderr, err)
		os.Exit(2)
	}
	var items []prepared
	sc := bufio.NewScanner(f)
	sc.Buffer(make([]byte, 1<<24), 1<<24)
	for sc.Scan() {
		var it engine.BundleItem
		if err := json.Unmarshal(sc.Bytes(), &it); err != nil {
			fmt.Fprintln(os.Stderr, "bad bundle line:", err)
			os.Exit(2)
		}
		p := prepared{id: it.ID, kind: it.Kind}
		ok := false
		switch it.Kind {
		case gen.Cert:
			p.cert, ok = gen.ParseCert(it.DER)
		case gen.CRL:
			p.crl, ok = gen.ParseCRL(it.DER)
		case gen.OCSP:
			p.ocsp, ok = gen.ParseOCSP(it.DER)
		}
		if !ok {
			continue
		}
		// registries: filters are applied to the global registry; a configuration
		// is set on the filtered registry (or a filtered copy of everything)
		reg, _, _, err := engine.BuildRegistry(it.Case)
		if err != nil {
			continue
		}
		p.reg = reg
		items = append(items, p)
	}
	f.Close()
	time.Local = realLocal
	// The Go runtime loads the local zone lazily (TZ, /etc/localtime) the first time a
	// Local time is inspected; with parsing pinned to UTC nothing has done so yet. Load
	// it now: it is process start-up of the runtime, not something linting does.
	_, _ = time.Now().Zone()
	out := make([]string, len(items))
	unstable := make([]bool, len(items))
	if *mark {
		syscall.Write(2, []byte("VERIF-MARK-BEGIN\n"))
	}
	for r := 0; r < *reps; r++ {
		for i, p := range items {
			var rs *zlint.ResultSet
			switch p.kind {
			case gen.Cert:
				rs = zlint.LintCertificateEx(p.cert, p.reg)
			case gen.CRL:
				rs = zlint.LintRevocationListEx(p.crl, p.reg)
			case gen.OCSP:
				rs = zlint.LintOcspResponseEx(p.ocsp, p.reg)
			}
			d := engine.Digest(rs)
			if r > 0 && out[i] != d {
				unstable[i] = true
			}
			out[i] = d
		}
	}
	if *mark {
		syscall.Write(2, []byte("VERIF-MARK-END\n"))
	}
	w := bufio.NewWriter(os.Stdout)
	for i, p := range items {
		fmt.Fprintf(w, "%s %s %v\n", p.id, out[i], unstable[i])
	}
	w.Flush()
}
