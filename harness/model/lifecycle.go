// Package model holds the reference models the oracles compare zlint with.
// Everything here is written from the property statements over public API and
// parsed fields; nothing calls zlint's own scope / window helpers.
package model

import (
	"fmt"
	"runtime/debug"
	"strings"
	"time"

	"github.com/zmap/zcrypto/x509"
	"github.com/zmap/zlint/v3/lint"
	"golang.org/x/crypto/ocsp"
)

// Verdict is what a caller sees of one lint result.
type Verdict struct {
	Status  lint.LintStatus `json:"status"`
	Details string          `json:"details,omitempty"`
}

func (v Verdict) String() string { return fmt.Sprintf("%s/%q", v.Status.String(), v.Details) }

// Window is the half-open, instant-exact window of property C03, decided on
// integer Unix seconds + nanoseconds (no time.Time comparison helpers).
func Window(eff, ineff, t time.Time) bool {
	cmp := func(a, b time.Time) int {
		as, bs := a.Unix(), b.Unix()
		if as != bs {
			if as < bs {
				return -1
			}
			return 1
		}
		an, bn := a.Nanosecond(), b.Nanosecond()
		if an != bn {
			if an < bn {
				return -1
			}
			return 1
		}
		return 0
	}
	if !eff.IsZero() && cmp(t, eff) < 0 {
		return false
	}
	if !ineff.IsZero() && cmp(t, ineff) >= 0 {
		return false
	}
	return true
}

func oidIs(o []int, arcs ...int) bool {
	if len(o) != len(arcs) {
		return false
	}
	for i := range o {
		if o[i] != arcs[i] {
			return false
		}
	}
	return true
}

func noEKU(c *x509.Certificate) bool {
	return len(c.ExtKeyUsage) == 0 && len(c.UnknownExtKeyUsage) == 0
}

func hasEKU(c *x509.Certificate, want ...x509.ExtKeyUsage) bool {
	for _, e := range c.ExtKeyUsage {
		for _, w := range want {
			if e == w {
				return true
			}
		}
	}
	return false
}

// ServerAuthScope: TLS BR scope per the statement of C04.
func ServerAuthScope(c *x509.Certificate) bool {
	if noEKU(c) || hasEKU(c, x509.ExtKeyUsageAny, x509.ExtKeyUsageServerAuth) {
		return true
	}
	for _, p := range c.PolicyIdentifiers {
		if oidIs(p, 2, 23, 140, 1, 1) || oidIs(p, 2, 23, 140, 1, 2, 1) || oidIs(p, 2, 23, 140, 1, 2, 2) || oidIs(p, 2, 23, 140, 1, 2, 3) {
			return true
		}
	}
	return false
}

// EmailScope: S/MIME BR scope.
func EmailScope(c *x509.Certificate) bool {
	emailSAN := false
	for _, e := range c.EmailAddresses {
		if e != "" {
			emailSAN = true
		}
	}
	for _, on := range c.OtherNames {
		if oidIs(on.TypeID, 1, 3, 6, 1, 5, 5, 7, 8, 9) && len(on.Value.Bytes) != 0 {
			emailSAN = true
		}
	}
	if emailSAN && (noEKU(c) || hasEKU(c, x509.ExtKeyUsageAny, x509.ExtKeyUsageEmailProtection)) {
		return true
	}
	for _, p := range c.PolicyIdentifiers {
		if len(p) == 7 && oidIs(p[:5], 2, 23, 140, 1, 5) && p[5] >= 1 && p[5] <= 4 && p[6] >= 1 && p[6] <= 3 {
			return true
		}
	}
	return false
}

// CodeSigningScope: code-signing BR scope.
func CodeSigningScope(c *x509.Certificate) bool {
	for _, p := range c.PolicyIdentifiers {
		if oidIs(p, 2, 23, 140, 1, 3) || oidIs(p, 2, 23, 140, 1, 4, 1) {
			return true
		}
	}
	return false
}

// InScope applies the source gate model (certificate lints only).
func InScope(src lint.LintSource, c *x509.Certificate) bool {
	switch string(src) {
	case "CABF_BR":
		return ServerAuthScope(c)
	case "CABF_SMIME_BR":
		return EmailScope(c)
	case "CABF_CS_BR":
		return CodeSigningScope(c)
	}
	return true
}

// Stage says how far the reference lifecycle got.
type Stage int

const (
	StOutOfScope Stage = iota
	StConfigErr
	StNotApplicable
	StNotEffective
	StExecuted
	StPanicked // body (or applicability test / constructor) panicked
)

func (s Stage) String() string {
	return [...]string{"out-of-scope", "config-error", "not-applicable", "not-effective", "executed", "panicked"}[s]
}

// Expected is the outcome the property statements demand.
type Expected struct {
	Stage    Stage
	V        Verdict
	NilRes   bool   // body returned nil
	PanicVal string // when Stage == StPanicked
	Stack    string
}

const PanicMarker = "panicked. Error:"

func protect(f func()) (panicked bool, val, stack string) {
	defer func() {
		if r := recover(); r != nil {
			panicked, val, stack = true, fmt.Sprint(r), string(debug.Stack())
		}
	}()
	f()
	return
}

// TopZlintFrame extracts the first zlint frame "file.go:line" from a stack.
func TopZlintFrame(stack string) string {
	lines := strings.Split(stack, "\n")
	for _, l := range lines {
		l = strings.TrimSpace(l)
		if i := strings.Index(l, "/v3/"); i >= 0 && strings.Contains(l, ".go:") && !strings.Contains(l, "verif") {
			rest := l[i+4:]
			if strings.HasPrefix(rest, "lints/") || strings.HasPrefix(rest, "util/") || strings.HasPrefix(rest, "lint/") {
				if j := strings.Index(rest, " "); j >= 0 {
					rest = rest[:j]
				}
				return rest
			}
		}
	}
	return "?"
}

// ExpectCert runs the reference lifecycle of one certificate lint.
func ExpectCert(l *lint.CertificateLint, c *x509.Certificate, cfg lint.Configuration) (e Expected) {
	if !InScope(l.Source, c) {
		return Expected{Stage: StOutOfScope, V: Verdict{Status: lint.NA}}
	}
	p, val, stack := protect(func() {
		inst := l.Lint()
		if err := cfg.MaybeConfigure(inst, l.Name); err != nil {
			e = Expected{Stage: StConfigErr, V: Verdict{lint.Fatal, err.Error()}}
			return
		}
		if !inst.CheckApplies(c) {
			e = Expected{Stage: StNotApplicable, V: Verdict{Status: lint.NA}}
			return
		}
		if !Window(l.EffectiveDate, l.IneffectiveDate, c.NotBefore) {
			e = Expected{Stage: StNotEffective, V: Verdict{Status: lint.NE}}
			return
		}
		r := inst.Execute(c)
		if r == nil {
			e = Expected{Stage: StExecuted, NilRes: true}
			return
		}
		e = Expected{Stage: StExecuted, V: Verdict{r.Status, r.Details}}
	})
	if p {
		return Expected{Stage: StPanicked, PanicVal: val, Stack: stack,
			V: Verdict{lint.Fatal, fmt.Sprintf("'%s' panicked. Error: %v", l.Name, val)}}
	}
	return e
}

func ExpectCRL(l *lint.RevocationListLint, r *x509.RevocationList, cfg lint.Configuration) (e Expected) {
	p, val, stack := protect(func() {
		inst := l.Lint()
		if err := cfg.MaybeConfigure(inst, l.Name); err != nil {
			e = Expected{Stage: StConfigErr, V: Verdict{lint.Fatal, err.Error()}}
			return
		}
		if !inst.CheckApplies(r) {
			e = Expected{Stage: StNotApplicable, V: Verdict{Status: lint.NA}}
			return
		}
		if !Window(l.EffectiveDate, l.IneffectiveDate, r.ThisUpdate) {
			e = Expected{Stage: StNotEffective, V: Verdict{Status: lint.NE}}
			return
		}
		res := inst.Execute(r)
		if res == nil {
			e = Expected{Stage: StExecuted, NilRes: true}
			return
		}
		e = Expected{Stage: StExecuted, V: Verdict{res.Status, res.Details}}
	})
	if p {
		return Expected{Stage: StPanicked, PanicVal: val, Stack: stack}
	}
	return e
}

func ExpectOCSP(l *lint.OcspResponseLint, o *ocsp.Response, cfg lint.Configuration) (e Expected) {
	p, val, stack := protect(func() {
		inst := l.Lint()
		if err := cfg.MaybeConfigure(inst, l.Name); err != nil {
			e = Expected{Stage: StConfigErr, V: Verdict{lint.Fatal, err.Error()}}
			return
		}
		if !inst.CheckApplies(o) {
			e = Expected{Stage: StNotApplicable, V: Verdict{Status: lint.NA}}
			return
		}
		if !Window(l.EffectiveDate, l.IneffectiveDate, o.NextUpdate) {
			e = Expected{Stage: StNotEffective, V: Verdict{Status: lint.NE}}
			return
		}
		res := inst.Execute(o)
		if res == nil {
			e = Expected{Stage: StExecuted, NilRes: true}
			return
		}
		e = Expected{Stage: StExecuted, V: Verdict{res.Status, res.Details}}
	})
	if p {
		return Expected{Stage: StPanicked, PanicVal: val, Stack: stack}
	}
	return e
}
