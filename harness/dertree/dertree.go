// Package dertree is a small, lossless DER TLV tree: parse, edit, re-encode.
// Lengths are recomputed on encoding, so any structural edit yields well-formed
// TLV framing. OCTET STRING / BIT STRING contents that are themselves complete
// DER are descended into ("wrapped") so extension values and SPKI keys are
// editable too.
package dertree

import (
	"errors"
)

// Node is one TLV.
type Node struct {
	Class       byte // 0 universal, 1 application, 2 context, 3 private
	Constructed bool
	Tag         uint32
	Content     []byte  // primitive content (when Children == nil && !Wrapped)
	Children    []*Node // constructed children, or the wrapped inner value(s)
	Wrapped     bool    // primitive OCTET/BIT STRING whose content is Children re-encoded
	UnusedBits  byte    // for wrapped BIT STRING: leading unused-bits octet
}

var errTrunc = errors.New("dertree: truncated")

// Parse parses exactly one TLV spanning all of b.
func Parse(b []byte) (*Node, error) {
	n, rest, err := parseOne(b, 0)
	if err != nil {
		return nil, err
	}
	if len(rest) != 0 {
		return nil, errors.New("dertree: trailing data")
	}
	return n, nil
}

// ParseAll parses a concatenation of TLVs.
func ParseAll(b []byte, depth int) ([]*Node, error) {
	var out []*Node
	for len(b) > 0 {
		n, rest, err := parseOne(b, depth)
		if err != nil {
			return nil, err
		}
		out = append(out, n)
		b = rest
	}
	return out, nil
}

func parseOne(b []byte, depth int) (*Node, []byte, error) {
	if depth > 40 {
		return nil, nil, errors.New("dertree: too deep")
	}
	if len(b) < 2 {
		return nil, nil, errTrunc
	}
	n := &Node{Class: b[0] >> 6, Constructed: b[0]&0x20 != 0, Tag: uint32(b[0] & 0x1f)}
	i := 1
	if n.Tag == 0x1f {
		n.Tag = 0
		for {
			if i >= len(b) {
				return nil, nil, errTrunc
			}
			c := b[i]
			i++
			if n.Tag > 1<<24 {
				return nil, nil, errors.New("dertree: tag too large")
			}
			n.Tag = n.Tag<<7 | uint32(c&0x7f)
			if c&0x80 == 0 {
				break
			}
		}
		if n.Tag < 0x1f {
			return nil, nil, errors.New("dertree: non-minimal tag")
		}
	}
	if i >= len(b) {
		return nil, nil, errTrunc
	}
	l := int(b[i])
	i++
	if l&0x80 != 0 {
		nb := l & 0x7f
		if nb == 0 || nb > 4 || i+nb > len(b) {
			return nil, nil, errors.New("dertree: bad length")
		}
		l = 0
		if b[i] == 0 {
			return nil, nil, errors.New("dertree: non-minimal length")
		}
		for k := 0; k < nb; k++ {
			l = l<<8 | int(b[i+k])
		}
		i += nb
		if l < 0x80 {
			return nil, nil, errors.New("dertree: non-minimal length")
		}
	}
	if l < 0 || i+l > len(b) {
		return nil, nil, errTrunc
	}
	content := b[i : i+l]
	rest := b[i+l:]
	if n.Constructed {
		ch, err := ParseAll(content, depth+1)
		if err != nil {
			return nil, nil, err
		}
		n.Children = ch
		if ch == nil {
			n.Children = []*Node{}
		}
		return n, rest, nil
	}
	n.Content = append([]byte(nil), content...)
	// Try to descend into OCTET STRING / BIT STRING.
	if n.Class == 0 && n.Tag == 4 && len(content) >= 2 {
		if ch, err := ParseAll(content, depth+1); err == nil && len(ch) == 1 && plausible(ch[0]) {
			n.Wrapped, n.Children, n.Content = true, ch, nil
		}
	} else if n.Class == 0 && n.Tag == 3 && len(content) >= 3 && content[0] == 0 {
		if ch, err := ParseAll(content[1:], depth+1); err == nil && len(ch) == 1 && plausible(ch[0]) && ch[0].Constructed {
			n.Wrapped, n.Children, n.Content, n.UnusedBits = true, ch, nil, 0
		}
	}
	return n, rest, nil
}

// plausible rejects accidental parses of random bytes (e.g. a key identifier
// that happens to look like a TLV): only universal tags in the usual range and
// context tags are taken as structure.
func plausible(n *Node) bool {
	if n.Class == 0 {
		return n.Tag >= 1 && n.Tag <= 30 && (n.Constructed == (n.Tag == 16 || n.Tag == 17) || n.Wrapped)
	}
	return n.Class == 2 && n.Tag < 16
}

// Encode re-encodes the tree.
func (n *Node) Encode() []byte {
	return n.appendTo(nil)
}

// Body returns the content octets as they will be encoded.
func (n *Node) Body() []byte { return n.body() }

func (n *Node) body() []byte {
	if n.Children != nil && (n.Constructed || n.Wrapped) {
		var body []byte
		if n.Wrapped && n.Class == 0 && n.Tag == 3 {
			body = append(body, n.UnusedBits)
		}
		for _, c := range n.Children {
			body = c.appendTo(body)
		}
		return body
	}
	return n.Content
}

func (n *Node) appendTo(out []byte) []byte {
	body := n.body()
	first := n.Class << 6
	if n.Constructed {
		first |= 0x20
	}
	if n.Tag < 0x1f {
		out = append(out, first|byte(n.Tag))
	} else {
		out = append(out, first|0x1f)
		var tmp []byte
		t := n.Tag
		for {
			tmp = append([]byte{byte(t & 0x7f)}, tmp...)
			t >>= 7
			if t == 0 {
				break
			}
		}
		for i := range tmp {
			if i != len(tmp)-1 {
				tmp[i] |= 0x80
			}
		}
		out = append(out, tmp...)
	}
	l := len(body)
	switch {
	case l < 0x80:
		out = append(out, byte(l))
	case l < 0x100:
		out = append(out, 0x81, byte(l))
	case l < 0x10000:
		out = append(out, 0x82, byte(l>>8), byte(l))
	case l < 0x1000000:
		out = append(out, 0x83, byte(l>>16), byte(l>>8), byte(l))
	default:
		out = append(out, 0x84, byte(l>>24), byte(l>>16), byte(l>>8), byte(l))
	}
	return append(out, body...)
}

// Clone deep-copies the tree.
func (n *Node) Clone() *Node {
	if n == nil {
		return nil
	}
	c := *n
	if n.Content != nil {
		c.Content = append([]byte(nil), n.Content...)
	}
	if n.Children != nil {
		c.Children = make([]*Node, len(n.Children))
		for i, ch := range n.Children {
			c.Children[i] = ch.Clone()
		}
	}
	return &c
}

// IsLeaf reports whether n carries raw content (no children).
func (n *Node) IsLeaf() bool { return !n.Constructed && !n.Wrapped }

// Walk visits every node depth-first (parents before children).
func (n *Node) Walk(f func(n *Node, parent *Node, idx int)) {
	var rec func(n, p *Node, idx int)
	rec = func(n, p *Node, idx int) {
		f(n, p, idx)
		for i, c := range n.Children {
			rec(c, n, i)
		}
	}
	rec(n, nil, 0)
}

// Leaves returns all leaf nodes in document order.
func (n *Node) Leaves() []*Node {
	var out []*Node
	n.Walk(func(x, _ *Node, _ int) {
		if x.IsLeaf() {
			out = append(out, x)
		}
	})
	return out
}

// Inner returns all nodes that have children (constructed or wrapped).
func (n *Node) Inner() []*Node {
	var out []*Node
	n.Walk(func(x, _ *Node, _ int) {
		if !x.IsLeaf() {
			out = append(out, x)
		}
	})
	return out
}

// Helpers to build nodes.

func Prim(class byte, tag uint32, content []byte) *Node {
	if content == nil {
		content = []byte{}
	}
	return &Node{Class: class, Tag: tag, Content: content}
}

func Cons(class byte, tag uint32, children ...*Node) *Node {
	if children == nil {
		children = []*Node{}
	}
	return &Node{Class: class, Constructed: true, Tag: tag, Children: children}
}

func Seq(children ...*Node) *Node { return Cons(0, 16, children...) }
func Set(children ...*Node) *Node { return Cons(0, 17, children...) }

// OctetWrap returns an OCTET STRING wrapping inner.
func OctetWrap(inner *Node) *Node {
	return &Node{Class: 0, Tag: 4, Wrapped: true, Children: []*Node{inner}}
}

// BitWrap returns a BIT STRING (0 unused bits) wrapping inner.
func BitWrap(inner *Node) *Node {
	return &Node{Class: 0, Tag: 3, Wrapped: true, Children: []*Node{inner}}
}

// Raw parses b as one TLV, panicking on error (for builder constants).
func Raw(b []byte) *Node {
	n, err := Parse(b)
	if err != nil {
		panic(err)
	}
	return n
}

// OID encodes a dotted OID given as ints.
func OID(arcs ...int) *Node {
	if len(arcs) < 2 {
		return Prim(0, 6, nil)
	}
	var b []byte
	b = appendBase128(b, arcs[0]*40+arcs[1])
	for _, a := range arcs[2:] {
		b = appendBase128(b, a)
	}
	return Prim(0, 6, b)
}

func appendBase128(b []byte, v int) []byte {
	var tmp []byte
	for {
		tmp = append([]byte{byte(v & 0x7f)}, tmp...)
		v >>= 7
		if v == 0 {
			break
		}
	}
	for i := range tmp {
		if i != len(tmp)-1 {
			tmp[i] |= 0x80
		}
	}
	return append(b, tmp...)
}

// DecodeOID returns the arcs of an OID content, or nil.
func DecodeOID(b []byte) []int {
	if len(b) == 0 {
		return nil
	}
	var arcs []int
	v := 0
	first := true
	for i, c := range b {
		if v > 1<<24 {
			return nil
		}
		v = v<<7 | int(c&0x7f)
		if c&0x80 == 0 {
			if first {
				if v < 80 {
					arcs = append(arcs, v/40, v%40)
				} else {
					arcs = append(arcs, 2, v-80)
				}
				first = false
			} else {
				arcs = append(arcs, v)
			}
			v = 0
		} else if i == len(b)-1 {
			return nil
		}
	}
	return arcs
}

// OIDEquals compares an OID node with arcs.
func (n *Node) OIDEquals(arcs ...int) bool {
	if n == nil || n.Class != 0 || n.Tag != 6 || !n.IsLeaf() {
		return false
	}
	got := DecodeOID(n.Content)
	if len(got) != len(arcs) {
		return false
	}
	for i := range got {
		if got[i] != arcs[i] {
			return false
		}
	}
	return true
}
