package mockreg

import (
	"os"
	"testing"
	"time"
)

// The harness itself is environment-neutral: Go's time.Parse maps numeric zone
// offsets onto the process's local zone when they match, so the *parser's*
// output would otherwise depend on TZ of whoever runs the checks.
func TestMain(m *testing.M) {
	time.Local = time.UTC
	os.Exit(m.Run())
}
