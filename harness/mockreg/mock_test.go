// Package mockreg is a test binary of its own: besides zlint's real lints its
// global registry holds instrumented mock lints registered through the public
// Register* API (the only way custom lints can enter a registry). It serves the
// "any lint metadata / any mix of statuses / call order" parts of C01, C03, C04.
package mockreg

import (
	"bytes"
	"encoding/json"
	"flag"
	"fmt"
	"os"
	"reflect"
	"sort"
	"strconv"
	"strings"
	"sync"
	"testing"
	"time"

	"github.com/zmap/zcrypto/x509"
	"github.com/zmap/zlint/v3"
	"github.com/zmap/zlint/v3/lint"
	"golang.org/x/crypto/ocsp"
	"pgregory.net/rapid"

	"verifharness/gen"
	"verifharness/model"
	"verifharness/stats"

	dt "verifharness/dertree"
)

var allSources = []lint.LintSource{lint.RFC3279, lint.RFC5280, lint.RFC5480, lint.RFC5891, lint.RFC6960, lint.RFC6962, lint.RFC8813, lint.CABFBaselineRequirements,
	lint.CABFCSBaselineRequirements, lint.CABFSMIMEBaselineRequirements, lint.CABFEVGuidelines, lint.MozillaRootStorePolicy, lint.AppleRootStorePolicy, lint.Community, lint.EtsiEsi}

// script of one mock for the current case
type script struct {
	Applies bool   `json:"applies"`
	Outcome int    `json:"outcome"`            // 1..7 status; -1 panic in Execute
	PanicAt string `json:"panic_at,omitempty"` // "new" | "Configure" | "CheckApplies": panic there instead
	Details string `json:"details,omitempty"`
}

var (
	mu      sync.Mutex
	scripts = map[string]script{}
	calls   []string // "<name>#<instance>:<method>"
	nextID  int
)

func logCall(name string, id int, method string) {
	mu.Lock()
	calls = append(calls, fmt.Sprintf("%s#%d:%s", name, id, method))
	mu.Unlock()
}

func newID(name string) int {
	mu.Lock()
	nextID++
	id := nextID
	calls = append(calls, fmt.Sprintf("%s#%d:new", name, id))
	p := scripts[name].PanicAt == "new"
	mu.Unlock()
	if p {
		panic("verif mock panic in constructor")
	}
	return id
}

func getScript(name string) script {
	mu.Lock()
	defer mu.Unlock()
	return scripts[name]
}

// mockCfg is what a configurable mock is configured with: a scalar and two reference-typed fields. The mock
// reports what it was handed and then does to ITS OWN configuration what a rule body may do to it (filter and
// sort in place): every instance is owed a freshly decoded configuration.
type mockCfg struct {
	Level int
	List  []string
	Nums  []int
	// references to the higher scoped sections, in both supported styles (by value and through a pointer), so that
	// every run resolves the same section for fields of both styles, within one lint and across lints
	Global  lint.Global                          `json:"-"`
	GlobalP *lint.Global                         `json:"-"`
	RFC     *lint.RFC5280Config                  `json:"-"`
	BR      lint.CABFBaselineRequirementsConfig  `json:"-"`
	BRP     *lint.CABFBaselineRequirementsConfig `json:"-"`
}

var cfgSeen = map[string][]string{}

func (m *mockBase) seeCfg(c *mockCfg) {
	mu.Lock()
	cfgSeen[m.name] = append(cfgSeen[m.name], fmt.Sprintf("%d|%s|%v", c.Level, strings.Join(c.List, ","), c.Nums))
	mu.Unlock()
	for i := range c.List {
		c.List[i] = "overwritten"
	}
	c.List = c.List[:0]
	sort.Sort(sort.Reverse(sort.IntSlice(c.Nums)))
	for i := range c.Nums {
		c.Nums[i] = -c.Nums[i] - 1
	}
}

type mockBase struct {
	name string
	id   int
}

func (m *mockBase) result() *lint.LintResult {
	s := getScript(m.name)
	logCall(m.name, m.id, "Execute")
	if s.Outcome < 0 {
		panic("verif mock panic")
	}
	return &lint.LintResult{Status: lint.LintStatus(s.Outcome), Details: s.Details}
}

func (m *mockBase) applies() bool {
	logCall(m.name, m.id, "CheckApplies")
	if getScript(m.name).PanicAt == "CheckApplies" {
		panic("verif mock panic in CheckApplies")
	}
	return getScript(m.name).Applies
}

func (m *mockBase) configure() {
	logCall(m.name, m.id, "Configure")
	if getScript(m.name).PanicAt == "Configure" {
		panic("verif mock panic in Configure")
	}
}

type mockCert struct{ mockBase }

func (m *mockCert) CheckApplies(c *x509.Certificate) bool        { return m.applies() }
func (m *mockCert) Execute(c *x509.Certificate) *lint.LintResult { return m.result() }

type mockCertCfg struct {
	mockBase
	cfg mockCfg
}

func (m *mockCertCfg) Configure() interface{}                       { m.configure(); return &m.cfg }
func (m *mockCertCfg) CheckApplies(c *x509.Certificate) bool        { m.seeCfg(&m.cfg); return m.applies() }
func (m *mockCertCfg) Execute(c *x509.Certificate) *lint.LintResult { return m.result() }

type mockCRL struct{ mockBase }

func (m *mockCRL) CheckApplies(c *x509.RevocationList) bool        { return m.applies() }
func (m *mockCRL) Execute(c *x509.RevocationList) *lint.LintResult { return m.result() }

type mockCRLCfg struct {
	mockBase
	cfg mockCfg
}

func (m *mockCRLCfg) Configure() interface{}                          { m.configure(); return &m.cfg }
func (m *mockCRLCfg) CheckApplies(c *x509.RevocationList) bool        { m.seeCfg(&m.cfg); return m.applies() }
func (m *mockCRLCfg) Execute(c *x509.RevocationList) *lint.LintResult { return m.result() }

type mockOCSP struct{ mockBase }

func (m *mockOCSP) CheckApplies(c *ocsp.Response) bool        { return m.applies() }
func (m *mockOCSP) Execute(c *ocsp.Response) *lint.LintResult { return m.result() }

type mockOCSPCfg struct {
	mockBase
	cfg mockCfg
}

func (m *mockOCSPCfg) Configure() interface{}                    { m.configure(); return &m.cfg }
func (m *mockOCSPCfg) CheckApplies(c *ocsp.Response) bool        { m.seeCfg(&m.cfg); return m.applies() }
func (m *mockOCSPCfg) Execute(c *ocsp.Response) *lint.LintResult { return m.result() }

type mockInfo struct {
	Name         string
	Kind         gen.Kind
	Source       lint.LintSource
	Configurable bool
	cert         *lint.CertificateLint
	crl          *lint.RevocationListLint
	ocsp         *lint.OcspResponseLint
}

func (m *mockInfo) meta() *lint.LintMetadata {
	switch m.Kind {
	case gen.Cert:
		return &m.cert.LintMetadata
	case gen.CRL:
		return &m.crl.LintMetadata
	}
	return &m.ocsp.LintMetadata
}

var mocks []*mockInfo

// depLints: one long-lived value of the deprecated lint.Lint type per certificate mock. Its window fields are
// rewritten in place for every case (the Name never changes) and a by-value copy gets other dates still: a
// history of uses on the deprecated API, each of which must honour the dates the value holds at that moment.
var depLints = map[string]*lint.Lint{}

func init() {
	pfx := []string{"e_", "w_", "n_"}
	for si, src := range allSources {
		for _, cfgable := range []bool{false, true} {
			sfx := "plain"
			if cfgable {
				sfx = "cfg"
			}
			base := pfx[si%3] + "verif_mock_"
			s := strings.ToLower(string(src))
			// certificate
			{
				name := base + "cert_" + s + "_" + sfx
				mi := &mockInfo{Name: name, Kind: gen.Cert, Source: src, Configurable: cfgable}
				n, c := name, cfgable
				mi.cert = &lint.CertificateLint{LintMetadata: lint.LintMetadata{Name: name, Description: "verif mock", Citation: "verif", Source: src},
					Lint: func() lint.CertificateLintInterface {
						if c {
							return &mockCertCfg{mockBase: mockBase{n, newID(n)}}
						}
						return &mockCert{mockBase{n, newID(n)}}
					}}
				lint.RegisterCertificateLint(mi.cert)
				mocks = append(mocks, mi)
			}
			{
				name := base + "crl_" + s + "_" + sfx
				mi := &mockInfo{Name: name, Kind: gen.CRL, Source: src, Configurable: cfgable}
				n, c := name, cfgable
				mi.crl = &lint.RevocationListLint{LintMetadata: lint.LintMetadata{Name: name, Description: "verif mock", Citation: "verif", Source: src},
					Lint: func() lint.RevocationListLintInterface {
						if c {
							return &mockCRLCfg{mockBase: mockBase{n, newID(n)}}
						}
						return &mockCRL{mockBase{n, newID(n)}}
					}}
				lint.RegisterRevocationListLint(mi.crl)
				mocks = append(mocks, mi)
			}
			{
				name := base + "ocsp_" + s + "_" + sfx
				mi := &mockInfo{Name: name, Kind: gen.OCSP, Source: src, Configurable: cfgable}
				n, c := name, cfgable
				mi.ocsp = &lint.OcspResponseLint{LintMetadata: lint.LintMetadata{Name: name, Description: "verif mock", Citation: "verif", Source: src},
					Lint: func() lint.OcspResponseLintInterface {
						if c {
							return &mockOCSPCfg{mockBase: mockBase{n, newID(n)}}
						}
						return &mockOCSP{mockBase{n, newID(n)}}
					}}
				lint.RegisterOcspResponseLint(mi.ocsp)
				mocks = append(mocks, mi)
			}
		}
	}
	// the registration above constructed instances (Register calls Lint() once): forget them
	calls, nextID = nil, 0
}

// ---- case -------------------------------------------------------------------

type mockSetup struct {
	Name      string `json:"name"`
	Script    script `json:"script"`
	EffUnix   *int64 `json:"eff_unix,omitempty"` // nil = zero time
	EffNano   int    `json:"eff_nano,omitempty"`
	IneffUnix *int64 `json:"ineff_unix,omitempty"`
	IneffNano int    `json:"ineff_nano,omitempty"`
	Zone      int    `json:"zone_s,omitempty"`
	BadConfig bool   `json:"bad_config,omitempty"` // ill-typed section for this (configurable) mock
	BadShape  int    `json:"bad_shape,omitempty"`  // which ill-typed shape (0 scalar, 1 array, 2 array of tables, 3 wrong field type, 4 string)
	// CfgVals, when set (configurable mocks, no BadConfig): a well-typed section with these values
	CfgVals *mockCfg `json:"cfg_vals,omitempty"`
}

type mockCase struct {
	Kind  gen.Kind    `json:"kind"`
	DER   []byte      `json:"der"`
	Base  string      `json:"base,omitempty"`
	Mocks []mockSetup `json:"mocks"`
}

func byName(n string) *mockInfo {
	for _, m := range mocks {
		if m.Name == n {
			return m
		}
	}
	return nil
}

func mkTime(u *int64, nano, zone int) time.Time {
	if u == nil {
		return time.Time{}
	}
	return time.Unix(*u, int64(nano)).In(time.FixedZone("z", zone))
}

type verdict struct {
	status  lint.LintStatus
	details string
}

// judge runs the case and checks the oracles selected by prop ("C01", "C03", "C04").
func judge(rec *stats.Rec, c mockCase, prop string) (string, string) {
	var cert *x509.Certificate
	var crl *x509.RevocationList
	var resp *ocsp.Response
	var date time.Time
	ok := false
	switch c.Kind {
	case gen.Cert:
		if cert, ok = gen.ParseCert(c.DER); ok {
			date = cert.NotBefore
		}
	case gen.CRL:
		if crl, ok = gen.ParseCRL(c.DER); ok {
			date = crl.ThisUpdate
		}
	case gen.OCSP:
		if resp, ok = gen.ParseOCSP(c.DER); ok {
			date = resp.NextUpdate
		}
	}
	if !ok {
		rec.Class("parse_rejected")
		return "", ""
	}
	var names []string
	cfgDoc, sections := "", ""
	mu.Lock()
	scripts = map[string]script{}
	mu.Unlock()
	saved := map[string]lint.LintMetadata{}
	for _, ms := range c.Mocks {
		mi := byName(ms.Name)
		if mi == nil || mi.Kind != c.Kind {
			continue
		}
		names = append(names, ms.Name)
		m := mi.meta()
		saved[ms.Name] = *m
		m.EffectiveDate = mkTime(ms.EffUnix, ms.EffNano, ms.Zone)
		m.IneffectiveDate = mkTime(ms.IneffUnix, ms.IneffNano, -ms.Zone)
		if ms.BadConfig && mi.Configurable {
			switch ms.BadShape {
			case 1:
				cfgDoc += fmt.Sprintf("%s = [1, 2]\n", ms.Name)
			case 2:
				sections += fmt.Sprintf("[[%s]]\nLevel = 1\n", ms.Name)
			case 3:
				sections += fmt.Sprintf("[%s]\nLevel = \"high\"\n", ms.Name)
			case 4:
				cfgDoc += fmt.Sprintf("%s = \"on\"\n", ms.Name)
			default:
				cfgDoc += fmt.Sprintf("%s = 7\n", ms.Name)
			}
		} else if mi.Configurable && ms.CfgVals != nil {
			ls := make([]string, len(ms.CfgVals.List))
			for i, x := range ms.CfgVals.List {
				ls[i] = fmt.Sprintf("%q", x)
			}
			ns := make([]string, len(ms.CfgVals.Nums))
			for i, x := range ms.CfgVals.Nums {
				ns[i] = fmt.Sprint(x)
			}
			sections += fmt.Sprintf("[%s]\nLevel = %d\nList = [%s]\nNums = [%s]\n", ms.Name, ms.CfgVals.Level, strings.Join(ls, ", "), strings.Join(ns, ", "))
		}
	}
	defer func() {
		for n, m := range saved {
			*byName(n).meta() = m
		}
	}()
	if len(names) == 0 {
		return "", ""
	}
	reg, err := lint.GlobalRegistry().Filter(lint.FilterOptions{IncludeNames: names})
	if err != nil {
		return "", ""
	}
	cfg, err := lint.NewConfigFromString(cfgDoc + sections)
	if err != nil {
		return "", ""
	}
	reg.SetConfiguration(cfg)
	// scripts become active only now: Filter itself calls every constructor once
	mu.Lock()
	for _, ms := range c.Mocks {
		if mi := byName(ms.Name); mi != nil && mi.Kind == c.Kind {
			scripts[ms.Name] = ms.Script
		}
	}
	calls = nil
	cfgSeen = map[string][]string{}
	mu.Unlock()
	var rs *zlint.ResultSet
	panicked := ""
	lintOnce := func() {
		defer func() {
			if r := recover(); r != nil {
				panicked = fmt.Sprint(r)
			}
		}()
		switch c.Kind {
		case gen.Cert:
			rs = zlint.LintCertificateEx(cert, reg)
		case gen.CRL:
			rs = zlint.LintRevocationListEx(crl, reg)
		case gen.OCSP:
			rs = zlint.LintOcspResponseEx(resp, reg)
		}
	}
	lintOnce()
	mu.Lock()
	log := append([]string{}, calls...)
	seen1 := map[string][]string{}
	for k, v := range cfgSeen {
		seen1[k] = append([]string{}, v...)
	}
	mu.Unlock()
	rs1, panicked1 := rs, panicked
	// the same object again, through the same registry and configuration: a fresh instance, freshly
	// configured - whatever the first instance did to its own configuration
	if (prop == "C04" || prop == "C11") && panicked1 == "" {
		mu.Lock()
		calls = nil
		cfgSeen = map[string][]string{}
		mu.Unlock()
		rs, panicked = nil, ""
		lintOnce()
		mu.Lock()
		seen2 := cfgSeen
		cfgSeen = map[string][]string{}
		mu.Unlock()
		if panicked != "" {
			return "second-run-panic|" + string(c.Kind), "the second run on the same registry panicked: " + panicked
		}
		for _, ms := range c.Mocks {
			if !reflect.DeepEqual(seen1[ms.Name], seen2[ms.Name]) {
				return "configuration-not-fresh|" + string(c.Kind), fmt.Sprintf("%s: first run was configured with %v, second run (same registry, same configuration) with %v", ms.Name, seen1[ms.Name], seen2[ms.Name])
			}
			if rs1 != nil && rs != nil && rs1.Results[ms.Name] != nil && rs.Results[ms.Name] != nil && rs1.Results[ms.Name].Status != rs.Results[ms.Name].Status {
				return "second-run-status|" + string(c.Kind), fmt.Sprintf("%s: %s on the first run, %s on the second", ms.Name, rs1.Results[ms.Name].Status, rs.Results[ms.Name].Status)
			}
		}
	}
	// C09: the same to-be-signed certificate under other signature bits - every result identical, the
	// framework's own results (configuration errors, recovered panics) included
	if prop == "C09" && c.Kind == gen.Cert && panicked1 == "" && rs1 != nil && !bytes.Equal(cert.RawIssuer, cert.RawSubject) {
		if v, err := gen.ViewCert(c.DER); err == nil {
			b := append([]byte{}, v.Signature().Body()...)
			for i := 1; i < len(b); i++ {
				b[i] ^= byte(0x5a + i)
			}
			v.Root.Children[2] = dt.Prim(0, 3, b)
			if twin, ok := gen.ParseCert(v.DER()); ok && bytes.Equal(twin.RawTBSCertificate, cert.RawTBSCertificate) {
				orig := cert
				cert = twin
				rs, panicked = nil, ""
				lintOnce()
				cert = orig
				if panicked != "" {
					return "panic-escapes|cert", "Lint*Ex panicked on the re-signed twin: " + panicked
				}
				for _, ms := range c.Mocks {
					a, b2 := rs1.Results[ms.Name], (*lint.LintResult)(nil)
					if rs != nil {
						b2 = rs.Results[ms.Name]
					}
					if a == nil || b2 == nil {
						continue
					}
					if a.Status != b2.Status || a.Details != b2.Details {
						return "signature-dependent|" + a.Status.String(), fmt.Sprintf("%s: %s %q with the original signature bits, %s %q with others (same tbsCertificate)", ms.Name, a.Status, a.Details, b2.Status, b2.Details)
					}
				}
				rec.Class("c09_twin_compared")
			}
		}
	}
	if prop == "C03" && c.Kind == gen.Cert && panicked1 == "" {
		for _, ms := range c.Mocks {
			mi := byName(ms.Name)
			if mi == nil || mi.Kind != gen.Cert || ms.Script.PanicAt != "" || ms.Script.Outcome < 0 {
				continue
			}
			dl := depLints[ms.Name]
			if dl == nil {
				dl = &lint.Lint{Name: mi.cert.Name, Description: mi.cert.Description, Citation: mi.cert.Citation, Source: mi.cert.Source, Lint: mi.cert.Lint}
				depLints[ms.Name] = dl
			}
			m := mi.meta()
			dl.EffectiveDate, dl.IneffectiveDate = m.EffectiveDate, m.IneffectiveDate
			want := model.Window(m.EffectiveDate, m.IneffectiveDate, date)
			if got := dl.CheckEffective(cert); got != want {
				return "deprecated-window|stale", fmt.Sprintf("%s: a lint.Lint value whose dates were set to [%s, %s) answers CheckEffective=%v for an object dated %s", ms.Name, fmtT(m.EffectiveDate), fmtT(m.IneffectiveDate), got, date.UTC().Format(time.RFC3339Nano))
			}
			if r := dl.Execute(cert, reg.GetConfiguration()); r != nil && rs1 != nil && rs1.Results[ms.Name] != nil && r.Status != rs1.Results[ms.Name].Status && !(mi.Configurable && ms.BadConfig) {
				return "deprecated-verdict|stale", fmt.Sprintf("%s: lint.Lint.Execute reports %s, the registered lint with the same dates %s", ms.Name, r.Status, rs1.Results[ms.Name].Status)
			}
			// a by-value copy with the window shifted to exclude / include the object
			cp := *dl
			if want {
				cp.EffectiveDate = date.Add(time.Second)
				cp.IneffectiveDate = time.Time{}
			} else {
				cp.EffectiveDate, cp.IneffectiveDate = time.Time{}, time.Time{}
			}
			if got := cp.CheckEffective(cert); got == want {
				return "deprecated-window|copy", fmt.Sprintf("%s: a copy of a used lint.Lint value keeps the original's window after its dates were changed", ms.Name)
			}
		}
		mu.Lock()
		calls = nil
		cfgSeen = map[string][]string{}
		mu.Unlock()
	}
	rs, panicked = rs1, panicked1
	// what each configurable mock saw must be what the document says
	if prop == "C04" || prop == "C11" {
		for _, ms := range c.Mocks {
			mi := byName(ms.Name)
			if mi == nil || !mi.Configurable || ms.BadConfig || len(seen1[ms.Name]) == 0 {
				continue
			}
			want := "0||[]"
			if ms.CfgVals != nil {
				want = fmt.Sprintf("%d|%s|%v", ms.CfgVals.Level, strings.Join(ms.CfgVals.List, ","), ms.CfgVals.Nums)
				if len(ms.CfgVals.Nums) == 0 {
					want = fmt.Sprintf("%d|%s|[]", ms.CfgVals.Level, strings.Join(ms.CfgVals.List, ","))
				}
			}
			if seen1[ms.Name][0] != want {
				return "configured-values|" + string(c.Kind), fmt.Sprintf("%s was configured with %q, the document says %q", ms.Name, seen1[ms.Name][0], want)
			}
		}
	}
	perMock := map[string][]string{}
	inst := map[string]map[string]bool{}
	for _, e := range log {
		i, j := strings.Index(e, "#"), strings.Index(e, ":")
		n := e[:i]
		perMock[n] = append(perMock[n], e[j+1:])
		if inst[n] == nil {
			inst[n] = map[string]bool{}
		}
		inst[n][e[i+1:j]] = true
	}
	// expected panic propagation (CRL / OCSP have no recovery net): only scripted for them when alone
	scriptedPanic := false
	for _, ms := range c.Mocks {
		if (ms.Script.Outcome < 0 || ms.Script.PanicAt != "") && c.Kind != gen.Cert {
			scriptedPanic = true
		}
	}
	if panicked != "" {
		if scriptedPanic {
			rec.Class("propagated_scripted_panic")
			return "", ""
		}
		return "panic-escapes|" + string(c.Kind), "Lint*Ex panicked: " + panicked
	}
	if rs == nil {
		return "nil-resultset", "nil result set"
	}
	// ---- C01: result-set invariants over arbitrary status mixes
	if prop == "C01" || prop == "C04" {
		if len(rs.Results) != len(names) {
			return "keys", fmt.Sprintf("%d results for %d selected mock lints", len(rs.Results), len(names))
		}
		var hn, hw, he, hf bool
		for _, n := range names {
			r := rs.Results[n]
			if r == nil {
				return "nil-result|" + n, "nil or missing result"
			}
			if !reflect.DeepEqual(r.LintMetadata, *byName(n).meta()) {
				return "metadata|" + n, "result does not carry the lint's metadata"
			}
			switch r.Status {
			case lint.Notice:
				hn = true
			case lint.Warn:
				hw = true
			case lint.Error:
				he = true
			case lint.Fatal:
				hf = true
			}
		}
		if rs.NoticesPresent != hn || rs.WarningsPresent != hw || rs.ErrorsPresent != he || rs.FatalsPresent != hf {
			return "flags", fmt.Sprintf("flags n=%v w=%v e=%v f=%v but results have n=%v w=%v e=%v f=%v", rs.NoticesPresent, rs.WarningsPresent, rs.ErrorsPresent, rs.FatalsPresent, hn, hw, he, hf)
		}
		rec.Class(fmt.Sprintf("flagmix_%v%v%v%v", b2i(hn), b2i(hw), b2i(he), b2i(hf)))
		if rs.Version != 3 && prop == "C01" {
			// the props leg checks the version against go.mod; here only sanity
		}
	}
	// ---- per mock: predicted lifecycle
	for _, ms := range c.Mocks {
		mi := byName(ms.Name)
		if mi == nil || mi.Kind != c.Kind {
			continue
		}
		r := rs.Results[ms.Name]
		if r == nil {
			continue
		}
		got := perMock[ms.Name]
		m := mi.meta()
		inWindow := model.Window(m.EffectiveDate, m.IneffectiveDate, date)
		var want []string
		var ws lint.LintStatus
		wd := ""
		exact := true // details predicted exactly
		switch {
		case c.Kind == gen.Cert && !model.InScope(mi.Source, cert):
			ws = lint.NA
		case ms.Script.PanicAt == "new":
			want = []string{"new"}
			ws, exact = lint.Fatal, false
		case ms.Script.PanicAt == "Configure" && mi.Configurable:
			want = []string{"new", "Configure"}
			ws, exact = lint.Fatal, false
		case mi.Configurable && ms.BadConfig:
			want = []string{"new", "Configure"}
			ws, exact = lint.Fatal, false
		default:
			want = []string{"new"}
			if mi.Configurable {
				want = append(want, "Configure")
			}
			want = append(want, "CheckApplies")
			switch {
			case ms.Script.PanicAt == "CheckApplies":
				ws, exact = lint.Fatal, false
			case !ms.Script.Applies:
				ws = lint.NA
			case !inWindow:
				ws = lint.NE
			default:
				want = append(want, "Execute")
				if ms.Script.Outcome < 0 {
					ws, exact = lint.Fatal, false
				} else {
					ws, wd = lint.LintStatus(ms.Script.Outcome), ms.Script.Details
				}
			}
		}
		executed := len(got) > 0 && got[len(got)-1] == "Execute"
		if prop == "C11" {
			// a section that cannot be applied touches exactly its lint; every other lint is what it is without it
			if r.Status != ws {
				return "config-locality|" + string(c.Kind) + "|" + ws.String(), fmt.Sprintf("%s: status %s, predicted %s (configurable=%v bad section=%v; document:\n%s)", ms.Name, r.Status, ws, mi.Configurable, ms.BadConfig, cfgDoc+sections)
			}
			if ws == lint.Fatal && mi.Configurable && ms.BadConfig && ms.Script.PanicAt != "new" && ms.Script.PanicAt != "Configure" && (strings.Contains(r.Details, model.PanicMarker) || !strings.Contains(r.Details, ms.Name)) {
				return "config-error-message", "the section that cannot be applied is not reported as a configuration error naming the lint: " + r.Details
			}
		}
		if prop == "C03" || prop == "C04" {
			if !inWindow && (executed || r.Status == lint.Pass || r.Status == lint.Notice || r.Status == lint.Warn || r.Status == lint.Error) {
				return "outside-window|" + string(c.Kind), fmt.Sprintf("%s: object dated %s outside [%s, %s): status %s, body executed=%v", ms.Name, date.UTC().Format(time.RFC3339Nano), fmtT(m.EffectiveDate), fmtT(m.IneffectiveDate), r.Status, executed)
			}
			if r.Status != ws {
				return "lifecycle-status|" + string(c.Kind) + "|" + ws.String(), fmt.Sprintf("%s: status %s, predicted %s (window=%v applies=%v calls=%v)", ms.Name, r.Status, ws, inWindow, ms.Script.Applies, got)
			}
			if inWindow && ms.Script.Applies && ws != lint.NA {
				d := date.Unix()
				for bi, b := range []time.Time{m.EffectiveDate, m.IneffectiveDate} {
					if !b.IsZero() && d-b.Unix() >= -1 && d-b.Unix() <= 1 {
						rec.Class(fmt.Sprintf("mock_boundary_%d_%+d", bi, d-b.Unix()))
					}
				}
			}
		}
		if prop == "C04" {
			if !reflect.DeepEqual(got, want) && !(len(got) == 0 && len(want) == 0) {
				return "call-log|" + string(c.Kind), fmt.Sprintf("%s: calls %v, predicted %v", ms.Name, got, want)
			}
			if len(inst[ms.Name]) > 1 {
				return "instances|" + string(c.Kind), fmt.Sprintf("%s: %d instances used in one run", ms.Name, len(inst[ms.Name]))
			}
			if exact && r.Details != wd {
				return "details-altered|" + string(c.Kind), fmt.Sprintf("%s: details %q, the body returned %q", ms.Name, r.Details, wd)
			}
			if !exact && ws == lint.Fatal {
				earlyPanic := ms.Script.PanicAt == "new" || ms.Script.PanicAt == "CheckApplies" && !(mi.Configurable && ms.BadConfig) || ms.Script.PanicAt == "Configure" && mi.Configurable
				if earlyPanic || ms.Script.PanicAt == "" && ms.Script.Outcome < 0 && ms.Script.Applies && inWindow && !(mi.Configurable && ms.BadConfig) {
					if !strings.Contains(r.Details, model.PanicMarker) || !strings.Contains(r.Details, ms.Name) {
						return "panic-report|cert", "recovered panic is not reported as such: " + r.Details
					}
				} else if !strings.Contains(r.Details, ms.Name) {
					return "config-error-message", "configuration error does not name the lint: " + r.Details
				}
			}
		}
	}
	return "", ""
}

func b2i(b bool) int {
	if b {
		return 1
	}
	return 0
}

func fmtT(t time.Time) string {
	if t.IsZero() {
		return "-"
	}
	return t.UTC().Format(time.RFC3339Nano)
}

func seedFor(name string) uint64 {
	v, _ := strconv.ParseUint(os.Getenv("VERIF_SEED"), 10, 64)
	if v == 0 {
		v = 1
	}
	shard, _ := stats.Shard()
	return 1 + (v*1000003+uint64(shard)*7919+stats.HashS(name)%100003)%(1<<31-1)
}

func TestMock(t *testing.T) {
	prop := os.Getenv("VERIF_PROPERTY")
	if prop == "" {
		prop = "C04"
	}
	rec := stats.New(prop)
	t.Cleanup(rec.Flush)
	co := gen.LoadCorpus()
	_, nshards := stats.Shard()
	total := stats.Scale(20000, 500000)
	flag.Set("rapid.checks", strconv.Itoa((total+nshards-1)/nshards))
	flag.Set("rapid.seed", strconv.FormatUint(seedFor("mock"+prop), 10))
	flag.Set("rapid.nofailfile", "true")
	flag.Set("rapid.shrinktime", "20s")
	byKind := map[gen.Kind][]*mockInfo{}
	for _, m := range mocks {
		byKind[m.Kind] = append(byKind[m.Kind], m)
	}
	t.Run("mock", func(t *testing.T) {
		rapid.Check(t, func(rt *rapid.T) {
			var c mockCase
			switch rapid.IntRange(0, 6).Draw(rt, "kind") {
			case 0, 1, 2:
				o := co.Certs[rapid.IntRange(0, len(co.Certs)-1).Draw(rt, "cert")]
				c.Kind, c.DER, c.Base = gen.Cert, o.DER, o.Name
			case 6:
				// a certificate whose scope features (EKU, policies, mailbox in the SAN - well-formed or not) are drawn
				o := co.Certs[rapid.IntRange(0, len(co.Certs)-1).Draw(rt, "cert")]
				c.Kind, c.DER, c.Base = gen.Cert, o.DER, o.Name
				var pol [][]int
				switch rapid.IntRange(0, 3).Draw(rt, "pol") {
				case 1:
					pol = [][]int{gen.ScopePolicyOIDs[rapid.IntRange(0, len(gen.ScopePolicyOIDs)-1).Draw(rt, "scopeoid")]}
				case 2:
					pol = [][]int{gen.OtherPolicyOIDs[rapid.IntRange(0, len(gen.OtherPolicyOIDs)-1).Draw(rt, "otheroid")]}
				}
				eku, mail := rapid.IntRange(-1, len(gen.AllEKUs)-1).Draw(rt, "eku"), rapid.IntRange(0, gen.ScopeMailKinds-1).Draw(rt, "mail")
				if der, ok := gen.ScopeVariant(o.DER, eku, pol, mail); ok {
					if _, parses := gen.ParseCert(der); parses {
						c.DER, c.Base = der, fmt.Sprintf("%s scope(eku=%d policies=%v mail=%d)", o.Name, eku, pol, mail)
					}
				}
			case 3, 4:
				o := co.CRLs[rapid.IntRange(0, len(co.CRLs)-1).Draw(rt, "crl")]
				c.Kind, c.DER, c.Base = gen.CRL, o.DER, o.Name
			default:
				if rapid.Bool().Draw(rt, "built") {
					der, _ := gen.DrawBuiltOCSP(rt)
					c.Kind, c.DER, c.Base = gen.OCSP, der, "built-ocsp"
				} else {
					o := co.OCSPs[rapid.IntRange(0, len(co.OCSPs)-1).Draw(rt, "ocsp")]
					c.Kind, c.DER, c.Base = gen.OCSP, o.DER, o.Name
				}
			}
			var date time.Time
			switch c.Kind {
			case gen.Cert:
				if x, ok := gen.ParseCert(c.DER); ok {
					date = x.NotBefore
				}
			case gen.CRL:
				if x, ok := gen.ParseCRL(c.DER); ok {
					date = x.ThisUpdate
				}
			case gen.OCSP:
				if x, ok := gen.ParseOCSP(c.DER); ok {
					date = x.NextUpdate
				}
			}
			pool := byKind[c.Kind]
			n := rapid.IntRange(1, 6).Draw(rt, "nmocks")
			used := map[string]bool{}
			anyPanic := false
			for i := 0; i < n; i++ {
				mi := pool[rapid.IntRange(0, len(pool)-1).Draw(rt, "mock")]
				if used[mi.Name] {
					continue
				}
				used[mi.Name] = true
				ms := mockSetup{Name: mi.Name}
				ms.Script.Applies = rapid.IntRange(0, 4).Draw(rt, "applies") > 0
				ms.Script.Outcome = rapid.IntRange(1, 7).Draw(rt, "status")
				if rapid.IntRange(0, 11).Draw(rt, "panic") == 0 && (c.Kind == gen.Cert || !anyPanic && n == 1) {
					switch rapid.IntRange(0, 3).Draw(rt, "panicat") {
					case 0:
						ms.Script.Outcome = -1
					case 1:
						ms.Script.PanicAt = "CheckApplies"
					case 2:
						ms.Script.PanicAt = "new"
					default:
						ms.Script.PanicAt = "Configure"
					}
					anyPanic = true
				}
				ms.Script.Details = rapid.SampledFrom([]string{"", "details", "x\xffy", "'" + mi.Name + "' panicked. Error: no", " "}).Draw(rt, "details")
				ms.BadConfig = mi.Configurable && rapid.IntRange(0, 5).Draw(rt, "badcfg") == 0
				if ms.BadConfig && prop == "C11" {
					ms.BadShape = rapid.IntRange(0, 4).Draw(rt, "badshape")
				}
				if mi.Configurable && !ms.BadConfig && rapid.Bool().Draw(rt, "cfgvals") {
					ms.CfgVals = &mockCfg{Level: rapid.IntRange(-3, 9).Draw(rt, "level"),
						List: rapid.SliceOfN(rapid.SampledFrom([]string{"a", "b", "c", "allow", "deny", ""}), 0, 4).Draw(rt, "list"),
						Nums: rapid.SliceOfN(rapid.IntRange(0, 50), 0, 4).Draw(rt, "nums")}
				}
				d := date.Unix()
				drawBound := func(lbl string) (*int64, int) {
					switch rapid.IntRange(0, 7).Draw(rt, lbl+"kind") {
					case 0, 1:
						return nil, 0
					case 2:
						v := d + int64(rapid.IntRange(-2, 2).Draw(rt, lbl+"off"))
						return &v, 0
					case 3:
						v := d
						return &v, rapid.SampledFrom([]int{0, 1, 999999999}).Draw(rt, lbl+"nano")
					case 4:
						v := d - 1
						return &v, 999999999
					case 5:
						v := d + int64(rapid.IntRange(-100000000, 100000000).Draw(rt, lbl+"far"))
						return &v, 0
					default:
						v := d + int64(rapid.IntRange(-3, 3).Draw(rt, lbl+"off2"))
						return &v, rapid.IntRange(0, 999999999).Draw(rt, lbl+"nano2")
					}
				}
				ms.EffUnix, ms.EffNano = drawBound("eff")
				ms.IneffUnix, ms.IneffNano = drawBound("ineff")
				ms.Zone = rapid.SampledFrom([]int{0, 3600, -18000, 50400, -43200, 19800}).Draw(rt, "zone")
				c.Mocks = append(c.Mocks, ms)
			}
			rec.Eval()
			rec.Class("kind_" + string(c.Kind))
			if sig, msg := judge(rec, c, prop); msg != "" {
				if rec.Report("mock", sig, msg, c) {
					rt.Fatalf("mock: %s: %s", sig, msg)
				}
			}
			b, _ := json.Marshal(c.Mocks)
			rec.NT(stats.Hash([]byte(c.Base), b))
			if rec.WantSample() && rapid.IntRange(0, 200).Draw(rt, "smp") == 0 {
				rec.Sample(map[string]interface{}{"kind": c.Kind, "base": c.Base, "mocks": c.Mocks})
			}
		})
	})
}

func TestReplay(t *testing.T) {
	p := os.Getenv("VERIF_REPLAY")
	if p == "" {
		t.Skip("VERIF_REPLAY not set")
	}
	prop := os.Getenv("VERIF_PROPERTY")
	rec := stats.New(prop)
	t.Cleanup(rec.Flush)
	var files []string
	if st, err := os.Stat(p); err == nil && st.IsDir() {
		es, _ := os.ReadDir(p)
		for _, e := range es {
			files = append(files, p+"/"+e.Name())
		}
	} else if err == nil {
		files = []string{p}
	}
	sort.Strings(files)
	for _, f := range files {
		b, err := os.ReadFile(f)
		if err != nil {
			continue
		}
		var v stats.Violation
		if json.Unmarshal(b, &v) != nil || v.Oracle != "mock" {
			continue
		}
		var c mockCase
		if json.Unmarshal(v.Case, &c) != nil {
			continue
		}
		rec.Eval()
		if sig, msg := judge(rec, c, v.Property); msg != "" {
			if rec.Report("mock", sig, msg, c) {
				t.Errorf("REPLAY-VIOLATION %s: %s", sig, msg)
			}
		}
	}
}
