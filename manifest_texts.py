"""Per-property MANIFEST texts."""
HOOK_COMMITS = []
NOT_APPLICABLE = {}
TEXTS = {
    "C12": {
        "technique": "exhaustive enumeration (go/parser census of registrations vs. default-build registry) + rapid-generated lookups",
        "level_text": "The finite domain (every registration call in v3/lints and every lint in the registry of a default build) is enumerated completely on each run and compared both ways; lookups with generated near-miss names/sources and generated filtered registries are sampled. Decides the property for the tree as it is when the check runs.",
        "level_note": "Trusts go/parser's view of the sources and that registrations are syntactic lint.Register* calls; says nothing about trees not yet written.",
    },
    "C01": {
        "technique": "rapid property test over generated objects x registries x configurations; result-set invariant oracle",
        "level_text": "Exploration: tens of thousands (quick) to millions (thorough) of generated parseable certificates/CRLs/OCSP responses, each linted with a generated registry selection and configuration; every returned ResultSet is checked against the invariants of the statement (exact key set, non-nil, metadata, status range, four flags both directions, version from go.mod, no panic/hang). Status mixes the real lints cannot produce come from the mock-lint leg.",
        "level_note": "Samples the input space; shapes no generator reaches are not covered. Hang = one call > 120 s.",
    },
    "C02": {
        "technique": "single-edit DER sweep (enumerated in thorough) + rapid multi-edit mutation + native fuzzing (thorough); panic / explicit-fatal oracle with reference lifecycle",
        "level_text": "Exploration of hostile inputs: every corpus object x every leaf x ~190 deterministic edits (complete in thorough, 1/97 stride in quick), random multi-edit and crossover mutants, built CRLs/OCSP; the oracle demands no recovered-panic result, no escaping panic, and that each fatal is the rule body's own verdict. Per-lint 'body executed' counts are reported so blind spots are visible.",
        "level_note": "Only executed paths are observed; a panic on an unreached path stays invisible.",
    },
    "C03": {
        "technique": "enumerated boundary sweep (every dated lint x home objects x +-1 s x time encodings/zones) + rapid re-dating; integer window model oracle",
        "level_text": "Every lint that has an effective or ineffective date is driven, on objects on which it applies, to both sides of each boundary at one-second resolution in several DER time encodings and struct time zones; all other lints are judged on the same objects. The oracle is an independent integer comparison of Unix seconds.",
        "level_note": "Applicability is re-evaluated on the re-dated object with the lint's own CheckApplies; zlint's year-0 ZeroDate boundaries cannot be approached.",
    },
    "C04": {
        "technique": "differential against an independent reference lifecycle (scope model from the statement) over an enumerated scope matrix + rapid-generated objects; mock-lint call logs",
        "level_text": "Every lint's framework result is compared (status and details) with a reference lifecycle built from public API only: scope model written from the statement, fresh instance, MaybeConfigure, CheckApplies, integer window, Execute. The single-feature scope matrix (each EKU / each scope policy OID / e-mail SAN variants) is enumerated in both tiers, so a predicate losing one OID or EKU is caught deterministically.",
        "level_note": "The reference calls the rule body a second time, so it relies on bodies being deterministic (C05).",
    },
    "C06": {
        "technique": "rapid-generated and home-object-directed mutation; (lint, status) tally against the prefix rule; known findings keyed by lint+status",
        "level_text": "Exploration: each lint run of corpus, directed (home objects of each lint x edits) and generated objects contributes to a lint x status tally judged against the naming contract; nine listed lint+status pairs are known findings, any other pair is a violation.",
        "level_note": "Only return paths that some generated object reaches are observed.",
    },
}
