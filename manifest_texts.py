"""Per-property MANIFEST texts."""
HOOK_COMMITS = []
NOT_APPLICABLE = {}
TEXTS = {
    "C12": {
        "technique": "exhaustive enumeration (go/parser census of registrations vs. default-build registry) + rapid-generated lookups",
        "level_text": "The finite domain (every registration call in v3/lints and every lint in the registry of a default build) is enumerated completely on each run and compared both ways; lookups with generated near-miss names/sources and generated filtered registries are sampled. Decides the property for the tree as it is when the check runs.",
        "level_note": "Trusts go/parser's view of the sources and that registrations are syntactic lint.Register* calls; says nothing about trees not yet written.",
    },
}
