"""Per-property MANIFEST texts."""
HOOK_COMMITS = []
NOT_APPLICABLE = {}
TEXTS = {
    "C12": {
        "technique": "exhaustive enumeration (go/parser census of registrations vs. default-build registry) + rapid-generated lookups",
        "level_text": "The finite domain (every registration call in v3/lints and every lint in the registry of a default build) is enumerated completely on each run and compared both ways; lookups with generated near-miss names/sources and generated filtered registries are sampled. Decides the property for the tree as it is when the check runs.",
        "level_note": "Trusts go/parser's view of the sources and that registrations are syntactic lint.Register* calls; says nothing about trees not yet written.",
    },
    "C01": {
        "technique": "rapid property test over generated objects x registries x configurations; enumerated single-edit home sweep; late-registration history; concurrent cold start under the race detector; result-set invariant oracle",
        "level_text": "Exploration: tens of thousands (quick) to millions (thorough) of generated parseable certificates/CRLs/OCSP responses, each linted with a generated registry selection and configuration; every returned ResultSet is checked against the invariants of the statement (exact key set, non-nil, metadata, status range, four flags both directions, version from go.mod, no panic/hang). Status mixes the real lints cannot produce come from the mock-lint leg.",
        "level_note": "Samples the input space; shapes no generator reaches are not covered. Hang = one call > 45 s.",
    },
    "C02": {
        "technique": "single-edit DER sweep (enumerated in thorough) + rapid multi-edit mutation + native fuzzing (thorough); panic / explicit-fatal oracle with reference lifecycle",
        "level_text": "Exploration of hostile inputs: every corpus object x every leaf x ~190 deterministic edits (complete in thorough, 1/97 stride in quick), random multi-edit and crossover mutants, built CRLs/OCSP; the oracle demands no recovered-panic result, no escaping panic, and that each fatal is the rule body's own verdict. Per-lint 'body executed' counts are reported so blind spots are visible.",
        "level_note": "Only executed paths are observed; a panic on an unreached path stays invisible.",
    },
    "C03": {
        "technique": "enumerated boundary sweep (every dated lint x home objects x +-1 s x time encodings/zones) + rapid re-dating; integer window model oracle",
        "level_text": "Every lint that has an effective or ineffective date is driven, on objects on which it applies, to both sides of each boundary at one-second resolution in several DER time encodings and struct time zones; all other lints are judged on the same objects. The oracle is an independent integer comparison of Unix seconds.",
        "level_note": "Applicability is re-evaluated on the re-dated object with the lint's own CheckApplies; zlint's year-0 ZeroDate boundaries cannot be approached.",
    },
    "C04": {
        "technique": "differential against an independent reference lifecycle (scope model from the statement) over an enumerated scope matrix + rapid-generated objects; mock-lint call logs; concurrent-vs-sequential differential on scope variants under the race detector",
        "level_text": "Every lint's framework result is compared (status and details) with a reference lifecycle built from public API only: scope model written from the statement, fresh instance, MaybeConfigure, CheckApplies, integer window, Execute. The single-feature scope matrix (each EKU / each scope policy OID / e-mail SAN variants) is enumerated in both tiers, so a predicate losing one OID or EKU is caught deterministically.",
        "level_note": "The reference calls the rule body a second time, so it relies on bodies being deterministic (C05).",
    },
    "C06": {
        "technique": "rapid-generated and home-object-directed mutation; (lint, status) tally against the prefix rule; known findings keyed by lint+status",
        "level_text": "Exploration: each lint run of corpus, directed (home objects of each lint x edits) and generated objects contributes to a lint x status tally judged against the naming contract; nine listed lint+status pairs are known findings, any other pair is a violation.",
        "level_note": "Only return paths that some generated object reaches are observed.",
    },
    "C07": {
        "technique": "differential full-vs-filtered registry (metamorphic) over enumerated single-lint selections and rapid-generated filters",
        "level_text": "Every lint is run alone on its home objects (enumerated) and generated objects are linted under generated selections; each selected lint's status and details must equal the full run's on a fresh parse, also when both runs share one parsed object in either order, and filtered flags must imply full flags.",
        "level_note": "Compares details too, so it relies on C05's determinism (repaired in the tree).",
    },
    "C08": {
        "technique": "rapid-generated FilterOptions against a set-algebra reference model; behavioural probe of inherited configuration",
        "level_text": "Model-based: the documented selection and error rules are re-implemented as plain set algebra and compared with Filter on tens of thousands to a million generated option sets, including pre-filtered registries; kind, metadata, object identity, Sources(), Names() order, lookup consistency, untouched source registry and inherited configuration are all checked.",
        "level_note": "Regular expressions come from a dictionary; arbitrary regexp syntax is not generated.",
    },
    "C11": {
        "technique": "rapid-generated TOML documents with metamorphic equivalences and per-option models; rapid state machine for configuration histories",
        "level_text": "Equivalence (none = empty = unrelated), example configuration validity, option locality with models of the four options' meaning, ill-typed sections must yield exactly one fatal naming the lint and no panic; a stateful model of which configuration each registry holds (including Filter aliasing) predicts every verdict in generated SetConfiguration/Filter/lint histories.",
        "level_note": "Fermat Rounds capped at 2000; option models exist for today's four configurable lints.",
    },
    "C13": {
        "technique": "exhaustive enumeration of listed names/sources/profiles through library and the real CLI + rapid unknown tokens",
        "level_text": "Everything the registry lists is fed back through every selector entry point (Filter include/exclude, LintSource.FromString, SourceList.FromString, JSON, library source filters, CLI flags) - complete for the tree as it is; generated unknown tokens must be rejected everywhere.",
        "level_note": "CLI name round trips are strided in the quick tier (every 9th name), complete in thorough.",
    },
    "C14": {
        "technique": "round-trip property (Marshal/Unmarshal) over rapid-generated result sets and synthetic results; enumerated status/label table; strict decoding of WriteJSON, also after late registrations; concurrent-vs-sequential encoders under the race detector",
        "level_text": "Round trip on generated result sets (with hostile bytes planted into names so details carry them) and on synthetic results with arbitrary bytes; the U+FFFD model is written independently; statuses -3..12 and arbitrary label strings are classified; every WriteJSON line of generated filtered registries is decoded with unknown fields disallowed.",
        "level_note": "JSON escapes inside labels (\\u0070ass) are outside the generated domain.",
    },
    "C09": {
        "technique": "metamorphic relation (replace signature bits, same length) over rapid-generated non-self-issued certificates",
        "level_text": "Pairs of certificates with identical TBS and algorithm identifiers and different signature bits must get identical status and details from every lint; seven kinds of replacement including another certificate's signature and a freshly encoded ECDSA-Sig-Value.",
        "level_note": "A lint that decodes the signature only for an algorithm no generated certificate uses would be missed.",
    },
    "C16": {
        "technique": "enumerated thresholds/divisors/word-pattern prime pairs + rapid-generated (N, e, Rounds) written into real certificates; math/big reference predicates; concurrent-vs-sequential key verdicts under the race detector",
        "level_text": "Each of the 14 key-quality lints is compared, wherever the reference lifecycle says it executed, with its arithmetic predicate computed independently with math/big (own sieve of primes < 752, own Fermat round count from p and q); divisors 2..769 and all bit-length thresholds +-1 are enumerated; self-signed roots are built from committed keys so the root-only lint runs.",
        "level_note": "Rounds capped at 2000; 'found within rounds' model is exact for products of two distinct odd primes only.",
    },
    "C17": {
        "technique": "metamorphic relation (permute SAN entries / extension list) over rapid-generated certificates",
        "level_text": "Certificates with generated SANs mixing good, bad and unparseable names of every GeneralName arm are compared with a permuted re-encoding; likewise the extension list of certificates without duplicate extensions. Status vectors must be equal for all lints.",
        "level_note": "Self-signed bases are re-signed on both sides so the parser's SelfSigned flag is equal (asserted).",
    },
    "C18": {
        "technique": "exhaustive boundary sweep over the generated TLD table read as data + rapid domains/instants/certificates; integer reference model; rapid registry data sets through the table generator (in-package, fake transport) against a table model",
        "level_text": "All ~1570 table entries are checked for well-formedness and swept at delegation/removal -1 s, 0, +1 s in three spellings and zones (both tiers); random domains/instants and generated certificates compare HasValidTLD / IsInTLDMap / CertificateSubjInTLD / e_dnsname_not_valid_tld with an integer model of the statement. The table generator (cmd/zlint-gtld-update, sources copied verbatim from the tree at build time and tested in-package with its HTTP transport replaced) is fed generated registry data sets: it must refuse exactly when a delegated entry carries a date that is not a plain calendar date or a download fails (writing nothing), and otherwise write a gofmt-stable table equal to the model's.",
        "level_note": "The model reads the same gtld_map.go bytes the compiler sees (via go/parser), so table and model cannot drift.",
    },
    "C19": {
        "technique": "exhaustive enumeration of block edges, all super-/sub-net prefixes and anchor x block non-prefix masks + rapid addresses/networks/masks/certificates; integer CIDR model, bitwise membership model and algebraic laws; cold-start concurrency leg under the race detector",
        "level_text": "22 special-purpose blocks written from the RFCs and 26 public anchors; edges and every prefix length around each block in both address forms are enumerated on every run; algebraic laws (form agreement, singleton network == address test, contains-reserved => intersects, super-net monotonicity) on millions of random cases; the three lints must agree with the functions.",
        "level_note": "Only blocks named in the statement are demanded; extra reservations in the implementation are allowed.",
    },
    "C20": {
        "technique": "rapid-generated mirrored content (SAN=IAN, issuer=subject, CN in SAN, dual scope) with pairwise consistency oracle over 23 rule pairs",
        "level_text": "For 20 twin pairs and 3 error/warning companions, content is generated so both members see the same thing; whenever the reference lifecycle shows both bodies executed, statuses must agree (finding vs no finding across different severities; error => finding for companions).",
        "level_note": "A pair member that disappears from the registry is reported in evidence (pair_member_missing), not as a violation.",
    },
    "C05": {
        "technique": "repetition and read-only properties over rapid-generated objects and enumerated sweeps, enumerated predecessor sweep (lint x reporting object x every object), rapid state machine for histories, soak history, fresh-process differential under generated environments, strace syscall monitor",
        "level_text": "Four oracles: identical status+details over 12-40 repetitions on fresh parses; a memo-model state machine over lint/filter/reconfigure histories with re-used parsed objects; a reflect walk proving every exported field of the linted object equals an unlinted twin; digests from a fresh process equal in-process digests under generated environments, and no I/O system call starts inside the marked lint window of that process under strace.",
        "level_note": "I/O and environment independence are observed on executed paths; the two time.Now() lints are compared within one run (same UTC day).",
    },
    "C10": {
        "technique": "rapid-generated concurrent programs, cold starts (first use concurrent: lint runs, registry reads, pure helpers) and hammers run under the Go race detector; differential against sequential results; deadlock watchdog",
        "level_text": "Generated multi-goroutine programs mixing Lint*Ex on distinct objects with registry reads and Filter on shared registries, run 3 times each under GOMAXPROCS 1/2/4/16 in a -race binary; any race report, panic, hang or concurrent result that differs from the sequential one is a violation. The corpus is walked round-robin so every lint body it reaches runs concurrently.",
        "level_note": "Interleavings are sampled, not enumerated; a logic-only ordering bug without a data race may be missed.",
    },
    "C15": {
        "technique": "differential CLI-vs-library over rapid-generated invocations of the real binary (encodings, deliveries, selections, outputs, failure injection)",
        "level_text": "Hundreds (quick) to tens of thousands (thorough) of spawned zlint processes; stdout is decoded and compared result by result with the in-process library under the same selection and configuration, across encodings and deliveries; summary tables are parsed and counted; undecodable inputs and unknown selectors must give a non-zero exit and no result object beyond the inputs before the bad one.",
        "level_note": "Spawn cost bounds the case count.",
    },
}
