#!/opt/veriftools/pyvenv/bin/python
import json, jsonschema, glob, sys
m=json.load(open('/verif/MANIFEST.json')); jsonschema.validate(m, json.load(open('/root/.vp/MANIFEST.schema.json')))
es=json.load(open('/root/.vp/EVIDENCE.schema.json'))
for f in sorted(glob.glob('/verif/evidence/*.json')):
    jsonschema.validate(json.load(open(f)), es)
print("manifest + %d evidence files valid" % len(glob.glob('/verif/evidence/*.json')))
