#!/usr/bin/env python3
"""Confirms sub-agent seeded changes independently and runs the checks against them.

  tools/seeded.py confirm /tmp/seed-out/C01/A [...]   # scratch-worktree confirmation + copy to /verif/seeded/<id>-<variant>/
  tools/seeded.py run [name ...] [--tier quick] [--also C05,C07] [-j 3]   # apply each kept patch to a scratch worktree, run the property's check against it (VERIF_ALT_REPO), remove it

Nothing is ever applied to or committed in /repo; every scratch worktree is removed straight after its run."""
import json, os, re, shutil, subprocess, sys, time

REPO, VERIF = "/repo", "/verif"
SCRATCH = "/tmp/seedchk"  # + "-<name>" per confirmation, so several can run side by side
ENV = dict(os.environ, GOFLAGS="-mod=mod", GOPROXY="off", GOSUMDB="off", GOTOOLCHAIN="local")


def sh(cmd, cwd=None, timeout=1800):
    p = subprocess.run(cmd, shell=True, cwd=cwd, env=ENV, stdout=subprocess.PIPE, stderr=subprocess.STDOUT, text=True, timeout=timeout)
    return p.returncode, p.stdout


def parse_run(run_txt):
    dest = "v3"
    m = re.search(r"v3/((?:[a-zA-Z0-9_\-]+/)*[a-zA-Z0-9_\-]+)/[a-zA-Z0-9_]*_test\.go", run_txt)
    if m:
        dest = "v3/" + m.group(1)
    cmd = None
    for ln in run_txt.splitlines():
        if "go test" in ln:
            cmd = ln.strip()
            i = cmd.find("go test")
            cmd = cmd[i:]
            break
    return dest, cmd


def confirm(src):
    src = src.rstrip("/")
    meta = json.load(open(os.path.join(src, "meta.json")))
    prop = meta["property"]
    variant = os.path.basename(src)
    name = "%s-%s" % (prop, variant)
    run_txt = open(os.path.join(src, "demo", "RUN.txt")).read()
    dest, cmd = parse_run(run_txt)
    demos = [f for f in os.listdir(os.path.join(src, "demo")) if f.endswith(".go")]
    log = {"name": name, "ran": []}
    global SCRATCH
    SCRATCH = "/tmp/seedchk-" + name
    if os.path.exists(SCRATCH):
        sh("git -C %s worktree remove --force %s" % (REPO, SCRATCH))
    rc, out = sh("git -C %s worktree add -q --detach %s HEAD" % (REPO, SCRATCH))
    try:
        def step(label, c, cwd, want_ok):
            rc, out = sh(c, cwd=cwd)
            ok = (rc == 0) == want_ok
            log["ran"].append({"step": label, "cmd": c, "rc": rc, "as_expected": ok})
            if not ok:
                log["ran"][-1]["tail"] = out[-1500:]
            return ok
        good = step("apply", "git apply %s/patch.diff" % src, SCRATCH, True)
        good = good and step("build", "go build ./...", SCRATCH + "/v3", True)
        good = good and step("vet", "go vet ./...", SCRATCH + "/v3", True)
        good = good and step("suite", "go test -vet=off -count=1 ./...", SCRATCH + "/v3", True)
        for d in demos:
            shutil.copy(os.path.join(src, "demo", d), os.path.join(SCRATCH, dest, d))
        good = good and step("demo-with-change(must fail)", cmd, SCRATCH + "/v3", False)
        # a second and third try for schedule-dependent demos
        good = good and step("revert", "git apply -R %s/patch.diff" % src, SCRATCH, True)
        good = good and step("demo-without-change(must pass)", cmd, SCRATCH + "/v3", True)
        log["confirmed"] = bool(good)
    finally:
        sh("git -C %s worktree remove --force %s" % (REPO, SCRATCH))
    out_dir = os.path.join(VERIF, "seeded", name)
    if log["confirmed"]:
        os.makedirs(os.path.join(out_dir, "demo"), exist_ok=True)
        shutil.copy(os.path.join(src, "patch.diff"), out_dir)
        for f in os.listdir(os.path.join(src, "demo")):
            shutil.copy(os.path.join(src, "demo", f), os.path.join(out_dir, "demo"))
        m2 = {"property": prop, "variant": variant, "breaks": meta.get("summary"), "needs_to_manifest": meta.get("needs"),
              "files": meta.get("files"), "demo": meta.get("demo"), "demo_destination": dest, "demo_command": cmd,
              "author": "independent sub-agent given only the property record and a scratch worktree",
              "confirmed_by_me": log["ran"], "checks": {}}
        json.dump(m2, open(os.path.join(out_dir, "meta.json"), "w"), indent=1)
    print("%-8s confirmed=%s %s" % (name, log["confirmed"], "" if log["confirmed"] else json.dumps(log["ran"][-1])[:400]), flush=True)
    return log["confirmed"]


def run_one(name, tier, also):
    """Applies one kept patch to a scratch worktree of /repo (never to /repo itself), runs the property's check
    against that worktree (VERIF_ALT_REPO) and removes the worktree and its build output."""
    d = os.path.join(VERIF, "seeded", name)
    mp = os.path.join(d, "meta.json")
    meta = json.load(open(mp))
    props = [meta["property"]] + [a for a in also if a != meta["property"]]
    wt = "/tmp/seedrun-%d-%s" % (os.getpid(), name)
    sh("git -C %s worktree remove --force %s" % (REPO, wt))
    rc, out = sh("git -C %s worktree add -q --detach %s HEAD" % (REPO, wt))
    lines = []
    try:
        rc, out = sh("git apply %s/patch.diff" % d, cwd=wt)
        if rc != 0:
            return ["%-8s PATCH-DOES-NOT-APPLY" % name]
        env = dict(ENV, VERIF_ALT_REPO=wt)
        for p in props:
            t0 = time.time()
            pr = subprocess.run("./check %s --tier %s" % (p, tier), shell=True, cwd=SNAP, env=env, stdout=subprocess.PIPE, stderr=subprocess.STDOUT, text=True, timeout=14400)
            rc, out = pr.returncode, pr.stdout
            verdict = {0: "MISSED", 1: "CAUGHT", 2: "INCONCLUSIVE"}.get(rc, "rc=%d" % rc)
            sig = ""
            m = re.search(r"signature=(.*)", out)
            if m:
                sig = m.group(1)[:100]
            meta.setdefault("checks", {})["%s/%s" % (p, tier)] = {"verdict": verdict, "signature": sig, "seconds": round(time.time() - t0, 1)}
            lines.append("%-8s %s/%-8s %-12s %6.1fs %s" % (name, p, tier, verdict, time.time() - t0, sig))
            if verdict == "INCONCLUSIVE":
                lines.append(out[-1500:])
    finally:
        sh("git -C %s worktree remove --force %s" % (REPO, wt))
        import hashlib
        shutil.rmtree(os.path.join(SNAP, ".build", "alt-" + hashlib.sha1(wt.encode()).hexdigest()[:10]), ignore_errors=True)
    json.dump(meta, open(mp, "w"), indent=1)
    return lines


SNAP = None  # frozen copy of /verif the batch runs from, so that editing /verif meanwhile does not disturb it


def snapshot():
    global SNAP
    SNAP = "/tmp/verif-snap-%d" % os.getpid()
    shutil.rmtree(SNAP, ignore_errors=True)
    rc, out = sh("rsync -a --exclude .git --exclude .build --exclude replays --exclude seeded %s/ %s/" % (VERIF, SNAP))
    assert rc == 0, out


def run(names, tier, also, par=3):
    from concurrent.futures import ThreadPoolExecutor
    snapshot()
    root = os.path.join(VERIF, "seeded")
    todo = []
    for name in sorted(os.listdir(root)):
        if names and name not in names and name.split("-")[0] not in names:
            continue
        if os.path.exists(os.path.join(root, name, "meta.json")):
            todo.append(name)
    with ThreadPoolExecutor(max_workers=par) as ex:
        for lines in ex.map(lambda n: run_one(n, tier, also), todo):
            for ln in lines:
                print(ln, flush=True)
    shutil.rmtree(SNAP, ignore_errors=True)


if __name__ == "__main__":
    a = sys.argv[1:]
    if a and a[0] == "confirm":
        for s in a[1:]:
            confirm(s)
    elif a and a[0] == "run":
        tier, also, names, par = "quick", [], [], 3
        i = 1
        while i < len(a):
            if a[i] == "--tier":
                tier = a[i + 1]; i += 2
            elif a[i] == "-j":
                par = int(a[i + 1]); i += 2
            elif a[i] == "--also":
                also = a[i + 1].split(","); i += 2
            else:
                names.append(a[i]); i += 1
        run(names, tier, also, par)
    else:
        print(__doc__)
