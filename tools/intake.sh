#!/bin/sh
# tools/intake.sh <out-root> <worktree-root> <ID>...: for each property whose sub-agent has finished - remove the agent's
# worktree, confirm its variants independently (scratch worktree: build, vet, suite, demo fails with / passes without),
# keep the confirmed ones under seeded/, and run the property's quick check against each.
out=$1; wt=$2; shift 2
dirs=""
for p in "$@"; do
  git -C /repo worktree remove --force $wt/$p 2>/dev/null
  for v in $out/$p/*; do
    [ -f $v/patch.diff ] && dirs="$dirs $v"
  done
done
echo $dirs | tr ' ' '\n' | grep . | xargs -P 4 -n 1 python3 /verif/tools/seeded.py confirm
names=""
for p in "$@"; do for v in $out/$p/*; do n=$p-$(basename $v); [ -d /verif/seeded/$n ] && names="$names $n"; done; done
[ -n "$names" ] && python3 /verif/tools/seeded.py run $names -j 3
