#!/bin/sh
# tools/intake.sh <out-root> <worktree-root> <ID>...: for each property whose sub-agent has finished - remove the agent's
# worktree, confirm its variants independently (scratch worktree: build, vet, suite, demo fails with / passes without),
# keep the confirmed ones under seeded/, and run the property's quick check against each.
out=$1; wt=$2; shift 2
for p in "$@"; do
  git -C /repo worktree remove --force $wt/$p 2>/dev/null
  for v in $out/$p/*; do
    [ -f $v/patch.diff ] || continue
    python3 /verif/tools/seeded.py confirm $v
  done
done
names=""
for p in "$@"; do for v in $out/$p/*; do n=$p-$(basename $v); [ -d /verif/seeded/$n ] && names="$names $n"; done; done
[ -n "$names" ] && python3 /verif/tools/seeded.py run $names -j 2
