#!/usr/bin/env python3
"""Prints the brief given to an independent sub-agent for one property (nothing from /verif except the property record
   and one-line summaries of the changes earlier agents wrote for it, to steer away from repeats).
   tools/seed_prompt.py C03 K L ["extra avoid text"]  -> prompt text; worktree $SEED_WT/C03 ; output dir $SEED_OUT/C03/{K,L}
   (SEED_WT default /tmp/seedwt7, SEED_OUT default /tmp/seed7-out)"""
import json, sys, os, glob
pid, va, vb = sys.argv[1], sys.argv[2], sys.argv[3]
WT = os.environ.get("SEED_WT", "/tmp/seedwt7")
OUT = os.environ.get("SEED_OUT", "/tmp/seed7-out")
prop = None
for ln in open('/verif/properties.jsonl'):
    p = json.loads(ln)
    if p['id'] == pid:
        prop = p
avoid = sys.argv[4] if len(sys.argv) > 4 else ""
earlier = []
for mf in sorted(glob.glob('/verif/seeded/%s-*/meta.json' % pid)):
    m = json.load(open(mf))
    t = " ".join((m.get("breaks") or "").split())
    earlier.append("(%s) %s" % (", ".join(os.path.basename(f) for f in (m.get("files") or [])[:2]), t[:230]))
if earlier:
    avoid = (avoid + " " if avoid else "") + " ;; ".join(earlier)
text = f"""You are helping to evaluate a verification framework for the Go project zmap/zlint (an X.509 certificate / CRL / OCSP linter). Your job is to write two *regressions*: realistic changes to zlint's source that break one stated semantic property while still compiling and passing zlint's whole existing test suite.

You work ONLY in your own scratch git worktree of the repository: {WT+'/'+pid}  (Go module in {WT+'/'+pid}/v3). Do not read or touch /repo or /verif, and do not look anywhere else on this machine for hints - your work must be independent. There is no network. Every shell call that runs go needs:
  export GOFLAGS=-mod=mod GOPROXY=off GOSUMDB=off GOTOOLCHAIN=local
(do not commit go.mod/go.sum changes into your patches).

The property (this is all you are given):

{json.dumps(prop, indent=1)}

What to produce: TWO different changes (call them {va} and {vb}), each of which
  * is a small, plausible-looking edit a maintainer might make (refactor, optimisation, "simplification", new feature, bug-fix gone wrong) to non-test files under v3/ (not to *_test.go files, not to testdata);
  * compiles (`go build ./...` and `go vet ./...` in v3), and the ENTIRE existing suite still passes: `cd v3 && go test -vet=off -count=1 ./...` (takes ~1-2 minutes; run it, do not assume);
  * really breaks the property above for some input / sequence / schedule;
  * needs something SPECIFIC to manifest - a particular interleaving, a fault at a particular point, a multi-step sequence of operations, an unusual input, a boundary value, or two cooperating sites that each look fine alone - NOT something that ordinary use or a casual smoke test would expose at once. Prefer changes in different files / mechanisms for {va} and {vb}, touching different aspects of the property.{(' Avoid repeating these already-explored ideas: ' + avoid) if avoid else ''}
  * comes with a demonstration: a Go test file (name it zz_demo_test.go; say in which package directory under v3 it must be placed) that FAILS with your change applied and PASSES on the unchanged tree. The demonstration must be deterministic if at all possible (if it depends on a schedule, make it loop until it is reliable, and say so).

For each variant V in {{{va}, {vb}}} write these files (create the directories):
  {OUT}/{pid}/V/patch.diff      - `git diff` of your change only (from the worktree root, so paths start with v3/...), applying cleanly with `git apply` to the pristine worktree HEAD. It must NOT contain the demo test.
  {OUT}/{pid}/V/demo/zz_demo_test.go   - the demonstration
  {OUT}/{pid}/V/demo/RUN.txt    - first line: where to copy the test, in the exact form "Copy zz_demo_test.go to {{WT}}/v3/<dir>/zz_demo_test.go" (or {{WT}}/v3/zz_demo_test.go for the module root package); then a line containing the exact command, starting with `go test -vet=off -count=1 -run <TestName> <pkg>` to be run from {{WT}}/v3.
  {OUT}/{pid}/V/meta.json       - JSON object with keys: "property" ("{pid}"), "summary" (what you changed and why it breaks the property), "needs" (what precisely is needed for the breakage to manifest and why the existing tests do not see it), "files" (list of changed files), "demo" (what the demonstration does).

Procedure for each variant: make the change, build, vet, run the whole suite (must pass), add the demo and see it fail, save `git diff` (without the demo file) as patch.diff, then `git stash`/`git checkout -- .` to the pristine tree and see the demo pass, remove the demo file, and leave the worktree clean (git status empty) before starting the next variant and when you finish. Verify that patch.diff applies cleanly to the clean tree with `git apply --check`.

Report back briefly: for each variant one paragraph (what, needs, confirmation you ran). If you could only produce one, say so."""
if vb == "-":
    text = (text.replace("write two *regressions*: realistic changes", "write one *regression*: a realistic change")
            .replace(f"What to produce: TWO different changes (call them {va} and {vb}), each of which", f"What to produce: ONE change (call it {va}), which")
            .replace(f" Prefer changes in different files / mechanisms for {va} and {vb}, touching different aspects of the property.", "")
            .replace(f"For each variant V in {{{va}, {vb}}} write these files", f"For the variant V = {va} write these files")
            .replace("Procedure for each variant:", "Procedure:"))
print(text)
