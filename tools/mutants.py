#!/usr/bin/env python3
"""Sensitivity check: applies small hand-written mutants of zlint, each to a scratch worktree of /repo (never to
/repo itself), runs the quick check of the property each one should break against that worktree (VERIF_ALT_REPO)
from a frozen copy of /verif, and removes the worktree. Usage:
   tools/mutants.py [ID ...] [-j 3] [--suite]       (no IDs = all; --suite also runs zlint's own tests on the mutant)
Prints one line per mutant: CAUGHT (exit 1 + VIOLATION), MISSED (exit 0) or INCONCLUSIVE (exit 2)."""
import subprocess, sys, os, re, json, time

REPO = "/repo"
M = [
 # id, property, file, old, new
 ("m01-warn-flag", "C01", "v3/resultset.go", "\tcase lint.Warn:\n\t\tz.WarningsPresent = true\n", ""),
 ("m01-version", "C01", "v3/zlint.go", "const Version int64 = 3", "const Version int64 = 4"),
 ("m01-key-description", "C01", "v3/resultset.go", "\t\tz.Results[lint.Name] = res\n\t\tz.updateErrorStatePresent(res)\n\t}\n}\n\n// Execute lints on the given CRL", "\t\tz.Results[lint.Description] = res\n\t\tz.updateErrorStatePresent(res)\n\t}\n}\n\n// Execute lints on the given CRL"),
 ("m01-crl-uses-cert-count", "C01", "v3/resultset.go", "res.LintMetadata = lint.LintMetadata\n\t\tz.Results[lint.Name] = res\n\t\tz.updateErrorStatePresent(res)\n\t}\n}\n\nfunc (z *ResultSet) updateErrorStatePresent", "z.Results[lint.Name] = res\n\t\tz.updateErrorStatePresent(res)\n\t}\n}\n\nfunc (z *ResultSet) updateErrorStatePresent"),
 ("m02-bounds", "C02", "v3/lints/rfc/lint_ext_cert_policy_explicit_text_includes_control.go", "i+1 < len(text.Bytes) && ", ""),
 ("m03-onorafter", "C03", "v3/lint/base.go", "effective.IsZero() || util.OnOrAfter(target, effective)", "effective.IsZero() || target.After(effective)"),
 ("m03-before", "C03", "v3/lint/base.go", "ineffective.IsZero() || target.Before(ineffective)", "ineffective.IsZero() || !target.After(ineffective)"),
 ("m03-ocsp-thisupdate", "C03", "v3/lint/base.go", "return checkEffective(l.EffectiveDate, l.IneffectiveDate, o.NextUpdate)", "return checkEffective(l.EffectiveDate, l.IneffectiveDate, o.ThisUpdate)"),
 ("m04-cs-gate", "C04", "v3/lint/base.go", "\tif l.Source == CABFCSBaselineRequirements && !util.IsCodeSigning(cert.PolicyIdentifiers) {\n\t\treturn &LintResult{Status: NA}\n\t}\n", ""),
 ("m04-eku-any", "C04", "v3/util/ca.go", "if eku == x509.ExtKeyUsageAny || eku == x509.ExtKeyUsageServerAuth {", "if eku == x509.ExtKeyUsageServerAuth {"),
 ("m04-smime-oid", "C04", "v3/util/smime_policies.go", "oid.Equal(SMIMEBRMailboxValidatedStrictOID) || oid.Equal(SMIMEBROrganizationValidatedStrictOID) ||", "oid.Equal(SMIMEBROrganizationValidatedStrictOID) ||"),
 ("m04-swap-applies-effective", "C04", "v3/lint/base.go", "\tif !lint.CheckApplies(cert) {\n\t\treturn &LintResult{Status: NA}\n\t} else if !l.CheckEffective(cert) {\n\t\treturn &LintResult{Status: NE}\n\t}", "\tif !l.CheckEffective(cert) {\n\t\treturn &LintResult{Status: NE}\n\t} else if !lint.CheckApplies(cert) {\n\t\treturn &LintResult{Status: NA}\n\t}"),
 ("m05-unsorted-ku", "C05", "v3/util/ku.go", "\tsort.Strings(keyUsageStrings)\n", "\t_ = sort.Strings\n"),
 ("m05-sort-dnsnames-inplace", "C05", "v3/lints/cabf_br/lint_dnsname_contains_empty_label.go", "func (l *DNSNameEmptyLabel) Execute(c *x509.Certificate) *lint.LintResult {\n", "func (l *DNSNameEmptyLabel) Execute(c *x509.Certificate) *lint.LintResult {\n\tsort.Strings(c.DNSNames)\n"),
 ("m05-getenv", "C05", "v3/util/gtld.go", "func HasValidTLD(domain string, when time.Time) bool {\n", "func HasValidTLD(domain string, when time.Time) bool {\n\tif os.Getenv(\"ZLINT_SKIP_TLD\") != \"\" {\n\t\treturn true\n\t}\n"),
 ("m05-stat", "C05", "v3/util/gtld.go", "func IsInTLDMap(label string) bool {\n", "func IsInTLDMap(label string) bool {\n\tif _, err := os.Stat(\"/etc/zlint-tlds\"); err == nil {\n\t\treturn true\n\t}\n"),
 ("m05-local-time", "C05", "v3/lints/cabf_ev/lint_ev_valid_time_too_long.go", "c.NotBefore.AddDate(0, 27, 0).Before(c.NotAfter)", "c.NotBefore.Local().AddDate(0, 27, 0).Before(c.NotAfter)"),
 ("m05-package-cache", "C05", "v3/lints/rfc/lint_ext_duplicate_extension.go", "func (l *extDuplicateExtension) Execute(cert *x509.Certificate) *lint.LintResult {\n", "var lastDup string\n\nfunc (l *extDuplicateExtension) Execute(cert *x509.Certificate) *lint.LintResult {\n\tif lastDup != \"\" && len(cert.Extensions) > 9 {\n\t\treturn &lint.LintResult{Status: lint.Error, Details: lastDup}\n\t}\n\tdefer func() { lastDup = \"seen \" + cert.SerialNumber.String() }()\n"),
 ("m05-eku-ku-map-order", "C05", "v3/lints/rfc/lint_key_usage_and_extended_key_usage_inconsistent.go", "\t\t\tfor _, mpku := range previous {\n\t\t\t\tmp[mpku|ku] = true\n\t\t\t}\n\t\t\tmp[ku] = true\n", "\t\t\tif len(mp) > 0 && mp[ku] {\n\t\t\t\tfor mpku := range mp {\n\t\t\t\t\tmp[mpku|ku] = true\n\t\t\t\t}\n\t\t\t}\n\t\t\t_ = previous\n\t\t\tmp[ku] = true\n"),
 ("m06-extra-warn", "C06", "v3/lints/cabf_br/lint_ca_country_name_missing.go", "Status: lint.Error", "Status: lint.Warn"),
 ("m07-append-cn", "C07", "v3/lints/cabf_br/lint_dnsname_contains_empty_label.go", "func (l *DNSNameEmptyLabel) Execute(c *x509.Certificate) *lint.LintResult {\n", "func (l *DNSNameEmptyLabel) Execute(c *x509.Certificate) *lint.LintResult {\n\tif c.Subject.CommonName != \"\" {\n\t\tc.DNSNames = append(c.DNSNames, c.Subject.CommonName+\"..\")\n\t}\n"),
 ("m08-precedence", "C08", "v3/lint/registration.go", "\t\tif nameExcludes != nil && nameExcludes[name] {\n\t\t\tcontinue\n\t\t}\n\t\tif nameIncludes != nil && !nameIncludes[name] {\n\t\t\tcontinue\n\t\t}", "\t\tif nameIncludes != nil && nameIncludes[name] {\n\t\t\tif err := registerFunc(); err != nil {\n\t\t\t\treturn nil, err\n\t\t\t}\n\t\t\tcontinue\n\t\t}\n\t\tif nameExcludes != nil && nameExcludes[name] {\n\t\t\tcontinue\n\t\t}\n\t\tif nameIncludes != nil && !nameIncludes[name] {\n\t\t\tcontinue\n\t\t}"),
 ("m08-no-trim", "C08", "v3/lint/registration.go", "\t\tn = strings.TrimSpace(n)\n", "\t\tn = strings.Trim(n, \" \")\n"),
 ("m08-forget-ocsp", "C08", "v3/lint/registration.go", "\t\tif l := r.ocspResponseLints.ByName(n); l != nil {\n\t\t\tnamesMap[n] = true\n\t\t\tcontinue\n\t\t}\n", ""),
 ("m08-no-config-copy", "C08", "v3/lint/registration.go", "\tfilteredRegistry.SetConfiguration(r.configuration)\n", ""),
 ("m09-parse-ecdsa-sig", "C09", "v3/lints/mozilla/lint_mp_ecdsa_signature_encoding_correct.go", "func (l *ecdsaSignatureAidEncoding) Execute(c *x509.Certificate) *lint.LintResult {\n", "func (l *ecdsaSignatureAidEncoding) Execute(c *x509.Certificate) *lint.LintResult {\n\tif len(c.Signature) > 2 && c.Signature[0] != 0x30 {\n\t\treturn &lint.LintResult{Status: lint.Error, Details: \"signature is not a DER sequence\"}\n\t}\n"),
 ("m10-shared-buffer", "C10", "v3/util/fqdn.go", "func RemovePrependedWildcard(domain string) string {\n", "var lastDomain string\n\nfunc RemovePrependedWildcard(domain string) string {\n\tlastDomain = domain\n"),
 ("m11-ignore-illtyped", "C11", "v3/lint/configuration.go", "\t\tif !ok {\n\t\t\treturn fmt.Errorf(\"the [%s] section of the configuration is not a table (found %T)\", namespace, value)\n\t\t}\n", "\t\tif !ok {\n\t\t\treturn c.resolveHigherScopedReferences(target)\n\t\t}\n"),
 ("m12-blank-import", "C12", "v3/zlint.go", "\t_ \"github.com/zmap/zlint/v3/lints/etsi\"\n", ""),
 ("m13-source", "C13", "v3/lint/source.go", "\tcase RFC5480:\n\t\t*s = RFC5480\n", ""),
 ("m14-label", "C14", "v3/lint/result.go", "\tcase Notice:\n\t\treturn \"info\"", "\tcase Notice:\n\t\treturn \"warn\""),
 ("m14-omitempty", "C14", "v3/resultset.go", "`json:\"warnings_present\"`", "`json:\"warnings_present,omitempty\"`"),
 ("m15-ignore-exclude", "C15", "v3/cmd/zlint/main.go", "\t\tfilterOpts.ExcludeNames = trimmedList(excludeNames)\n", "\t\t_ = trimmedList(excludeNames)\n"),
 ("m15-summary-threshold", "C15", "v3/formattedoutput/formattedOutput.go", "\t\tif lintResult.Status > threshold {", "\t\tif lintResult.Status >= threshold {"),
 ("m16-le-2048", "C16", "v3/lints/cabf_br/lint_rsa_mod_less_than_2048_bits.go", "key.N.BitLen() < 2048", "key.N.BitLen() <= 2048"),
 ("m16-prime", "C16", "v3/util/primes.go", "big.NewInt(709), ", ""),
 ("m16-rounds", "C16", "v3/lints/community/lint_rsa_fermat_factorization.go", "for i := 0; i < rounds; i++ {", "for i := 0; i <= rounds; i++ {"),
 ("m17-break", "C17", "v3/lints/rfc/lint_ext_san_space_dns_name.go", None, None),
 ("m17-nfc-na-first", "C17", "v3/lints/rfc/lint_idn_dnsname_must_be_nfc.go", "\t\t\t\t\tunconvertible = true\n\t\t\t\t\tcontinue\n", "\t\t\t\t\treturn &lint.LintResult{Status: lint.NA}\n"),
 ("m18-removal", "C18", "v3/util/gtld.go", "if when.After(notAfter) {", "if !when.Before(notAfter) {"),
 ("m18-tolower", "C18", "v3/util/gtld.go", "labels := strings.Split(strings.ToLower(domain), \".\")", "labels := strings.Split(domain, \".\")"),
 ("m18-gen-removal-unchecked", "C18", "v3/cmd/zlint-gtld-update/main.go", "gTLD.RemovalDate != \"\" && err != nil {", "gTLD.RemovalDate == \"\" && err != nil {"),
 ("m18-gen-tolower", "C18", "v3/cmd/zlint-gtld-update/main.go", "GTLD: strings.ToLower(tld),", "GTLD: tld,"),
 ("m18-gen-tldlist-wins", "C18", "v3/cmd/zlint-gtld-update/main.go", "if _, found := tldMap[tld.GTLD]; !found {", "if _, found := tldMap[tld.GTLD]; found || !found {"),
 ("m18-gen-undelegated-kept", "C18", "v3/cmd/zlint-gtld-update/main.go", "\t\tif gTLD.DelegationDate == \"\" {\n\t\t\tcontinue\n\t\t}\n", ""),
 ("m19-mask-holes", "C19", "v3/util/ip.go", " || networksShareAddress(&net, reserved)", ""),
 ("m19-delete-block", "C19", "v3/util/ip.go", "{\"100.64.0.0/10\"}", "{\"100.64.0.0/11\"}"),
 ("m19-typo", "C19", "v3/util/ip.go", "\"198.18.0.0/15\"", "\"198.18.0.0/16\""),
 ("m20-edit-one-copy", "C20", "v3/lints/rfc/lint_ext_ian_space_dns_name.go", None, None),
]

def sh(cmd, **kw):
    return subprocess.run(cmd, shell=True, stdout=subprocess.PIPE, stderr=subprocess.STDOUT, text=True, **kw)

ENV = dict(os.environ, GOFLAGS="-mod=mod", GOPROXY="off", GOSUMDB="off", GOTOOLCHAIN="local")
SNAP = None


def run_one(m, suite):
    """One mutant in a scratch worktree of /repo (never /repo itself); the check runs against it via VERIF_ALT_REPO."""
    import hashlib, shutil
    mid, prop, path, old, new = m
    if old is None:
        return "%-28s %s SKIP (needs manual edit)" % (mid, prop), None
    wt = "/tmp/mutrun-%d-%s" % (os.getpid(), mid)
    sh("git -C %s worktree remove --force %s" % (REPO, wt))
    sh("git -C %s worktree add -q --detach %s HEAD" % (REPO, wt))
    try:
        fp = os.path.join(wt, path)
        src = open(fp).read()
        if old not in src:
            return "%-28s %s PATTERN-NOT-FOUND" % (mid, prop), None
        mut = src.replace(old, new, 1)
        for imp in ("os", "sort"):
            if (imp + ".") in new and not re.search(r'\n\t"%s"\n' % imp, mut):
                mut = mut.replace("import (\n", "import (\n\t\"%s\"\n" % imp, 1)
        open(fp, "w").write(mut)
        b = sh("cd %s/v3 && go build ./... 2>&1 | tail -3" % wt, env=ENV)
        if b.stdout.strip():
            return "%-28s %s DOES-NOT-BUILD %s" % (mid, prop, b.stdout.strip()[:200]), None
        st = "suite-not-run"
        if suite:
            t = sh("cd %s/v3 && go test -vet=off -count=1 ./... 2>&1 | grep -c '^FAIL\\|^---  *FAIL'" % wt, env=ENV)
            st = "suite-passes" if t.stdout.strip() == "0" else "SUITE-FAILS"
        t0 = time.time()
        r = sh("./check %s --tier quick" % prop, cwd=SNAP, env=dict(ENV, VERIF_ALT_REPO=wt))
        verdict = {0: "MISSED", 1: "CAUGHT", 2: "INCONCLUSIVE"}.get(r.returncode, "rc=%d" % r.returncode)
        sig = ""
        mm = re.search(r"signature=(.*)", r.stdout)
        if mm:
            sig = mm.group(1)[:90]
        return "%-28s %s %-12s %-13s %5.1fs %s" % (mid, prop, verdict, st, time.time() - t0, sig), (mid, prop, verdict, st, sig)
    finally:
        sh("git -C %s worktree remove --force %s" % (REPO, wt))
        shutil.rmtree(os.path.join(SNAP, ".build", "alt-" + hashlib.sha1(wt.encode()).hexdigest()[:10]), ignore_errors=True)


def main():
    global SNAP
    import shutil
    from concurrent.futures import ThreadPoolExecutor
    args = sys.argv[1:]
    suite = "--suite" in args
    par = 3
    if "-j" in args:
        par = int(args[args.index("-j") + 1])
        del args[args.index("-j"):args.index("-j") + 2]
    want = set(a for a in args if not a.startswith("-"))
    SNAP = "/tmp/verif-snap-mut-%d" % os.getpid()
    shutil.rmtree(SNAP, ignore_errors=True)
    assert sh("rsync -a --exclude .git --exclude .build --exclude replays --exclude seeded /verif/ %s/" % SNAP).returncode == 0
    todo = [m for m in M if not want or m[0] in want or m[1] in want]
    res = []
    with ThreadPoolExecutor(max_workers=par) as ex:
        for line, r in ex.map(lambda m: run_one(m, suite), todo):
            print(line, flush=True)
            if r:
                res.append(r)
    shutil.rmtree(SNAP, ignore_errors=True)
    os.makedirs("/verif/.build", exist_ok=True)
    json.dump(res, open("/verif/.build/mutants-last.json", "w"), indent=1)

if __name__ == "__main__":
    main()
