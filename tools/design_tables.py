#!/usr/bin/env python3
"""Refreshes the seeded-changes table in DESIGN.md from seeded/*/meta.json."""
import json, os, re
root = "/verif/seeded"
rows = ["| variant | files | needs to manifest | quick check | caught by (signature) |", "|---|---|---|---|---|"]
for name in sorted(os.listdir(root)):
    mp = os.path.join(root, name, "meta.json")
    if not os.path.exists(mp):
        continue
    m = json.load(open(mp))
    files = ", ".join(os.path.basename(f) for f in (m.get("files") or []))
    needs = " ".join((m.get("needs_to_manifest") or "").replace("|", "/").split())
    if len(needs) > 170:
        needs = needs[:167] + "…"
    cells = []
    for k, v in sorted((m.get("checks") or {}).items()):
        cells.append("%s %s" % (k, v["verdict"]))
    sig = "; ".join(sorted({(v.get("signature") or "").replace("|", "¦")[:70] for v in (m.get("checks") or {}).values() if v.get("signature")}))
    rows.append("| %s | %s | %s | %s | %s |" % (name, files, needs, ", ".join(cells), sig))
table = "\n".join(rows)
p = "/verif/DESIGN.md"
s = open(p).read()
s = re.sub(r"<!-- SEEDED-TABLE -->.*?<!-- /SEEDED-TABLE -->|<!-- SEEDED-TABLE -->", lambda _m: "<!-- SEEDED-TABLE -->\n" + table + "\n<!-- /SEEDED-TABLE -->", s, count=1, flags=re.S)
open(p, "w").write(s)
print("table rows:", len(rows) - 2)
