#!/usr/bin/env python3
"""Regenerates MANIFEST.json from checks_table.CHECKS + manifest_texts.TEXTS."""
import json, os, sys
ROOT = os.path.dirname(os.path.abspath(__file__))
sys.path.insert(0, ROOT)
from checks_table import CHECKS
from manifest_texts import TEXTS, NOT_APPLICABLE, HOOK_COMMITS

ids = [json.loads(l)["id"] for l in open(os.path.join(ROOT, "properties.jsonl"))]
checks = []
for pid in ids:
    if pid not in CHECKS or pid not in TEXTS:
        continue
    t = TEXTS[pid]
    checks.append({
        "property_id": pid,
        "quick_cmd": "./check %s --tier quick" % pid,
        "thorough_cmd": "./check %s --tier thorough" % pid,
        "evidence_file": "/verif/evidence/%s.json" % pid,
        "replay_cmd_template": "./check %s --replay {path}" % pid,
        "engine": "harness",
        "level_claimed": {"category": CHECKS[pid].get("level", "exploration"), "text": t["level_text"], "design_ref": t.get("design_ref", "DESIGN.md §4 " + pid)},
        "level_note": t["level_note"],
        "technique": t["technique"],
    })
na = [{"property_id": p, "reason": NOT_APPLICABLE.get(p, "check not built yet in this session; see DESIGN.md §4 for the planned generated check")} for p in ids if p not in {c["property_id"] for c in checks}]
m = {
    "version": 1,
    "setup_cmd": "./setup.sh",
    "hooks": {
        "guard": "verif",
        "enable": "checks build the harness (and through it /repo/v3) with `go test -c -tags verif`; no zlint source carries that tag unless listed in source_commits",
        "baseline_off_cmd": "for m in v3 v3/cmd/genTestCerts v3/cmd/gen_test_crl; do (cd /repo/$m && GOFLAGS=-mod=mod go test -json -vet=off -count=1 -timeout 25m ./...); done",
        "source_commits": HOOK_COMMITS,
        "add_only": True,
    },
    "engines": [{"name": "harness", "path": "/verif/harness", "serves_properties": [c["property_id"] for c in checks],
                 "kind_free_text": "Go module: pgregory.net/rapid v1.3.0 properties (stateful where histories matter), exhaustive enumeration of finite domains, native go fuzzing in the thorough tier; python3 driver ./check shards, merges statistics and writes evidence"}],
    "checks": checks,
    "not_applicable": na,
    "notes": "All checks: ./check <ID> --tier quick|thorough [--replay F]; exit 0 held / 1 VIOLATION / 2 inconclusive. Known findings: KNOWN_FINDINGS.txt.",
}
json.dump(m, open(os.path.join(ROOT, "MANIFEST.json"), "w"), indent=1)
print("MANIFEST.json: %d checks, %d not_applicable" % (len(checks), len(na)))
