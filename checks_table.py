"""Per-property leg table used by ./check (kept apart so MANIFEST generation can import it)."""


def fuzz_legs(seconds):
    # native coverage-guided fuzzing, thorough tier only (cannot be pinned to a seed)
    return [{"pkg": "props", "run": n, "fuzz": n, "fuzztime": seconds, "fuzzpar": 4, "timeout": seconds + 600, "replay_pkg": False}
            for n in ("^FuzzCert$", "^FuzzCRL$", "^FuzzOCSP$", "^FuzzGen$")]


def legs_with_mock(run, qshards, tshards, fuzz=False, cold=False):
    def f(tier):
        legs = [{"pkg": "props", "run": run, "shards": qshards if tier == "quick" else tshards},
                {"pkg": "mockreg", "run": "^TestMock$", "shards": 4 if tier == "quick" else 16}]
        if cold:
            # first use of the global registry, concurrent, under the race detector: one fresh process per shard
            legs.append({"pkg": "racecheck", "run": "^TestColdStart$", "shards": 4 if tier == "quick" else 16, "race": True})
        if fuzz and tier == "thorough":
            legs += fuzz_legs(120)
        return legs
    return f


def legs_fuzz(run, qshards, tshards):
    def f(tier):
        legs = [{"pkg": "props", "run": run, "shards": qshards if tier == "quick" else tshards}]
        if tier == "thorough":
            legs += fuzz_legs(150)
        return legs
    return f


def legs_simple(pkg, run, qshards, tshards, **kw):
    def f(tier):
        d = {"pkg": pkg, "run": run, "shards": qshards if tier == "quick" else tshards}
        d.update(kw)
        return [d]
    return f


HOME_SWEEP = "home sweep (enumerated in both tiers): a greedy cover of corpus objects gives every registered lint K objects on which its body runs (one passing, one reporting where the corpus has both); every (leaf x type-aware edit) mutant of those objects - OID leaves: OID dictionary harvested from zlint's sources + well-known algorithm/attribute/extension/EKU/policy OIDs (own family + 2 of each other family in quick, all in thorough); integers, times, bit strings, booleans: value lists; other leaves: ~170 hostile strings, edge bytes, re-tagging to 8 string and 16 other universal types (five of them tag numbers that need more than one identifier octet), typed replacements - is linted with the lints the object was chosen for (self-signed bases: edit alone and edit + re-signing); inner nodes get 14 structural edits (truncated body, child dropped / duplicated / reversed, SEQUENCE<->SET, extra nesting ...); a feature cover adds one certificate per corpus OID that no home object has (field around it swept with every lint that runs), and synthetic CRLs / OCSP responses carry the fields the corpus lacks"

COMMON_ASSUME = [
    "inputs are those the zcrypto / x-crypto parsers accept (a parser error or a parser panic means: not in the domain)",
    "generated objects come from the v3/testdata corpus, DER-tree edits of it, and builders; shapes none of them reaches stay unexplored",
]

CHECKS = {
    "C01": {
        "legs": legs_with_mock("^TestC01$", 12, 16, fuzz=True, cold=True),
        "rule": "rapid: object (cert 70% / CRL 20% / OCSP 10%: corpus, 0-4 DER-tree edits, openers re-date/re-scope, built CRLs/OCSP) x registry "
                "(nil, global, Filter(generated), Filter of Filter) x configuration (none, empty, example, unrelated, well-typed, ill-typed); plus the whole "
                "corpus under the default registry (enumerated); " + HOME_SWEEP + " (K=2 quick / 3 thorough; inner-node edits include an extra trailing element of each class) through Lint*Ex; cold start (race-detector build, one fresh process per shard): the first use of the global registry, and the first use after two run-time registrations, is eight goroutines linting at once - every result set complete and equal to a later sequential one. Oracle: result-set invariants. Non-trivial = parseable, >=1 result above pass, and bytes edited "
                "or registry filtered or configuration given; distinct by hash(DER, filters, config). After additions (enumerated): eleven lints of every kind registered one at a time through the public API, the registry put to every kind of use (lint runs of all three kinds, listings, lookups, JSON listing, example configuration) and offered registrations it refuses between two of them; after each a certificate, a CRL and an OCSP response linted through the global registry (explicit and default) must carry a result for every lint of the kind, late ones included. The lints expected in a result set are those the per-kind list shows plus those Names() x per-kind ByName shows.",
        "assumptions": COMMON_ASSUME + ["'hang' = a single Lint*Ex call exceeding 45 s (about 30 000 times its normal duration)",
                                         "mock leg: 90 instrumented lints (15 sources x 3 kinds x plain/configurable) registered through the public Register* API in a test binary of their own; "
                                         "generated scripts make all 16 flag combinations and all 7 statuses occur"],
    },
    "C02": {
        "legs": legs_fuzz("^TestC02$", 14, 16),
        "rule": "corpus + single-leaf-edit sweep (corpus object x leaf x ~190 deterministic edits; strided 1/97 sample in quick, complete in thorough) + rapid multi-edit / "
                "crossover / opener / built objects, empty configuration, full registry; " + HOME_SWEEP + " (K=2 quick / 4 thorough) with the reference lifecycle next to it; enumerated revocation lists over the calendar (leap days, month / year ends x 10 days / 11-13 months / 1 year +- 1 s / 1 day) x the CRL lint's option; rapid objects under well-typed configurations of the configurable lints; a soak history (one process lints > 1500 distinct generated names, then an early object again). Oracle: no recovered-panic result, no escaping panic, reference lifecycle "
                "body does not panic, fatal only as the body's own verdict. Non-trivial = parseable, differs from every corpus file, >=1 lint body executed; distinct by hash(DER).",
        "assumptions": COMMON_ASSUME,
    },
    "C03": {
        "legs": legs_with_mock("^TestC03$", 12, 16),
        "rule": "every certificate lint is also reached through the deprecated Registry.ByName / BySource copies (same window, same verdict), and the mock leg keeps one long-lived lint.Lint value per mock whose dates are rewritten in place and on by-value copies. "
                "enumerated boundary sweep: every lint with a dated boundary x K home objects (2 quick / 12 thorough) x {eff,ineff} x {-1s,0,+1s} x time forms "
                "(UTCTime Z, GeneralizedTime Z; +0100 / -0500 offsets in thorough; where the object kind keeps fractional seconds also -500 ms, -1 ns, +500 ms) with the parsed dates additionally converted to zones +14/-12/+0530; rapid: generated "
                "objects re-dated to registry dates +-{0,1s,1d} or uniform. Every lint of the kind is judged on every object against the integer window model. "
                "Non-trivial = (lint, boundary, side, object) with the lint applicable and the object dated within 1 s of that lint's boundary. The caller's copy of a deprecated registry lint (Registry.ByName) with its window moved to one second either side of the object's date (five placements) is judged by the moved window.",
        "assumptions": COMMON_ASSUME + ["boundaries outside 1951..2048 (zlint's year-0 'ZeroDate') cannot be approached from both sides in UTCTime and are skipped in the sweep"],
    },
    "C04": {
        "legs": lambda tier: legs_with_mock("^TestC04$", 12, 16)(tier) + [
            # certificates of different scope linted side by side (quick ones next to ones with very long lists), race-detector build
            {"pkg": "racecheck", "run": "^TestConcurrentScope$", "shards": 2 if tier == "quick" else 8, "race": True, "replay_pkg": False}],
        "rule": "mock leg: configurable mocks are configured with a scalar and two slices, report what they were handed, mutate it in place, and are run twice per registry (every instance is owed a freshly decoded configuration); "
                "framework results are compared with the deprecated Registry.ByName(...).Execute path too. enumerated single-feature scope matrix ({no EKU, each of 8 EKUs} x {no policy, each of 18 scope OIDs, anyPolicy, unrelated} x 9 e-mail-SAN variants (absent, rfc822Name, SmtpUTF8Mailbox well-formed / Latin-1 / OCTET STRING / trailing element / empty wrapper / empty string, empty rfc822Name) on the 3 "
                "corpus certificates that are home to most TLS/SMIME/CS lints; the same scope variants are objects of the mock leg, where run-time lints of every source meet them) + a soak history + corpus + rapid objects with openers, filters and configurations. Oracle: framework result == "
                "reference lifecycle (scope model, fresh instance, MaybeConfigure, CheckApplies, integer window, Execute) for every lint, status and details. "
                "Non-trivial = object on which >=1 lint's lifecycle stage differs from the untransformed base; distinct by hash(DER). Concurrent scope (race-detector build): certificates in / out of scope of each document (key purposes, policy identifiers, a SAN mailbox), short ones next to ones with hundreds to thousands of filler policy identifiers, linted by eight goroutines at once - every digest equals the one computed alone. Configured, then filtered (enumerated): a configuration (an alternative option value, a section that cannot be applied) installed on the global registry before filters of every shape (sources only, names only, a pattern, chains) - the filtered registry must work with it; in the rapid legs a drawn configuration goes to the parent or to the filter result by a coin. Recycled certificate value: all matrix certificates written one after the other into ONE certificate value and linted through it with nothing else in between - same verdicts as on values of their own.",
        "assumptions": COMMON_ASSUME + ["mock-lint call logs (constructor/Configure/CheckApplies/Execute order) are covered by the mockreg leg"],
    },
    "C06": {
        "legs": lambda tier: [{"pkg": "props", "run": "^TestC06$", "shards": 14 if tier == "quick" else 16},
                              # the reporting corpus objects linted by eight goroutines at once: prefix rule and sequential digests, race-detector build
                              {"pkg": "racecheck", "run": "^TestConcurrentCorpus$", "shards": 4 if tier == "quick" else 16, "race": True, "replay_pkg": False}],
        "rule": "every lint run contributes a (lint, status) tally: corpus, boundary objects of every dated lint, " + HOME_SWEEP + " (K=2), rapid edits directed at the home objects of each lint, generated objects with openers, the calendar CRL enumeration x the CRL lint's option, rapid objects under well-typed configurations; S/MIME subjects whose mailboxes reappear in the SAN verbatim, in their other IDNA spelling, as SmtpUTF8Mailbox (well-formed or not) or not at all. "
                "Oracle: status in {pass, NA, NE, fatal} or the one severity the name prefix allows; every registered name has exactly one prefix (enumerated). "
                "Non-trivial = distinct (lint, status above pass) pair observed. Sections that cannot be applied (enumerated: scalar, string, array, array of tables, date, wrong field type, table for a scalar x every configurable lint x objects it runs on; and one rapid case in five of the configured leg): what the framework answers in the lint's place must also fit the lint's prefix. Concurrent corpus (race-detector build): the corpus objects on which some lint reports are linted by eight goroutines at once in different rotations - every result obeys the prefix rule and every digest equals the sequential one.",
        "assumptions": COMMON_ASSUME + ["only executed return paths are observed"],
    },
    "C12": {
        "legs": lambda tier: [{"pkg": "props", "run": "^TestC12$", "shards": 1 if tier == "quick" else 4},
                              # names, listings and lookups agree also when a registry's first use is concurrent (race-detector build)
                              {"pkg": "racecheck", "run": "^TestFreshRegistryReads$", "shards": 2 if tier == "quick" else 8, "race": True, "replay_pkg": False}],
        "exhaustive": True,
        "rule": "enumerated: every Register* call found by a go/parser census of v3/lints/*/*.go (non-test) and every lint in the "
                "default-build registry, each checked once (census==registry, lookups agree, metadata well-formed); generated: "
                "after each of six run-time registrations (every kind, sources shared across kinds) the registry and every one- and two-lint view without certificate lints must agree with themselves (listing, per-kind sources, per-kind Names() sorted and duplicate-free, lookups); rapid near-miss / random names and sources looked up in the global and in generated filtered registries. "
                "Non-trivial = one registered lint (census entry or metadata record) or a lookup that must miss; distinct by name. A lint's source must also be one the library's own recognisers know: LintSource.FromString gives it back and it survives JSON decoding. Fresh-registry reads (race-detector build): on an untouched Filter result three goroutines make the same first call at the same moment while six others read - names, listings and lookups agree with an untouched twin, and the registry still lists and filters the same afterwards.",
        "assumptions": ["lint registrations are syntactic lint.Register* calls with a literal Name (the census reports any that are not)",
                        "the harness test binary imports github.com/zmap/zlint/v3 exactly as a default build does"],
    },
    "C07": {
        "legs": legs_simple("props", "^TestC07$", 14, 16),
        "needs_cli": True,
        "rule": "enumerated: every lint alone (Filter IncludeNames=[l]) on K of its home objects (2 quick / all thorough); rapid: generated objects x generated valid FilterOptions "
                "(singletons, subsets, sources, regexps, chains of two filters), on fresh parses and on one shared parsed object in both orders; inherited configurations (well- and ill-typed), and an earlier equal Filter whose result was reconfigured; lint-order oracle: corpus certificates, structured certificates and the home-sweep mutants (half of them in quick, all in thorough) are linted in the registry's order and in reverse order on fresh parses - every status must agree. Oracle: selected lints' status and "
                "details equal the full run's, keys == selected lints of the kind, filtered flags imply full flags. Non-trivial = proper non-empty selection with >=1 finding among "
                "the selected lints; distinct by hash(DER, filters). Every sweep mutant is linted once in the registry's order; the reverse-order run follows whenever that run left the parsed object different from a freshly parsed twin, and for one mutant in four besides (all in thorough). The corpus with lengthened lists (slices with spare capacity) goes through the order oracle too. Revocation lists and OCSP responses go through the lint-order oracle too (status and details; corpus, synthetic rich ones, reason-code orders, 17 ... 10000 entries), each with every lint of its kind alone vs the full run. The CLI -config matrix runs as a leg: a narrowed run under -config gives each selected lint what the library gives it.",
        "assumptions": COMMON_ASSUME,
    },
    "C08": {
        "legs": legs_simple("props", "^TestC08$", 14, 16),
        "rule": "rapid FilterOptions over the real registry and over pre-filtered registries: name lists (nil / empty / known names with stray blanks, duplicates, all three kinds, "
                "case-changed, truncated, empty, random), source lists (all constants, Unknown, arbitrary strings, sources without lints), regexps from a dictionary and a grammar over fragments of real names, all combinations; a non-empty filter result is a registry of its own (reconfiguring it leaves the source and later equal filters alone); lints of every kind (nine, some without a source, names sorting before and after every built-in) registered one at a time at run time are filtered like any other; blanks around names and sources include the Unicode ones. "
                "Oracle: set-algebra model of the statement (error cases, selection, kind, metadata, object identity, Sources(), sorted Names(), lookup consistency, source registry "
                "unchanged, configuration inherited - probed behaviourally). Non-trivial = >=2 populated option fields and a result neither empty nor everything; distinct by options.",
        "assumptions": ["'known name' means known to the registry being filtered", "Filter with empty options returns the receiver (documented)"],
    },
    "C11": {
        "legs": legs_with_mock("^TestC11$", 14, 16),
        "needs_cli": True,
        "rule": "rapid TOML documents (empty, unrelated sections incl. other lint names / global sections / nested tables, well-typed options for the configurable lints discovered at "
                "run time, ill-typed shapes: scalar / array / array-of-tables / wrong field type / table for a scalar) x home objects of those lints, built CRLs, other corpus objects; "
                "rapid state machine over registries (SetConfiguration / Filter - empty options (alias), excluding one lint, and non-empty options that select everything (name pattern, all sources, all names) - / lint) against a model of which configuration each registry holds; "
                "enumerated CLI matrix: every configurable lint x its configuration-sensitive objects x selection flags {none, the lint alone, all but another, its source, a name pattern, a foreign source excluded} x {alternative option, empty file, no -config}: the real binary's verdicts must equal the library's under that configuration; the loaders agree (string / reader / file, comment preambles of 0 B - 1 MiB; the file's path first held another document of the same length and modification time); mock leg: configurable mocks with higher scoped references by value and through pointers x five ill-typed shapes - exactly the lint named by a broken section reports fatal with a configuration error naming it, every other lint is what it is without it; the calendar CRL enumeration against the option model; unrelated names bound to scalars / arrays / arrays of tables; the example "
                "configuration is parsed with go-toml. Non-trivial = document naming a configurable lint (distinct by DER+TOML) or a history with >=2 SetConfiguration.",
        "assumptions": COMMON_ASSUME + ["option semantics modelled for the four configurable lints present today; a new configurable lint is checked against the reference lifecycle only"],
    },
    "C13": {
        "legs": legs_simple("props", "^TestC13$", 4, 8, ),
        "needs_cli": True,
        "exhaustive": False,
        "rule": "enumerated: every Names() element as sole include and sole exclude (padded), every Sources() element through LintSource.FromString, SourceList.FromString (alone, padded, "
                "in lists), JSON round trip, Include/ExcludeSources and the real CLI (-includeSources/-excludeSources -list-lints-source; -includeNames/-excludeNames for every 9th name "
                "in quick, all in thorough), every registered profile; rapid: unknown tokens (case-changed, truncated, suffixed, random) must be rejected by Filter, SourceList.FromString, "
                "JSON decoding and the CLI; every known source (constants harvested from source.go) with stray blanks / separators around it, and generated padded tokens: whatever FromString / SourceList.FromString / JSON decoding accepts must be one of the known sources. After run-time registrations every listed name is accepted alone and in lists of 2-40 names, and every list accepted before an addition is submitted again after it together with the new names; CLI selector combinations (two bad values, bad + good, names glued without a separator); profiles registered at run time come back from GetProfile as registered, select exactly their lints, and are rejected when they name an unknown lint. Non-trivial = one listed name/source/profile case or one unknown token; distinct by (what, token, padding). Every listed name is also offered next to source options (its own source excluded / another source included, as include and as exclude name): accepted, and the selection follows the documented rule.",
        "assumptions": ["the CLI binary is built from the working tree by the driver", "no profile is registered today, so the profile leg is vacuous until one is"],
    },
    "C14": {
        "legs": lambda tier: [{"pkg": "props", "run": "^TestC14$", "shards": 14 if tier == "quick" else 16},
                              # encoders under concurrency, race-detector build
                              {"pkg": "racecheck", "run": "^TestConcurrentJSON$", "shards": 4 if tier == "quick" else 16, "race": True, "replay_pkg": False}],
        "needs_cli": True,
        "rule": "enumerated: status values -3..12, the eight labels (again after the library's own summary printer has run), WriteJSON of the global registry and of one holding harness lints with far-future / pre-1970 dates; rapid: result sets from generated objects (biased to names with invalid UTF-8, "
                "quotes, <>&, NUL so details carry them), synthetic results with arbitrary details bytes x each status, arbitrary label strings, arbitrary JSON tokens in the place of a status (numbers, null, booleans, arrays, objects, escaped strings: decoding fails cleanly - never a panic - or yields a label's status), WriteJSON of generated filtered "
                "registries; result sets whose details carry %, quotes, <>&, control or invalid bytes are also printed by the real CLI (default / -pretty) and decoded. Oracle: Unmarshal(Marshal(x)) reproduces keys, status, details (invalid bytes -> U+FFFD), flags, version, timestamp; labels distinct/stable; unknown labels "
                "rejected; listing lines decode strictly to name/description/citation/known source. Non-trivial = result set with >=1 non-empty details (distinct by details content), "
                "a synthetic result, a label or a listing. After each of six late registrations (every kind; registry in full use between them) the listing is judged again, for the whole registry and for views; encoders under concurrency (race-detector build): result sets incl. details with invalid UTF-8 / quotes / 15 kB, single results, statuses (also through MarshalJSON directly), sources and the listing encoded by eight goroutines - byte-identical to the encoding made alone, and decodable.",
        "assumptions": COMMON_ASSUME,
    },
    "C09": {
        "legs": legs_with_mock("^TestC09$", 14, 16),
        "rule": "rapid: generated certificates (corpus, 0-3 DER edits, openers) whose issuer differs from the subject x a replacement signature BIT STRING of the same length "
                "(random, all-zero, all-one, one bit flipped, another corpus certificate's signature of equal length, a fresh well-formed ECDSA-Sig-Value, reversed, BIT STRINGs with 1-7 unused bits / empty / odd length, enumerated: every (inner, outer) pair of the corpus' AlgorithmIdentifier encodings x 3 signatures; mock leg: recovered panics and configuration errors must not depend on the signature bits either; a slice of the certificate's own tbsCertificate, one of its own extensions re-encoded (as is / explicit critical FALSE / TRUE / whole list), its own names, validity, serial or key). Oracle: "
                "identical status and details for every lint, SelfSigned false on both. Non-trivial = signature bits actually differ and >=1 lint body executed; distinct by (DER, DER'). Look-alike issuers (enumerated): every seventh corpus certificate with its issuer replaced by a look-alike of its subject (string types swapped, all attributes in one multi-valued RDN, last two RDNs merged, upper case, trailing blank, RDNs reversed - never the same bytes) and signed so that the signature verifies under the certificate's own key, against the same TBS with the signature zeroed, one bit flipped, reversed.",
        "assumptions": COMMON_ASSUME + ["a variant the parser rejects is counted, not judged"],
    },
    "C16": {
        "legs": lambda tier: [{"pkg": "props", "run": "^TestC16$", "shards": 14 if tier == "quick" else 16},
                              # key-quality verdicts from eight goroutines at once, race-detector build
                              {"pkg": "racecheck", "run": "^TestConcurrentKeys$", "shards": 6 if tier == "quick" else 16, "race": True, "replay_pkg": False}],
        "needs_cli": True,
        "rule": "enumerated: every divisor 2..769 times a 1031-bit prime, bit lengths {1,2,8,512,1023..1025,2040,2047..2049,2056,3071..3073,4096} x exponents {1,2,3,4,65535..65538,2^31-1,2^62+1} "
                "(a quarter of the base/threshold/exponent grid per seed), genuinely self-signed roots built from 10 committed keys of 1023..4096 bits under the base's validity and eight periods on every side of the 2011 / 2014 dates; rapid: moduli near thresholds, "
                "uniform 2..4200 bits, multiples of 8 +-1, even, primes around 752 x prime, products of two primes; exponents incl. 2^63-1; Fermat: products of primes whose distance is "
                "aimed at 0..4000 rounds (also 1536- / 2048-bit primes: moduli above 2048 bits), moduli made of all-ones / near-all-ones / zero machine words, applicability independent of the key value, Rounds configured at need-1..need+2 - a budget of them also through the real CLI with -config and generated selection flags, plus the enumerated CLI -config matrix for the Fermat lint. Keys are written into the SPKI of home certificates of the 14 lints. Oracle: math/big predicates, applied "
                "where the reference lifecycle says the lint executed. Non-trivial = (lint, bit length within 1 of a threshold) or (lint, key with the finding) or a Fermat (N, Rounds) case. Aligned differences (enumerated): 256- and 512-bit prime pairs whose half-difference is m*2^s, m*2^s - 1 or m*2^s + 1 for s in {31,32,33,63,64,65,96,128} (low machine words all zero / all ones / one bit), default rounds and Rounds = 1. Concurrent leg (race-detector build): chosen keys (small factors either side of 752, short modulus, odd exponents) judged by eight goroutines - every digest equals the one computed alone. The concurrent key leg makes the process's first key-quality calls (no lint has run before the eight goroutines start); the sequential reference follows.",
        "assumptions": COMMON_ASSUME + ["Fermat Rounds <= 2000", "perfect squares are excluded from the Fermat must-report direction"],
    },
    "C17": {
        "legs": legs_simple("props", "^TestC17$", 14, 16),
        "rule": "enumerated in both tiers: every unordered pair of a pool of ~150 GeneralNames of every arm (DNS names incl. letter-case variants (also of A-labels whose decoding depends on case), non-NFC A-labels, reverse-DNS names of both families, onion, IDN, wildcards, 130-label names; e-mail, URI, IP, other arms) as a two-entry SAN in both orders on the "
                "subscriber certificate that is home to most name lints - DNS pairs with the common name removed, equal to the first and equal to the second entry; every corpus certificate x 5 fixed permutations of its extension list. "
                "rapid: certificates whose SAN is rebuilt from 2-8 GeneralNames of every arm (compliant, non-compliant, unparseable; dictionary + corpus donors) x a permutation "
                "(adjacent transposition, reversal, rotation, Fisher-Yates) x common name (as is, removed, copy / upper-case / lower-case of an entry, unrelated); e-mail-like entries incl. malformed SmtpUTF8Mailbox otherNames x everything on an S/MIME certificate; extension crossover (every donor extension first vs last); generated certificates without duplicate extension OIDs x a permutation of the extension list. Self-signed "
                "bases are re-signed on both sides. Oracle: identical status vector. Non-trivial = non-identity permutation of a pair with >=1 finding; distinct by (DER, DER'). Decoy extensions (enumerated): next to each extension of ~70 carrier certificates an extension whose identifier is a relative of it (first arc changed, last arc +-1, an arc shifted by 2^8 / 2^24, child, parent) with an empty value, once first and once last.",
        "assumptions": COMMON_ASSUME + ["pairs that the parser accepts in one order only are counted, not judged"],
    },
    "C18": {
        "legs": lambda tier: [{"pkg": "props", "run": "^TestC18$", "shards": 8 if tier == "quick" else 16},
                              # the table generator (package main): sources copied verbatim from the tree under test, driven in-package
                              {"pkg": "gtldupdate", "run": "^TestC18Generator$", "shards": 2 if tier == "quick" else 8,
                               "gensrc": {"from": "cmd/zlint-gtld-update", "tmpl": "gtldgen", "name": "gtldupdate"}},
                              {"pkg": "racecheck", "run": "^TestColdUtil$", "shards": 2 if tier == "quick" else 8, "race": True, "replay_pkg": False}],
        "rule": "the TLD table is read as data with go/parser; enumerated in both tiers: well-formedness of every entry, and HasValidTLD for every entry x {delegation, removal} x "
                "{-1s,0,+1s} x 3 spellings x 3 zones; rapid: labels from table keys (any case), near misses, fixed internal names, random strings x domain shapes x instants (near a "
                "boundary or uniform 1980-2040); certificates: home objects of e_dnsname_not_valid_tld with generated SAN/CN and notBefore, and (enumerated) 27 common names that are or only resemble IP literals (zones, brackets, ports, leading zeros, short forms); 16 extreme instants per table entry (year 1 ... 9999); the Unicode spellings of the table's xn-- keys (not in the table); bit-5 look-alikes of table keys (@ [ \\ ] ^ _ ` for letters); CN = case variant of a SAN entry. Oracle: integer model of the statement "
                "(ASCII case-insensitive). Non-trivial = (entry, boundary, side, spelling), a missing label, or a generated certificate. Cold leg (race-detector build, fresh processes): the first calls of HasValidTLD / IsInTLDMap and the other pure helpers are concurrent, then repeated alone - answers agree.",
        "assumptions": ["labels containing a character that some case mapping relates to an ASCII character (KELVIN SIGN, LONG S, dotted capital I) are not judged; every other non-ASCII label is 'not in the table'",
                        "generator leg: registry data are what the two ICANN feeds publish - lower-case LDH gTLD names in the JSON, upper-case names one per LF-terminated line in the TLD list, removal not earlier than delegation, no entry called onion; the HTTP layer is replaced by a fake transport"],
    },
    "C19": {
        "legs": lambda tier: [{"pkg": "props", "run": "^TestC19$", "shards": 8 if tier == "quick" else 16},
                              # the first calls of a fresh process are concurrent, under the race detector
                              {"pkg": "racecheck", "run": "^TestColdUtil$", "shards": 3 if tier == "quick" else 12, "race": True, "replay_pkg": False}],
        "rule": "enumerated in both tiers: first/last/one-below/one-above address of each of 22 special-purpose blocks written from the RFCs, every prefix length 0..32/128 around the "
                "first, middle and last address of every block in 4-byte and IPv4-mapped form (so every super-net and sub-net), 26 public anchors; unmasked network bases (host bits set) against every block; rapid: addresses near blocks, "
                "perturbed anchors, uniform v4/v6 x any prefix; certificates with generated iPAddress SANs, IP common names and permitted (and, next to them, excluded) IP name constraints on home objects. "
                "Oracle: block member => reserved; anchor => public; forms agree; /32 or /128 network == address test; contains a reserved witness => intersects; super-net "
                "monotonicity; lints == function results. Non-trivial = block edge address, super-net of a block, address inside a block, or a generated certificate. Masks that are not prefixes (a name constraint carries address and mask as two byte strings): enumerated - every public anchor x every model block of its family with the mask that keeps exactly the bits on which they agree (host part closed / open / every other bit open); rapid - prefix masks with 1-4 holes, whole-octet masks, random masks; oracle: membership is x AND mask == address AND mask, a member inside a model block (constructed bit by bit) => intersects, 4-byte == IPv4-mapped spelling, clearing one more mask bit keeps intersecting; certificate level: permitted subtrees with holes in the mask. Cold leg (race-detector build, fresh processes): first calls of the address / network functions concurrent, then alone.",
        "assumptions": ["the model blocks are the ones named in the statement; the implementation may reserve more"],
    },
    "C20": {
        "legs": legs_simple("props", "^TestC20$", 14, 16),
        "rule": "rapid content placed so both members of a pair see the same thing: DNS names (dictionary / random) with CN empty or equal to a SAN entry; identical GeneralNames of all "
                "arms (incl. hostile bytes) in SAN and IAN; issuer DN = subject DN built from generated RDNs (blanks, multi-valued, every string type); AIA URLs (internal, reserved, odd "
                "hosts) on certificates in both TLS and S/MIME scope; validity lengths around 397/398 days +-2 s; given name / surname of 1..33000 runes; plus generic generated "
                "certificates; the URI grammar's cross product (4800 URIs) as the one entry of SAN and IAN; AIA hosts under TLDs that have left the root zone; names of 130 labels; blank-padded values at the length limits; pair sweep (enumerated): for every pair K corpus certificates on which both members run (1 quick / 5 thorough) x every (leaf x type-aware edit) mutant - alone, with the SAN value then copied into the IAN, "
                "and with the subject then copied into the issuer - linted with all pair members. 23 pairs (20 twins, 3 companions). A pair is judged only when the reference lifecycle shows both bodies executed and the content predicate holds. "
                "Non-trivial = judged pair with >=1 finding; distinct by (pair, DER).",
        "assumptions": COMMON_ASSUME + ["'same content' = CN empty/IP/in SAN; exactly one SAN and one IAN extension with identical values; RawSubject == RawIssuer"],
    },
    "C05": {
        "legs": legs_simple("props", "^TestC05$", 14, 16),
        "tools": [{"pkg": "cmd/oneshot", "name": "oneshot", "env": "VERIF_ONESHOT", "cgo": False}],
        "rule": "(0) every mutant of the home sweep: the linted object equals an unlinted twin (deep comparison of every exported field); one unit in twelve (all in thorough): three runs agree in status and details; EKU x KU combinations enumerated; a soak history (> 1500 distinct names, then an early object again gives its first verdict); fresh-process digests are also compared under four enumerated zones (UTC+14, UTC-12, +5:45, New York). (1) repetition: corpus (enumerated) and rapid-generated objects/registries linted R times (12 quick / 40 thorough) on fresh parses, plus directed shapes prone to "
                "map-iteration order (several duplicated extensions, several EV .onion names); (2) rapid state machine: lint / filter / re-set configuration over 2-5 generated objects "
                "and up to 4 registries, re-using parsed objects, against a memo of the first verdict; (3) read-only: reflect walk over every exported field of the linted object vs an "
                "unlinted twin; (4) a bundle of corpus + generated objects linted in a fresh process (oneshot, CGO off) - digests must equal the in-process ones under rapid-generated "
                "environments (TZ, LANG, HOME, TMPDIR, unrelated variables, cwd, empty env) - and under strace -f: no file, network, process or descriptor I/O system call may start "
                "inside the marked lint window. Non-trivial = object with >=1 finding carrying details (distinct by case hash), a history of >=3 steps over >=2 registries, or an environment. Predecessor sweep (enumerated): for every lint, every corpus object on which it reports (and some on which it passes; up to 5 / 12) is linted immediately before every object of the kind (corpus + synthetic rich CRLs / OCSP responses) - the victim's status and details must be what they are after any other predecessor (~1.8 M pairs). Corpus with lengthened lists (SAN arms, policies, key purposes, organizational units padded to 3, 5, 6, 7 ... entries with capital letters, so parser-built slices have spare capacity): read-only and repetition. Corpus in another order: each shard lints the whole corpus (full registry) in a seed-derived permutation - every object's verdicts equal those of the file-name-order pass. Dated predecessors: every lint's home objects re-dated to one second before each of the ~60 date literals harvested (go/parser) from zlint's util / lint / lints sources serve as predecessors of its home objects (~0.5 M pairs). Revocation lists with entries in every serial order carrying different offending reason codes, and of 17 ... 10000 entries (descending / scattered serials, one duplicate), join the corpus for repetition and read-only.",
        "assumptions": COMMON_ASSUME + ["reads/writes on the Go runtime's own eventfd/pipe wake-up descriptors are not I/O of the linted code",
                                         "os.Getenv is not a system call: it is attacked through environment perturbation only",
                                         "I/O freedom is observed on executed paths only"],
    },
    "C10": {
        "legs": lambda tier: [{"pkg": "racecheck", "run": "^TestC10$", "shards": 12 if tier == "quick" else 16, "race": True, "timeout": 900 if tier == "quick" else 7200},
                              {"pkg": "racecheck", "run": "^TestColdUtil$", "shards": 2 if tier == "quick" else 8, "race": True},
                              {"pkg": "racecheck", "run": "^TestConcurrentJSON$", "shards": 2 if tier == "quick" else 8, "race": True},
                              {"pkg": "racecheck", "run": "^TestConcurrentKeys$", "shards": 1 if tier == "quick" else 4, "race": True},
                              {"pkg": "racecheck", "run": "^TestFreshRegistryReads$", "shards": 4 if tier == "quick" else 8, "race": True},
                              {"pkg": "racecheck", "run": "^TestConcurrentScope$", "shards": 2 if tier == "quick" else 8, "race": True}],
        "maxpar": 8,
        "rule": "hammer phase after every program: 8 goroutines lint the program's focus objects (corpus certificates on which its four focus lints - walked round-robin over the registry - apply) and never-seen-before variants of them (fresh A-labels, ACE prefix in lower / upper / mixed case) 150 (quick) / 400 (thorough) times each through a registry holding only the focus lints; the sequential reference is computed afterwards; 120 s without finishing = deadlock. one program in four concentrates on revocation lists, one in eight on OCSP responses; workers also Filter themselves a registry of their own (options that select everything or not) and reconfigure it while others lint configuration-sensitive objects through the shared one. rapid programs: 2-16 goroutines x 5-40 operations from {Lint*Ex on an own fresh parse against a shared registry, Filter, Names, Sources, ByName/BySource/Lints per kind, "
                "WriteJSON, GetConfiguration, DefaultConfiguration}; shared registries = global + 1-3 generated filtered ones; 6-24 objects per program (corpus walked round-robin so every "
                "lint body the corpus reaches runs concurrently, generated certificates, CRLs, OCSP); start barrier, generated Gosched points; each program executed 3 times; shards run "
                "under GOMAXPROCS 1/2/4/16. Monitors: Go race detector (any report), panics, 180 s deadlock watchdog (120 s in the hammer); oracle: every concurrent lint digest equals the memoised "
                "sequential digest. Non-trivial = program with >=2 mostly-linting goroutines and >=1 other goroutine; distinct by operation lists. Cold start also covers reads: while eight goroutines lint through the untouched global registry three more make every read call (JSON listing, names, sources, per-kind lists, lookups by source and name, a filter, example configuration) for the first time, each shard starting at another call; answers must equal the same calls made alone. Further legs (fresh processes, race detector): ~500 calls of pure helper functions (reserved addresses and networks, TLD table, FQDN / IDNA / country / onion helpers, trial division) made first concurrently then alone, and hammered; JSON encoders (result sets, results, statuses, sources, listing) from eight goroutines against the bytes produced alone; key-quality verdicts on chosen RSA keys from eight goroutines. Fresh-registry reads (race-detector build): 250 / 3000 rounds, each on an untouched Filter result: six goroutines loop over its read calls while a seventh makes one call for the first time (names, listing, sources, a filter, a lint run, example configuration, per-kind names - another each round); answers equal those of an untouched twin asked alone; a round that does not end within 60 s is a deadlock. In the fresh-registry rounds the first call is made by three goroutines released together by a spin barrier; afterwards the registry's names equal its twin's and it can still be filtered.",
        "assumptions": ["SetConfiguration / Register* concurrent with linting are outside the stated guarantee and not generated",
                        "schedules are sampled; the race detector reports an unsynchronised shared access whenever both accesses execute in one run"],
    },
    "C15": {
        "legs": legs_simple("props", "^TestC15$", 14, 16),
        "needs_cli": True,
        "rule": "rapid invocations of the real cmd/zlint binary built from the working tree: 1-4 inputs (generated certificates, corpus CRLs) x encoding (PEM plain / leading text / CRLF, DER, "
                "base64 plain / wrapped / trailing newline) x delivery (neutral file + -format, .pem/.der suffix overriding, stdin, '-') x generated selection flags and config file x output "
                "(default, -pretty, -summary, -longSummary); the enumerated CLI -config matrix of C11; every corpus certificate x {PEM, DER, base64}; a 60 KiB certificate (2600 dNSNames) in every encoding through a file and stdin; 200 files in one invocation under `ulimit -n 48`; bad cases: undecodable bytes, truncated DER, bad base64, wrong PEM type, mismatching suffix, unknown names/sources/regexp/profile/"
                "format/config path. Oracle: exit status, one result object (or table) per decodable leading input, equal to the in-process library result for the same selection; summary "
                "counts equal result counts per level. Non-trivial = invocation with a selection flag or a non-PEM first input; distinct by whole invocation. The -config matrix also carries a section that cannot be applied (the lint's result is fatal, alone above pass under a narrow selection) and asks for -summary / -longSummary: table counts equal the library's counts.",
        "assumptions": ["a .pem/.der suffix overrides -format; neutral files are named *.bin", "CRLs are only accepted in PEM armor"],
    },
}
