"""Per-property leg table used by ./check (kept apart so MANIFEST generation can import it)."""


def legs_simple(pkg, run, qshards, tshards, **kw):
    def f(tier):
        d = {"pkg": pkg, "run": run, "shards": qshards if tier == "quick" else tshards}
        d.update(kw)
        return [d]
    return f


CHECKS = {
    "C12": {
        "legs": legs_simple("props", "^TestC12$", 1, 4),
        "exhaustive": True,
        "rule": "enumerated: every Register* call found by a go/parser census of v3/lints/*/*.go (non-test) and every lint in the "
                "default-build registry, each checked once (census==registry, lookups agree, metadata well-formed); generated: "
                "rapid near-miss / random names and sources looked up in the global and in generated filtered registries. "
                "Non-trivial = one registered lint (census entry or metadata record) or a lookup that must miss; distinct by name.",
        "assumptions": ["lint registrations are syntactic lint.Register* calls with a literal Name (the census reports any that are not)",
                        "the harness test binary imports github.com/zmap/zlint/v3 exactly as a default build does"],
    },
}
