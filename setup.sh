#!/bin/sh
# Builds every harness binary once so that later checks only relink what changed.
set -e
cd "$(dirname "$0")/harness"
export GOFLAGS=-mod=mod GOPROXY=off GOSUMDB=off GOTOOLCHAIN=local
mkdir -p ../.build
go test -c -tags verif -o ../.build/props.test ./props
if ls mockreg/*_test.go >/dev/null 2>&1; then
  go test -c -tags verif -o ../.build/mockreg.test ./mockreg
fi
go test -c -race -tags verif -o ../.build/racecheck.race.test ./racecheck
go build -o ../.build/zlint-cli github.com/zmap/zlint/v3/cmd/zlint
CGO_ENABLED=0 go build -tags verif -o ../.build/oneshot ./cmd/oneshot
echo setup ok
