#!/bin/sh
# Builds every harness test binary once so that later checks only relink what changed.
set -e
cd "$(dirname "$0")/harness"
export GOFLAGS=-mod=mod GOPROXY=off GOSUMDB=off GOTOOLCHAIN=local
mkdir -p ../.build
for p in props mockreg racecheck; do
  if ls $p/*_test.go >/dev/null 2>&1; then
    go test -c -tags verif -o ../.build/$p.test ./$p
  fi
done
if ls racecheck/*_test.go >/dev/null 2>&1; then
  go test -c -race -tags verif -o ../.build/racecheck.race.test ./racecheck
fi
go build -o ../.build/zlint-cli github.com/zmap/zlint/v3/cmd/zlint
echo setup ok
